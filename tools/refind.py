#!/usr/bin/env python3
"""For every repaired defect in known-findings.json that names a replay file: undo the repair in a scratch
worktree of /repo (git revert -n <commit>), replay the stored file against that tree and expect the violation
to come back; replay it against the current tree and expect silence. Shows that a "fixed:" entry suppresses
nothing and that the stored replays still mean what they say after the harness has grown.

usage: tools/refind.py [property ...]"""
import json, os, re, subprocess, sys, shutil

VERIF = os.path.dirname(os.path.dirname(os.path.abspath(__file__)))
REPO = os.environ.get("VP_RUN_REPO", "/repo")

def sh(cmd, cwd=None, env=None):
    r = subprocess.run(cmd, shell=True, cwd=cwd, env=env, stdout=subprocess.PIPE, stderr=subprocess.STDOUT, text=True)
    return r.returncode, r.stdout

def main():
    only = sys.argv[1:]
    kf = json.load(open(os.path.join(VERIF, "known-findings.json")))["findings"]
    bad = 0; n = 0
    for f in kf:
        if not f.get("fixed"): continue
        if only and f["property"] not in only: continue
        if f.get("replay_note"): print("%-4s %s: %s" % (f["property"], f["commit"], f["replay_note"][:120])); continue
        m = re.search(r"replays/fixed/[A-Za-z0-9_.\-]+\.json", f["what"])
        if not m: print("%-4s %s: no replay file named" % (f["property"], f["commit"])); continue
        rp = os.path.join(VERIF, m.group(0)); n += 1
        wt = "/tmp/rtosc-refind.%d" % os.getpid()
        sh("git -C %s worktree remove --force %s" % (REPO, wt)); shutil.rmtree(wt, ignore_errors=True)
        rc, o = sh("git -C %s worktree add -q --detach %s HEAD" % (REPO, wt))
        if rc: print("cannot create worktree:", o); sys.exit(2)
        try:
            rc, o = sh("git revert -n %s" % f["commit"], wt)
            if rc:
                print("%-4s %s %-60s revert conflicts with later repairs: skipped" % (f["property"], f["commit"], os.path.basename(rp))); continue
            env = dict(os.environ, VERIF_REPO=wt, VERIF_BUILDTAG="-refind", VERIF_EVIDENCE_DIR=os.path.join(VERIF, "build", "refind-evidence"))
            rc1, o1 = sh("%s/bin/check %s --replay %s" % (VERIF, f["property"], rp), env=env)
            env2 = dict(os.environ, VERIF_EVIDENCE_DIR=os.path.join(VERIF, "build", "refind-evidence"))
            rc2, o2 = sh("%s/bin/check %s --replay %s" % (VERIF, f["property"], rp), env=env2)
            back = "VIOLATION" in o1; quiet = "VIOLATION" not in o2 and rc2 == 0
            cls = [l for l in o1.splitlines() if "class=" in l]
            ok = back and quiet
            if not ok: bad += 1
            print("%-4s %s %-60s repair undone: %s | current tree: %s %s" % (f["property"], f["commit"], os.path.basename(rp), "violation returns" if back else "NO VIOLATION (rc %d)" % rc1,
                  "silent" if quiet else "ALARM", (cls[0].strip()[:110] if cls else "")))
        finally:
            sh("git -C %s worktree remove --force %s" % (REPO, wt)); shutil.rmtree(wt, ignore_errors=True)
    shutil.rmtree(os.path.join(VERIF, "build", "refind-evidence"), ignore_errors=True)
    print("%d repaired defects with replay files, %d not as expected" % (n, bad))
    sys.exit(1 if bad else 0)

main()
