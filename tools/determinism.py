#!/usr/bin/env python3
"""Determinism procedure (DESIGN 7): every run index of a batch must produce the same trace hash and verdict
in separate processes and at different worker counts.  Usage: tools/determinism.py [ID ...] [--runs N] [--seeds a,b,c]"""
import os, subprocess, sys, importlib.util, importlib.machinery
VERIF = os.path.dirname(os.path.dirname(os.path.abspath(__file__)))
loader = importlib.machinery.SourceFileLoader("check", os.path.join(VERIF, "bin", "check"))
spec = importlib.util.spec_from_loader("check", loader); check = importlib.util.module_from_spec(spec); loader.exec_module(check)

def main():
    args = sys.argv[1:]; runs = 3000; seeds = [1, 7, 12345]; ids = []
    while args:
        a = args.pop(0)
        if a == "--runs": runs = int(args.pop(0))
        elif a == "--seeds": seeds = [int(x) for x in args.pop(0).split(",")]
        else: ids.append(a)
    bad = 0
    for pid in (ids or sorted(check.CHECKS)):
        for (world, _, _) in check.CHECKS[pid]["stages"]:
            if not os.path.exists(os.path.join(VERIF, "worlds", world + ".cpp")): continue
            exe = check.build(pid, world)
            for seed in seeds:
                outs = []
                for w in (1, 5, 16, 16):
                    hf = os.path.join(VERIF, "build", pid, "hashes.%d.%d" % (seed, len(outs)))
                    subprocess.run([exe, "--prop", pid, "--seed", str(seed), "--runs", str(runs), "--workers", str(w), "--out", "/dev/null",
                                    "--dump-hashes", hf, "--replaydir", os.path.join(VERIF, "build", pid, "det-replays"), "--no-shrink", "--max-report", "0"],
                                   stdout=subprocess.DEVNULL, stderr=subprocess.DEVNULL)
                    outs.append(open(hf).read()); os.remove(hf)
                same = all(o == outs[0] for o in outs)
                n = len(outs[0].splitlines())
                print("%s %s seed=%d runs=%d workers=1,5,16,16: %s" % (pid, world, seed, n, "identical" if same else "MISMATCH"))
                if not same:
                    bad += 1
                    a, b = outs[0].splitlines(), [o for o in outs if o != outs[0]][0].splitlines()
                    diff = [i for i in range(min(len(a), len(b))) if a[i] != b[i]]
                    print("   first differing run indices:", diff[:10], "of", len(diff))
    sys.exit(1 if bad else 0)
main()
