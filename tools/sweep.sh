#!/bin/bash
# multi-seed sweep of every quick check on the unchanged tree (false-alarm hygiene)
cd "$(dirname "$0")/.." 2>/dev/null || true
for s in 2 3 4 5 6 7 8 9 10 11 12 13 14 15 16 17 18 19 20 21; do
  for id in C02 C03 C06 C07 C12 C13 C14 C15 C19 C20; do
    out=$(VERIF_SEED=$s VERIF_EVIDENCE_DIR=build/sweep-evidence bin/check $id quick 2>&1); rc=$?
    echo "seed=$s $id rc=$rc $(echo "$out" | grep -c '^VIOLATION') violations $(echo "$out" | grep -c '^KNOWN-FINDING') known $(echo "$out" | tail -1)"
    if [ $rc -ne 0 ]; then echo "$out" | grep -A3 '^VIOLATION\|INFRA'; fi
  done
done
