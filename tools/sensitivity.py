#!/usr/bin/env python3
"""Sensitivity procedure (DESIGN 7): break a property on purpose in a scratch copy of /repo and confirm the
quick check reports it.  Usage: tools/sensitivity.py [ID ...] [--only name] [--tier quick] [--scale f]
Every mutant is (id, name, file, old, new, expect) with expect 1 (must be caught) or 0 (benign edit: must stay quiet).
The scratch copy lives under /tmp and is removed immediately after each mutant."""
import os, shutil, subprocess, sys, json, time

VERIF = os.path.dirname(os.path.dirname(os.path.abspath(__file__)))
sys.path.insert(0, os.path.join(VERIF, "tools"))
from mutants import MUTANTS


def main():
    args = sys.argv[1:]; only = None; scale = None; ids = []
    while args:
        a = args.pop(0)
        if a == "--only": only = args.pop(0)
        elif a == "--scale": scale = args.pop(0)
        else: ids.append(a)
    results = []
    for m in MUTANTS:
        pid, name, edits, expect = m["id"], m["name"], m["edits"], m.get("expect", 1)
        if ids and pid not in ids: continue
        if only and only != name: continue
        scratch = "/tmp/rtosc-mut.%d" % os.getpid()
        shutil.rmtree(scratch, ignore_errors=True); os.makedirs(scratch)
        for sub in ("src", "include", "CMakeLists.txt"):
            s = os.path.join(os.environ.get("VP_RUN_REPO", "/repo"), sub)
            (shutil.copytree if os.path.isdir(s) else shutil.copy)(s, os.path.join(scratch, sub))
        ok = True
        for (f, old, new) in edits:
            p = os.path.join(scratch, f); t = open(p).read()
            if t.count(old) != 1:
                print("MUTANT %s/%s: pattern found %d times in %s" % (pid, name, t.count(old), f)); ok = False; break
            open(p, "w").write(t.replace(old, new))
        if not ok:
            results.append((pid, name, "BAD-PATTERN")); shutil.rmtree(scratch, ignore_errors=True); continue
        env = dict(os.environ, VERIF_REPO=scratch, VERIF_BUILDTAG="-mut", VERIF_EVIDENCE_DIR=os.path.join(VERIF, "build", "mut-evidence"))
        if scale: env["VERIF_SCALE"] = scale
        t0 = time.time()
        r = subprocess.run([os.path.join(VERIF, "bin", "check"), pid, "quick"], env=env, stdout=subprocess.PIPE, stderr=subprocess.STDOUT, text=True)
        shutil.rmtree(scratch, ignore_errors=True)
        viol = [l for l in r.stdout.splitlines() if l.startswith("VIOLATION") or l.startswith("  class=")]
        verdict = "CAUGHT" if r.returncode == 1 else "QUIET" if r.returncode == 0 else "INFRA(%d)" % r.returncode
        good = (r.returncode == 1) == (expect == 1) and r.returncode in (0, 1)
        print("%-4s %-34s %-8s %s %5.1fs  %s" % (pid, name, verdict, "as expected" if good else "UNEXPECTED", time.time() - t0, (viol[1].strip()[:150] if len(viol) > 1 else "")))
        if not good and r.returncode == 2: print(r.stdout[-1500:])
        results.append((pid, name, verdict, good))
    shutil.rmtree(os.path.join(VERIF, "build", "mut-evidence"), ignore_errors=True)
    bad = [r for r in results if len(r) < 4 or not r[3]]
    print("%d mutants, %d as expected, %d not" % (len(results), len(results) - len(bad), len(bad)))
    sys.exit(1 if bad else 0)


if __name__ == "__main__":
    main()
