# Hand-written breaking edits used by tools/sensitivity.py.  expect=1: the property is broken and the quick check
# must report a violation.  expect=0: a benign edit (property still holds): the check must stay quiet.
TL = "src/cpp/thread-link.cpp"
UH = "src/cpp/undo-history.cpp"
AU = "src/cpp/automations.cpp"
PS = "include/rtosc/port-sugar.h"
RC = "src/rtosc.c"
PC = "src/cpp/ports.cpp"
SF = "src/cpp/savefile.cpp"
MM = "src/cpp/midimapper.cpp"
MUTANTS = [
 dict(id="C06", name="publish_before_copy", edits=[(TL,
  """    const off_t  next_write = (ring->write + len)%ring->size;

    //discontinuous write""",
  """    const off_t  next_write = (ring->write + len)%ring->size;
    const off_t  cur_write = ring->write;
    ring->write = next_write;
#define write write_dummy_never
#undef write
    //discontinuous write"""),
  (TL, """    if(next_write < ring->write) {
        const size_t w1 = ring->size - ring->write;
        const size_t w2 = len - w1;
        memcpy(ring->buffer+ring->write, data,    w1);
        memcpy(ring->buffer,             data+w1, w2);
    } else { //contiguous
        memcpy(ring->buffer+ring->write, data, len);
    }
    ring->write = next_write;""",
  """    if(next_write < cur_write) {
        const size_t w1 = ring->size - cur_write;
        const size_t w2 = len - w1;
        memcpy(ring->buffer+cur_write, data,    w1);
        memcpy(ring->buffer,             data+w1, w2);
    } else { //contiguous
        memcpy(ring->buffer+cur_write, data, len);
    }""")]),
 dict(id="C06", name="release_before_copy", edits=[(TL,
  """    const off_t  next_read = (read + len)%ring->size;

    //discontinuous read""",
  """    const off_t  next_read = (read + len)%ring->size;
    if(!lookahead) ring->read = next_read;
    //discontinuous read""")]),
 dict(id="C06", name="no_free_slot", edits=[(TL, "    return ((r - w + ring->size) % ring->size) - 1;", "    return ((r - w + ring->size) % ring->size);"),
                                              (TL, "        return ring->size - 1;", "        return ring->size;")]),
 dict(id="C06", name="two_free_slots_benign", expect=0, edits=[(TL, "    return ((r - w + ring->size) % ring->size) - 1;", "    return ((r - w + ring->size) % ring->size) - 2;"),
                                              (TL, "        return ring->size - 1;", "        return ring->size - 2;")]),
 dict(id="C06", name="wrap_split_off_by_one", edits=[(TL, "        const size_t w1 = ring->size - ring->write;", "        const size_t w1 = ring->size - ring->write - 1;")]),
 dict(id="C06", name="read_split_off_by_one", edits=[(TL, "        const size_t r1 = ring->size - read;", "        const size_t r1 = ring->size - read - 1;")]),
 dict(id="C06", name="lookahead_not_resynced", edits=[(TL, "        ring->read_lookahead = ring->read = next_read;", "        ring->read = next_read;")]),
 dict(id="C06", name="lookahead_consumes", edits=[(TL, "    if (lookahead)\n        ring->read_lookahead = next_read;", "    if (lookahead)\n        ring->read_lookahead = ring->read = next_read;")]),
 dict(id="C06", name="read_size_wrong_index", edits=[(TL, "    const size_t r = lookahead ? ring->read_lookahead : ring->read;\n\n    return (w-r+ring->size) % ring->size;", "    const size_t r = ring->read;\n\n    return (w-r+ring->size) % ring->size;")]),
 dict(id="C06", name="relaxed_publish", edits=[(TL, "    ring->write = next_write;", "    ring->write.store(next_write, std::memory_order_relaxed);")]),
 dict(id="C06", name="acq_rel_pairs_benign", expect=0, edits=[(TL, "    ring->write = next_write;", "    ring->write.store(next_write, std::memory_order_release);"),
     (TL, "static size_t ring_read_size(ringbuffer_t *ring, bool lookahead)\n{\n    const size_t w = ring->write;", "static size_t ring_read_size(ringbuffer_t *ring, bool lookahead)\n{\n    const size_t w = ring->write.load(std::memory_order_acquire);")]),
 dict(id="C06", name="write_index_not_atomic", edits=[(TL, "    std::atomic<off_t> write;", "    volatile off_t write;")]),
 dict(id="C06", name="raw_oversize_accepted", edits=[(TL, "    if(len <= MaxMsg && ring_write_size(ring) >= len+tail)", "    if(ring_write_size(ring) >= len+tail)")]),
 dict(id="C06", name="fit_test_strict_in_write_only", edits=[(TL, "    if(ring_write_size(ring) >= len)\n        ring_write(ring,write_buffer,len);\n}\n\nvoid ThreadLink::writeArray", "    if(ring_write_size(ring) > len)\n        ring_write(ring,write_buffer,len);\n}\n\nvoid ThreadLink::writeArray")]),
 dict(id="C06", name="drop_check_removed", edits=[(TL, "    if(ring_write_size(ring) >= len)\n        ring_write(ring,write_buffer,len);\n}\n\nvoid ThreadLink::writeArray", "    ring_write(ring,write_buffer,len);\n}\n\nvoid ThreadLink::writeArray")]),
 dict(id="C06", name="write_size_stale_read_swap", edits=[(TL, "    const off_t  next_write = (ring->write + len)%ring->size;", "    const off_t  next_write = (ring->write + len + (len==12?4:0))%ring->size;")]),

 # ---- C15 undo history
 dict(id="C15", name="merge_window_gt3", edits=[(UH, "        if(difftime(now, history[i].first) > 2)", "        if(difftime(now, history[i].first) > 3)")]),
 dict(id="C15", name="merge_window_ge2", edits=[(UH, "        if(difftime(now, history[i].first) > 2)", "        if(difftime(now, history[i].first) >= 2)")]),
 dict(id="C15", name="merge_window_gt1", edits=[(UH, "        if(difftime(now, history[i].first) > 2)", "        if(difftime(now, history[i].first) > 1)")]),
 dict(id="C15", name="merge_scan_stops_at_stale", edits=[(UH, "        if(difftime(now, history[i].first) > 2)\n            continue;", "        if(difftime(now, history[i].first) > 2)\n            break;")]),
 dict(id="C15", name="merge_keeps_new_old_value", edits=[(UH, "            args[1] = rtosc_argument(history[i].second,1);", "            args[1] = rtosc_argument(msg,1);")]),
 dict(id="C15", name="merge_does_not_refresh_stamp", edits=[(UH, "            history[i].first = now;\n", "")]),
 dict(id="C15", name="cap_off_by_one", edits=[(UH, "        if(impl->history.size() > impl->max_history_size)", "        if(impl->history.size() >= impl->max_history_size)")]),
 dict(id="C15", name="evict_keeps_cursor", edits=[(UH, "            impl->history.pop_front();\n            impl->history_pos--;", "            impl->history.pop_front();")]),
 dict(id="C15", name="no_tail_truncation", edits=[(UH, "        impl->history.resize(impl->history_pos);", "        ;")]),
 dict(id="C15", name="seek_clamp_hi_wrong", edits=[(UH, "        distance  = impl->history.size() - impl->history_pos;", "        distance  = impl->history.size() - impl->history_pos - (impl->history.size() > 3 ? 1 : 0);")]),
 dict(id="C15", name="seek_clamp_lo_missing", edits=[(UH, "    if(dest < 0)\n        distance -= dest;", "    if(dest < -1)\n        distance -= dest;")]),
 dict(id="C15", name="replay_uses_old_value", edits=[(UH, "    cb(setMessage(msg, 2).data());", "    cb(setMessage(msg, 1).data());")]),
 dict(id="C15", name="rewind_order_oldest_first", edits=[(UH, "        while(distance++)\n            impl->rewind(impl->history[--impl->history_pos].second);",
      "        { long n = -distance; long base = impl->history_pos - n; for(long q=0;q<n;++q) impl->rewind(impl->history[base+q].second); impl->history_pos = base; }")]),
 dict(id="C15", name="merge_only_newest_entry", edits=[(UH, "    for(int i=history_pos-1; i>=0; --i) {", "    for(int i=history_pos-1; i>=history_pos-1; --i) {")]),

 # ---- C19 automations
 dict(id="C19", name="clear_idle_slot_shifts_queue", edits=[(AU, "    if(s.learning > 0) {", "    if(s.learning) {")]),
 dict(id="C19", name="learn_served_lifo", edits=[(AU, "        if(slots[i].learning == 1) {", "        if(slots[i].learning == learn_queue_len && learn_queue_len > 0) {")]),
 dict(id="C19", name="no_renumber_after_serve", edits=[(AU, "                if(slots[j].learning > 1)\n                    slots[j].learning -= 1;", "                ;")]),
 dict(id="C19", name="float_upper_clamp_removed", edits=[(AU, """    } else if(type == 'f') {
        float v = value*(b-a) + a;
        if(v > mx)
            v = mx;
        else if(v < mn)""", """    } else if(type == 'f') {
        float v = value*(b-a) + a;
        if(v < mn)""")]),
 dict(id="C19", name="int_lower_clamp_to_max", edits=[(AU, "        else if(v < au.param_min)\n            v = au.param_min;", "        else if(v < au.param_min)\n            v = au.param_max;")]),
 dict(id="C19", name="int_truncates", edits=[(AU, '        v = round(v);\n', '')]),
 dict(id="C19", name="log_scale_not_exponentiated", edits=[(AU, "        if(au.map.control_scale == 1)\n            v = expf(v);", "        ;")]),
 dict(id="C19", name="channel_ignored", edits=[(AU, "        par_id = channel*128 + type;", "        par_id = type;")]),
 dict(id="C19", name="offset_sign_flipped_benign", expect=0, edits=[(AU, "    float center = (mn+mx)*(0.5 + au.map.offset/100.0);", "    float center = (mn+mx)*(0.5 - au.map.offset/100.0);")]),
 dict(id="C19", name="clear_keeps_cc_binding", edits=[(AU, "    s.learning = -1;\n    s.midi_cc  = -1;", "    s.learning = -1;")]),
 dict(id="C19", name="waiting_slot_requeued", edits=[(AU, "    if(start_midi_learn && slots[slot].learning == -1 &&\n            slots[slot].midi_cc == -1 && slots[slot].midi_nrpn == -1)", "    if(start_midi_learn &&\n            slots[slot].midi_cc == -1 && slots[slot].midi_nrpn == -1)")]),
 dict(id="C19", name="nrpn_bound_slot_requeued", edits=[(AU, "            slots[slot].midi_cc == -1 && slots[slot].midi_nrpn == -1)", "            slots[slot].midi_cc == -1)")]),
 dict(id="C19", name="incomplete_nrpn_learns", edits=[(AU, "        } else //incomplete NRPN sequence: nothing to drive or learn yet\n            return 0;", "        }")]),
 dict(id="C19", name="nrpn_state_uninitialised", edits=[(AU, "    NRPN.parhi = NRPN.parlo = NRPN.valhi = NRPN.vallo = -1;\n", "")]),
 dict(id="C19", name="gain_range_halved", edits=[(AU, "    float range  = (mx-mn)*au.map.gain/100.0;", "    float range  = (mx-mn)*au.map.gain/200.0;")]),
 dict(id="C19", name="toggle_sent_as_int", edits=[(AU, 'rtosc_message(msg, 256, path, v == 1.0 ? "T" : "F");', 'rtosc_message(msg, 256, path, "i", v == 1.0 ? 1 : 0);')]),
 dict(id="C19", name="second_sub_not_driven", edits=[(AU, "    for(int i=0; i<per_slot; ++i)\n        setSlotSub(slot_id, i, value);", "    for(int i=0; i<1; ++i)\n        setSlotSub(slot_id, i, value);")]),

 # ---- C14 parameter ports
 dict(id="C14", name="float_undo_cast_to_int", edits=[(PS, "data.loc, (decltype(var))(getcode), var); setcode;", "data.loc, static_cast<int>(getcode), var); setcode;")]),
 dict(id="C15", name="e2e_float_undo_cast_to_int", edits=[(PS, "data.loc, (decltype(var))(getcode), var); setcode;", "data.loc, static_cast<int>(getcode), var); setcode;")]),
 dict(id="C14", name="min_clamp_sets_max", edits=[(PS, "        var = (decltype(var)) convert(prop[\"min\"]);\\", "        var = (decltype(var)) convert(prop[\"max\"]);\\")]),
 dict(id="C14", name="max_clamp_missing", edits=[(PS, "    if(prop[\"max\"] && var > convert(prop[\"max\"])) \\", "    if(0 && prop[\"max\"] && var > (decltype(var)) convert(prop[\"max\"])) \\")]),
 dict(id="C14", name="undo_event_when_unchanged", edits=[(PS, "#define rCAPPLY(getcode, t, setcode) if((decltype(var))(getcode) != var) data.reply", "#define rCAPPLY(getcode, t, setcode) if(1) data.reply")]),
 dict(id="C14", name="undo_old_new_swapped", edits=[(PS, "data.loc, (decltype(var))(getcode), var); setcode;", "data.loc, var, (decltype(var))(getcode)); setcode;")]),
 dict(id="C14", name="float_bounds_parsed_as_int", edits=[(PS, """            rTYPE(name) var = rtosc_argument(msg, 0).f; \\
            rLIMIT(var, atof) \\""", """            rTYPE(name) var = rtosc_argument(msg, 0).f; \\
            rLIMIT(var, atoi) \\""")]),
 dict(id="C14", name="toggle_no_broadcast", edits=[(PS, """            if(obj->name != rtosc_argument(msg, 0).T) { \\
                data.broadcast(loc, rtosc_argument(msg, 0).T ? \"T\" : \"F\");\\
                obj->name = rtosc_argument(msg, 0).T; \\""", """            if(obj->name != rtosc_argument(msg, 0).T) { \\
                obj->name = rtosc_argument(msg, 0).T; \\""")]),
 dict(id="C14", name="string_truncated_one_short", edits=[(PS, "            strncpy(obj->name, rtosc_argument(msg, 0).s, length-1); \\\n            obj->name[length-1] = '\\0'; \\", "            strncpy(obj->name, rtosc_argument(msg, 0).s, length-2); \\\n            obj->name[length-2] = '\\0'; \\")]),
 dict(id="C14", name="float_array_writes_element_0", edits=[(PS, "            rAPPLY(name[idx], f) \\", "            rAPPLY(name[0], f) \\")]),
 dict(id="C14", name="option_symbol_off_by_one", edits=[("src/cpp/ports.cpp", "        result = atoi(m.title+4);\n        break;", "        result = atoi(m.title+4)+1;\n        break;")]),
 dict(id="C14", name="int_query_replies_plus_one", edits=[(PS, """            data.reply(loc, "i", obj->name); \\
        } else { \\
            rTYPE(name) var = rtosc_argument(msg, 0).i; \\
            rLIMIT(var, atoi) \\
            rAPPLY(name, i) \\""", """            data.reply(loc, "i", obj->name+1); \\
        } else { \\
            rTYPE(name) var = rtosc_argument(msg, 0).i; \\
            rLIMIT(var, atoi) \\
            rAPPLY(name, i) \\""")]),
 dict(id="C14", name="char_param_not_clamped", edits=[(PS, """            rTYPE(name) var = rtosc_argument(msg, 0).i; \\
            rLIMIT(var, atoi) \\
            rAPPLY(name, c) \\""", """            rTYPE(name) var = rtosc_argument(msg, 0).i; \\
            rAPPLY(name, c) \\""")]),
 dict(id="C14", name="option_int_not_clamped", edits=[(PS, """                    rtosc_argument(msg, 0).i; \\
                rLIMIT(var, atoi) \\
                rCAPPLY(getcode, i, setcode) \\""", """                rtosc_argument(msg, 0).i; \\
                rCAPPLY(getcode, i, setcode) \\""")]),
 dict(id="C14", name="broadcast_old_value", edits=[(PS, """            rAPPLY(name, f) \\
            data.broadcast(loc, "f", obj->name);\\""", """            data.broadcast(loc, "f", obj->name);\\
            rAPPLY(name, f) \\""")]),
 dict(id="C14", name="array_toggle_index_shifted", edits=[(PS, "            obj->name[idx] = rtosc_argument(msg, 0).T; \\\n        } rBOILS_END\n\n#define rArrayTCbMember", "            obj->name[idx ? idx-1 : 0] = rtosc_argument(msg, 0).T; \\\n        } rBOILS_END\n\n#define rArrayTCbMember")]),

 # ---- C02 fixed-buffer discipline
 dict(id="C02", name="capacity_test_off_by_four", edits=[(RC, "    if(total_len>len) {\n        memset(buffer, 0, len);\n        return 0;", "    if(total_len>len+4) {\n        memset(buffer, 0, len);\n        return 0;")]),
 dict(id="C02", name="exact_fit_rejected", edits=[(RC, "    if(total_len>len) {\n        memset(buffer, 0, len);\n        return 0;", "    if(total_len>=len) {\n        memset(buffer, 0, len);\n        return 0;")]),
 dict(id="C02", name="no_zero_fill_on_failure", edits=[(RC, "    if(total_len>len) {\n        memset(buffer, 0, len);\n        return 0;", "    if(total_len>len) {\n        return 0;")]),
 dict(id="C02", name="failure_returns_needed_size", edits=[(RC, "    if(total_len>len) {\n        memset(buffer, 0, len);\n        return 0;", "    if(total_len>len) {\n        memset(buffer, 0, len);\n        return total_len;")]),
 dict(id="C02", name="bundle_unbounded", edits=[(RC, "    if(total_len > len)\n        return 0;\n", "")]),
 dict(id="C02", name="bundle_bound_ignores_size_fields", edits=[(RC, "        total_len += 4+rtosc_message_length(va_arg(va_size, const char*), -1);", "        total_len += rtosc_message_length(va_arg(va_size, const char*), -1);")]),
 dict(id="C02", name="link_encodes_beyond_maxmsg", edits=[(TL, "        rtosc_amessage(write_buffer, MaxMsg, dest, args, aargs);", "        rtosc_amessage(write_buffer, MaxMsg+8, dest, args, aargs);")]),
 dict(id="C02", name="reply_buffer_size_mismatch", edits=[("src/cpp/ports.cpp", "    char buffer[8192];\n    rtosc_vmessage(buffer,8192,path,args,va);\n    reply(buffer);", "    char buffer[8192];\n    rtosc_vmessage(buffer,8200,path,args,va);\n    reply(buffer);")]),
 dict(id="C02", name="avmessage_counts_valueless_tags", edits=[("src/cpp/arg-val.c", "            vals[nvals++] = cur->val;", "            vals[nvals++] = cur->val;\n        else vals[nvals++] = cur->val;")]),
 dict(id="C02", name="null_buffer_size_without_padding", edits=[(RC, "    if(!buffer)\n        return total_len;", "    if(!buffer)\n        return total_len - (total_len > 32 ? 4 : 0);")]),

 # ---- C07 validation of untrusted bytes
 dict(id="C07", name="deref_bound_off_by_one", edits=[(RC, "    return pos<ring[0].len ? ring[0].data[pos] :", "    return pos<=ring[0].len ? ring[0].data[pos] :")]),
 dict(id="C07", name="blob_length_unchecked", edits=[(RC, "                if(pos > ring[0].len+ring[1].len ||\n                        i > ring[0].len+ring[1].len-pos)\n                    return 0;\n", "")]),
 dict(id="C07", name="validator_accepts_shorter_length", edits=[(RC, "    return observed_length == len;", "    return observed_length && observed_length <= len;")]),
 dict(id="C07", name="validator_nonprintable_path_benign", expect=0, edits=[(RC, "        if(!isprint(*tmp))\n            return false;", "        ;")]),
 dict(id="C07", name="validator_alignment_check_removed", edits=[(RC, "    if((offset2 % 4) != 0)\n        return false;", "")]),
 dict(id="C07", name="extract_int_wrong_shift", edits=[(RC, "                result.i |= (*arg_pos++ << 16);\n                result.i |= (*arg_pos++ << 8);\n                result.i |= (*arg_pos++);\n                break;\n            case 'm':", "                result.i |= (*arg_pos++ << 16);\n                result.i |= (*arg_pos++ << 8);\n                arg_pos++;\n                break;\n            case 'm':")]),
 dict(id="C07", name="arg_size_symbol_missing", edits=[(RC, "        case 'S':\n        case 's':\n            while(*arg_pos) ++arg_pos;", "        case 's':\n            while(*arg_pos) ++arg_pos;")]),
 dict(id="C07", name="narguments_counts_leading_bracket", edits=[(RC, "    for(;*args;++args)\n        nargs += (*args == ']' || *args == '[') ? 0 : 1;\n    return nargs;", "    while(*args++)\n        nargs += (*args == ']' || *args == '[') ? 0 : 1;\n    return nargs;")]),
 dict(id="C07", name="validator_reads_empty_buffer", edits=[(RC, "    if(len == 0 || *msg != '/')", "    if(*msg != '/')")]),
 dict(id="C07", name="arg_start_skips_first_type_byte", edits=[(RC, "    while(*arg_pos) ++arg_pos;\n    //Alignment\n    arg_pos += 4-(arg_pos-aligned_ptr)%4;\n    return arg_pos-msg;", "    while(*++arg_pos);\n    //Alignment\n    arg_pos += 4-(arg_pos-aligned_ptr)%4;\n    return arg_pos-msg;")]),
 dict(id="C07", name="length_string_scan_skips_first_byte", edits=[(RC, "                while(deref(pos,ring)) ++pos;", "                while(deref(++pos,ring));")]),
 dict(id="C07", name="length_ignores_type_d", edits=[(RC, "            case 'h':\n            case 't':\n            case 'd':\n                pos += 8;\n                --toparse;", "            case 'h':\n            case 't':\n                pos += 8;\n                --toparse;\n                break;\n            case 'd':\n                pos += 4;\n                --toparse;")]),
 dict(id="C07", name="type_tag_terminator_not_required", edits=[(RC, "    return pos <= (ring[0].len+ring[1].len) ? pos : 0;\n}\n\nsize_t rtosc_message_length", "    return pos <= (ring[0].len+ring[1].len)+2 ? (pos > ring[0].len+ring[1].len ? ring[0].len+ring[1].len : pos) : 0;\n}\n\nsize_t rtosc_message_length")]),

 # ---- C03 realtime safety
 dict(id="C03", name="dispatch_copies_path_into_string", edits=[(PC, "    void *obj = d.obj;\n\n    //handle the first dispatch layer", "    std::string path_copy(m ? m : \"\"); if(path_copy.size() > 1000000) return;\n    void *obj = d.obj;\n\n    //handle the first dispatch layer")]),
 dict(id="C03", name="reply_formats_into_vector", edits=[(PC, "void RtData::reply(const char *path, const char *args, ...)\n{\n    va_list va;\n    va_start(va,args);\n    char buffer[8192];\n    rtosc_vmessage(buffer,8192,path,args,va);\n    reply(buffer);",
      "void RtData::reply(const char *path, const char *args, ...)\n{\n    va_list va;\n    va_start(va,args);\n    std::vector<char> vbuffer(8192); char *buffer = vbuffer.data();\n    rtosc_vmessage(buffer,8192,path,args,va);\n    reply(buffer);")]),
 dict(id="C03", name="vmessage_heap_instead_of_vla", edits=[(RC, "    STACKALLOC(rtosc_arg_t, args, nargs);\n    rtosc_va_list_t ap2;\n    va_copy(ap2.a, ap);\n    rtosc_v2args(args, nargs, arguments, &ap2);\n\n    return rtosc_amessage(buffer,len,address,arguments,args);",
      "    rtosc_arg_t *args = (rtosc_arg_t*)malloc(nargs*sizeof(rtosc_arg_t));\n    rtosc_va_list_t ap2;\n    va_copy(ap2.a, ap);\n    rtosc_v2args(args, nargs, arguments, &ap2);\n\n    size_t r_ = rtosc_amessage(buffer,len,address,arguments,args); free(args); return r_;"),
      (RC, "#include <assert.h>\n\n#include <rtosc/rtosc.h>", "#include <assert.h>\n#include <stdlib.h>\n\n#include <rtosc/rtosc.h>")]),
 dict(id="C03", name="dispatch_takes_a_mutex", edits=[(PC, "    void *obj = d.obj;\n\n    //handle the first dispatch layer", "    static std::recursive_mutex dispatch_mutex; std::lock_guard<std::recursive_mutex> dispatch_guard(dispatch_mutex);\n    void *obj = d.obj;\n\n    //handle the first dispatch layer"),
      (PC, "#include <ostream>", "#include <ostream>\n#include <mutex>")]),
 dict(id="C03", name="option_symbol_copied_into_string", edits=[(PC, "int rtosc::enum_key(Port::MetaContainer meta, const char* value)\n{\n    int result = std::numeric_limits<int>::min();", "int rtosc::enum_key(Port::MetaContainer meta, const char* value_)\n{\n    std::string value_s(std::string(\"symbol:\") + value_ + \"                \"); const char *value = value_s.c_str() + 7; value_s.resize(7 + strlen(value_));\n    int result = std::numeric_limits<int>::min();")]),
 dict(id="C03", name="link_read_allocates_on_wrap", edits=[(TL, "    if(next_read < read) {\n        const size_t r1 = ring->size - read;", "    if(next_read < read) {\n        char *wrap_tmp = new char[len]; wrap_tmp[0] = ring->buffer[0]; { volatile char sink_ = wrap_tmp[0]; (void)sink_; } delete[] wrap_tmp;\n        const size_t r1 = ring->size - read;")]),
 dict(id="C03", name="default_handler_std_function_copy", edits=[(PC, "            } else if(default_handler) {\n                d.matches++;\n                default_handler(m,d), d.obj = obj;", "            } else if(default_handler) {\n                d.matches++;\n                std::function<void(msg_t, RtData&)> handler_copy = default_handler; std::vector<int> seen_(32); handler_copy(m,d), d.obj = obj;")]),
 dict(id="C03", name="match_duplicates_pattern", edits=[("src/dispatch.c", "    const char *arg_pattern = rtosc_match_path(pattern, msg, path_end);\n    if(!arg_pattern)\n        return false;", "    char *pattern_dup = (char*)malloc(strlen(pattern)+1);\n    strcpy(pattern_dup, pattern);\n    const char *arg_pattern = rtosc_match_path(pattern_dup, msg, path_end);\n    if(arg_pattern) arg_pattern = pattern + (arg_pattern - pattern_dup);\n    free(pattern_dup);\n    if(!arg_pattern)\n        return false;")]),

 # ---- C12 savefiles
 dict(id="C12", name="preset_default_ignores_selector", edits=[("src/cpp/default-value.cpp", "        strncat(default_variant, dependent_value,\n                buffersize - strlen(default_variant));", "        strncat(default_variant, \"0\",\n                buffersize - strlen(default_variant));")]),
 dict(id="C12", name="disabled_subtrees_not_pruned", edits=[(PC, "            bool res = rval.type == 'T' || (rval.type == 'i' && rval.val.i != 0);", "            bool res = true; (void)rval;")]),
 dict(id="C12", name="other_application_accepted", edits=[(SF, "        if(n0 > 0 && !strncmp(file_content + n0, appname, name_len))\n        {\n            sscanf(file_content + n0 + name_len,", "        if(n0 > 0)\n        {\n            const size_t name_len = strcspn(file_content + n0, \" \");\n            sscanf(file_content + n0 + name_len,")]),
 dict(id="C12", name="foreign_header_first_check_removed_benign", expect=0, edits=[(SF, "    if(n <= 0 || vma > 255 || vmi > 255 || vre > 255)\n        return -bytes_read-1;\n    if(dispatcher)\n    {\n        dispatcher->rtosc_filever.major = vma;", "    if(0)\n        return -bytes_read-1;\n    if(dispatcher)\n    {\n        dispatcher->rtosc_filever.major = vma;")]),
 dict(id="C12", name="failed_dispatch_not_reported", edits=[(SF, "    return ok ? msgs_read : -rd_total-1;", "    return msgs_read;")]),
 dict(id="C12", name="floats_printed_lossy", edits=[("src/cpp/pretty-format.c", " = &((rtosc_print_options) { true, 2, \" \", 80, true});", " = &((rtosc_print_options) { false, 2, \" \", 80, true});")]),
 dict(id="C12", name="v2argvals_walks_past_valueless_tags", edits=[(RC, "        switch(*arg_str)\n        {\n            case 'T': args->val.T = 1; break;\n            case 'F': args->val.T = 0; break;\n            case 'N': case 'I': break;\n            default:\n                rtosc_v2args(&args->val, 1, arg_str, &ap2);\n        }", "        rtosc_v2args(&args->val, 1, arg_str, &ap2);")]),
 dict(id="C12", name="array_suffix_trim_off_by_one", edits=[(SF, "                first_equal = ritr.i + 1;", "                first_equal = ritr.i;")]),
 dict(id="C12", name="values_equal_to_default_written", edits=[(SF, "                if(!rtosc_arg_vals_eq(arg_vals_default, arg_vals_runtime,\n                                      nargs_default, nargs_runtime, nullptr))", "                if(nargs_runtime != 1 || arg_vals_runtime[0].type != 'f' || !rtosc_arg_vals_eq(arg_vals_default, arg_vals_runtime,\n                                      nargs_default, nargs_runtime, nullptr))")]),
 dict(id="C12", name="load_hangs_on_address_only_line", edits=[(SF, "                    if(!nargs)\n                        break;", "")]),
 dict(id="C12", name="scanner_date_heuristic", edits=[("src/cpp/pretty-format.c", "            else if(isdigit(src[0]) && isdigit(src[1]) && isdigit(src[2]) &&\n                    isdigit(src[3]) && src[4] == '-')", "            else if(src[0] && src[1] && src[2] && src[3] && src[4] == '-')")]),
 dict(id="C12", name="option_saved_as_symbol_off_by_one", edits=[(PC, "void rtosc::map_arg_vals(rtosc_arg_val_t* av, size_t n,\n                         Port::MetaContainer meta)\n{", "void rtosc::map_arg_vals(rtosc_arg_val_t* av, size_t n,\n                         Port::MetaContainer meta)\n{\n    for(size_t q = 0; q < n; ++q) if(av[q].type == 'i' && av[q].val.i == 2 && meta[\"map 3\"]) av[q].val.i = 3;")]),
 # ---- C13 order independence
 dict(id="C13", name="no_topological_sort", edits=[(SF, "    for(std::size_t order_id : order)\n    {", "    for(std::size_t order_id_ = 0; order_id_ < message_v.size(); ++order_id_)\n    {\n        std::size_t order_id = order_id_;")]),
 dict(id="C13", name="default_depends_edges_missing", edits=[(SF, '            const char* dep_types[3] = { "enabled by", "depends", "default depends" };', '            const char* dep_types[2] = { "enabled by", "depends" };')]),
 dict(id="C13", name="enabled_by_edges_missing", edits=[(SF, '            const char* dep_types[3] = { "enabled by", "depends", "default depends" };', '            const char* dep_types[2] = { "depends", "default depends" };')]),
 dict(id="C13", name="depends_edges_missing", edits=[(SF, '            const char* dep_types[3] = { "enabled by", "depends", "default depends" };', '            const char* dep_types[2] = { "enabled by", "default depends" };')]),
 dict(id="C13", name="parents_not_scanned_for_dependencies", edits=[(SF, "          cur_portname.resize(last_slash))\n    {", "          cur_portname.resize(0))\n    {")]),
 dict(id="C13", name="edge_direction_reversed", edits=[(SF, "            ++n_input_edges[dep];", "            (void)dep;"), (SF, "            if(--n_input_edges[dependee] == 0)\n                no_incoming_edge.push(dependee);", "            (void)dependee;")]),

 # ---- C20 MIDI learn
 dict(id="C20", name="bijection_offset_max", edits=[(MM, "        return x/((1<<14)*1.0)*(max-min)+min;", "        return x/((1<<14)*1.0)*(max-min)+max;")]),
 dict(id="C20", name="killmap_keeps_the_killed_id", edits=[(MM, "        if(get<0>(m.mapping[i]) != ID)\n            nmapping[j++] = m.mapping[i];", "        if(get<0>(m.mapping[i]) == ID || j + 1 < nmapping.size())\n            { if(j < nmapping.size()) nmapping[j++] = m.mapping[i]; }")]),
 dict(id="C20", name="learn_queue_served_lifo", edits=[(MM, "    std::string addr = std::get<0>(learnQueue.front());\n    bool coarse      = std::get<1>(learnQueue.front());\n\n    learnQueue.pop_front();", "    std::string addr = std::get<0>(learnQueue.back());\n    bool coarse      = std::get<1>(learnQueue.back());\n\n    learnQueue.pop_back();")]),
 dict(id="C20", name="fine_request_learned_as_coarse", edits=[(MM, "    nstorage->mapping = nstorage->mapping.insert(make_tuple(ID, coarse, mapped_ID));", "    nstorage->mapping = nstorage->mapping.insert(make_tuple(ID, true, mapped_ID));")]),
 dict(id="C20", name="pending_check_removed", edits=[(MM, "    if((!storage || !storage->handleCC(ID, val, backend)) && !pending.has(ID) && watchSize) {", "    if((!storage || !storage->handleCC(ID, val, backend)) && watchSize) {")]),
 dict(id="C20", name="remap_keeps_old_binding", edits=[(MM, "    unMap(addr, coarse);\n    learnQueue.push_back(std::make_pair(addr,coarse));", "    learnQueue.push_back(std::make_pair(addr,coarse));")]),
 dict(id="C20", name="unmap_sends_no_snapshot", edits=[(MM, "    MidiMapperStorage *nstorage = storage->clone();\n    killMap(kill_id, *nstorage);\n    storage = nstorage;\n\n    //TODO clean up unused value and callback objects\n\n    char buf[1024];\n    rtosc_message(buf, 1024, \"/midi-learn/midi-bind\", \"b\", sizeof(storage), &storage);\n    rt_cb(buf);\n}\n\nvoid MidiMappernRT::delMapping", "    MidiMapperStorage *nstorage = storage->clone();\n    killMap(kill_id, *nstorage);\n    storage = nstorage;\n}\n\nvoid MidiMappernRT::delMapping")]),
 dict(id="C20", name="special_case_shift_wrong", edits=[(MM, "        rtosc_message(buf, 1024, addr.c_str(), \"i\", 0x7f&(x>>7));", "        rtosc_message(buf, 1024, addr.c_str(), \"i\", 0x7f&(x>>5));")]),
 dict(id="C20", name="int_ports_driven_with_float", edits=[(MM, "    char type = 'f';\n    if(strstr(port.name, \":i\"))\n        type = 'i';\n    std::function<void(int16_t, MidiMapperStorage::write_cb cb)> tmp =", "    char type = 'f';\n    std::function<void(int16_t, MidiMapperStorage::write_cb cb)> tmp =")]),
 dict(id="C20", name="storage_matches_first_mapping_only_by_index", edits=[(MM, "        if(std::get<0>(mapping[i]) == ID)\n        {\n            bool coarse = std::get<1>(mapping[i]);\n            int  ind    = std::get<2>(mapping[i]);", "        if(std::get<0>(mapping[i]) == ID)\n        {\n            bool coarse = std::get<1>(mapping[i]);\n            int  ind    = i < values.size() ? i : std::get<2>(mapping[i]);")]),
 dict(id="C20", name="watch_not_consumed", edits=[(MM, "        watchSize--;\n        pending.insert(ID);", "        pending.insert(ID);")], expect=0),   # benign since e3b2e79 (was caught through the pending leak): surplus reports are answered with midi-unuse-CC

 dict(id="C20", name="controller_id_ignores_channel", edits=[(MM, "    int ID = (isNrpn<<18) + (((chan-1)&0x0f)<<14) + par;", "    int ID = (isNrpn<<18) + par;")]),
 dict(id="C20", name="controller_id_ignores_nrpn_flag", edits=[(MM, "    int ID = (isNrpn<<18) + (((chan-1)&0x0f)<<14) + par;", "    int ID = (((chan-1)&0x0f)<<14) + par;")]),
 dict(id="C20", name="coarse_update_drops_fine_bit", edits=[(MM, "                values[ind] = (val<<7)|(values[ind]&0x7f);\n            else\n                values[ind] = val|(values[ind]&0x3f80);\n            callbacks", "                values[ind] = (val<<7)|(values[ind]&0x3f);\n            else\n                values[ind] = val|(values[ind]&0x3f80);\n            callbacks")]),
 dict(id="C20", name="fine_update_clears_coarse_low_bit", edits=[(MM, "                values[ind] = val|(values[ind]&0x3f80);\n            callbacks", "                values[ind] = val|(values[ind]&0x3f00);\n            callbacks")]),
 dict(id="C20", name="clone_values_forgets_fine_part", edits=[(MM, "                if(coarse_dest)\n                    values[ind_dest] = (val<<7)|(values[ind_dest]&0x7f);\n                else\n                    values[ind_dest] = val|(values[ind_dest]&0x3f80);\n            }\n        }\n    }\n}", "                if(coarse_dest)\n                    values[ind_dest] = (val<<7)|(values[ind_dest]&0x7f);\n            }\n        }\n    }\n}")]),

 dict(id="C13", name="directory_lookup_without_slash", edits=[(SF, "        const Port* port = ports.apropos(is_leaf_level\n                                         ? cur_portname.c_str()\n                                         : (cur_portname + '/').c_str());", "        const Port* port = ports.apropos(cur_portname.c_str());")]),
 # ---- mirrors of what round-5 independent changes needed
 dict(id="C14", name="int_array_local_is_a_char", edits=[(PS, "            auto var = obj->name[idx]; \\\n            var = rtosc_argument(msg, 0).i; \\\n", "            char var = rtosc_argument(msg, 0).i; \\\n")]),
 dict(id="C14", name="clamp_needs_both_bounds", edits=[(PS, "    if(prop[\"min\"] && var < convert(prop[\"min\"])) \\\n", "    if(prop[\"min\"] && prop[\"max\"] && var < convert(prop[\"min\"])) \\\n")]),
 dict(id="C14", name="option_symbol_matched_by_prefix", edits=[(PC, "    if(!strcmp(m.value, value))\n    {\n        result = atoi(m.title+4);", "    if(!strncmp(m.value, value, strlen(m.value)))\n    {\n        result = atoi(m.title+4);")]),
 dict(id="C03", name="wide_variadic_message_on_the_heap", edits=[(RC, "    STACKALLOC(rtosc_arg_t, args, nargs);\n    rtosc_va_list_t ap2;\n    va_copy(ap2.a, ap);\n    rtosc_v2args(args, nargs, arguments, &ap2);", "    rtosc_arg_t args_fixed[32];\n    rtosc_arg_t *args = nargs > 32 ? (rtosc_arg_t*)malloc(nargs*sizeof(rtosc_arg_t)) : args_fixed;\n    rtosc_va_list_t ap2;\n    va_copy(ap2.a, ap);\n    rtosc_v2args(args, nargs, arguments, &ap2);\n    if(nargs > 32) { size_t r_ = rtosc_amessage(buffer,len,address,arguments,args); free(args); return r_; }")]),
 dict(id="C12", name="toggle_arrays_of_mixed_first_type_differ", edits=[("src/cpp/arg-val-cmp.c", "               && !(rtosc_av_arr_type(_lhs) == 'F' && rtosc_av_arr_type(_rhs) == 'T'))\n", "               && !(rtosc_av_arr_type(_lhs) == 'F' && rtosc_av_arr_type(_lhs) == 'T'))\n")]),
 # ---- the apropos look-up serves four properties
 dict(id="C13", name="apropos_first_prefix_wins", edits=[(PC, '    for(const Port &port: ports)\n        if(*path && rtosc_match_path(port.name, path, NULL))\n            return &port;\n', '    for(const Port &port: ports)\n        if(*path && (strstr(port.name, path)==port.name ||\n                    rtosc_match_path(port.name, path, NULL)))\n            return &port;\n')]),
 dict(id="C19", name="apropos_first_prefix_wins", edits=[(PC, '    for(const Port &port: ports)\n        if(*path && rtosc_match_path(port.name, path, NULL))\n            return &port;\n', '    for(const Port &port: ports)\n        if(*path && (strstr(port.name, path)==port.name ||\n                    rtosc_match_path(port.name, path, NULL)))\n            return &port;\n')]),
 dict(id="C20", name="apropos_first_prefix_wins", edits=[(PC, '    for(const Port &port: ports)\n        if(*path && rtosc_match_path(port.name, path, NULL))\n            return &port;\n', '    for(const Port &port: ports)\n        if(*path && (strstr(port.name, path)==port.name ||\n                    rtosc_match_path(port.name, path, NULL)))\n            return &port;\n')]),
 dict(id="C12", name="apropos_first_prefix_wins", edits=[(PC, '    for(const Port &port: ports)\n        if(*path && rtosc_match_path(port.name, path, NULL))\n            return &port;\n', '    for(const Port &port: ports)\n        if(*path && (strstr(port.name, path)==port.name ||\n                    rtosc_match_path(port.name, path, NULL)))\n            return &port;\n')]),
 dict(id="C13", name="depends_list_empty_entry_scanned", edits=[(SF, "                    if(!*enabled_by) // rDepends() ends its list with a ','\n                        break;\n", "")]),
 dict(id="C13", name="self_enabled_by_ignored", edits=[(SF, "        if(!is_leaf_level && port && port->ports)\n            self_edge(", "        if(false && port && port->ports)\n            self_edge(")]),
 dict(id="C15", name="set_message_in_a_256_byte_buffer", edits=[(UH, "    std::vector<char> res(rtosc_amessage(NULL, 0, addr, types, &arg));\n", "    std::vector<char> res(256);\n")]),
 dict(id="C15", name="old_value_sent_with_the_new_values_type", edits=[(UH, "    const char  types[2] = {rtosc_type(msg, arg_idx), 0};\n", "    const char  types[2] = {rtosc_type(msg, 2), 0};\n")]),
 dict(id="C02", name="size_summed_in_32_bits", edits=[(RC, "    size_t pos = 0; //(the sum can exceed 32 bits: blobs need no data)\n", "    unsigned pos = 0;\n")]),
 dict(id="C02", name="buffer_size_is_the_ring_size", edits=[(TL, "size_t ThreadLink::buffer_size(void) const {return MaxMsg;}", "size_t ThreadLink::buffer_size(void) const {return BufferSize;}")]),
 dict(id="C14", name="rparam_defaults_before_declared_range", edits=[(PS, 'rProp(parameter) rDefaultProps DOC(__VA_ARGS__) rMap(min, 0) rMap(max, 127), NULL, rParamCb(name)}', 'rProp(parameter) rDefaultProps rMap(min, 0) rMap(max, 127) DOC(__VA_ARGS__), NULL, rParamCb(name)}')]),
 dict(id="C14", name="index_read_with_atoi", edits=[("src/dispatch.c", "    unsigned long val = strtoul(*msg, NULL, 10);\n", "    unsigned val = atoi(*msg);\n")]),
 dict(id="C14", name="location_appended_unbounded", edits=[(PC, "                                          : strcspn(port.name, \":\")) >= loc_left)\n                    continue;", "                                          : strcspn(port.name, \":\")) >= loc_left + 100000)\n                    continue;"), (PC, "                                    : impl->fixed[port_num].length()) >= loc_left)\n                    return;", "                                    : impl->fixed[port_num].length()) >= loc_left + 100000)\n                    return;")]),
 dict(id="C19", name="char_parameter_driven_with_int", edits=[(AU, "        rtosc_message(msg, 256, path, type == 'i' ? \"i\" : \"c\", (int)v);", "        rtosc_message(msg, 256, path, \"i\", (int)v);")]),
 dict(id="C19", name="int_log_parameter_not_exponentiated", edits=[(AU, "        if(au.map.control_scale == 1)\n            v = exp(v);\n", "")]),
 dict(id="C19", name="int_clamp_in_single_precision", edits=[(AU, "        double v = value*((double)b-a) + a;\n        if(v > au.param_max)\n            v = au.param_max;", "        double v = value*((double)b-a) + a;\n        if(v > mx)\n            v = mx;")]),
 dict(id="C12", name="value_query_dispatched_from_reply_buffer", edits=[("src/cpp/ports-runtime.cpp", "    ports.dispatch(msg.data(), d, false);", "    ports.dispatch(buffer_with_port, d, false);")]),
 dict(id="C12", name="option_array_mapped_element_by_element", edits=[(PC, "            if(av[i].type == 'i' && !printable_symbol(av[i].val.i, meta))\n                return;", "            if(false)\n                return;")]),
 dict(id="C12", name="format_keywords_saved_as_bare_symbols", edits=[(PC, "        if(!strcmp(val, reserved[r]))\n            val = NULL;", "        if(false)\n            val = NULL;")]),
 dict(id="C06", name="bundle_written_without_its_zero_word", edits=[(TL, "        ring_write(ring,msg,len+tail);", "        ring_write(ring,msg,len);")]),
 dict(id="C06", name="bundle_read_without_its_zero_word", edits=[(TL, "    ring_read(ring, read_buffer, len+tail, lookahead);", "    ring_read(ring, read_buffer, len, lookahead);")]),
 dict(id="C13", name="self_enabler_scanned_from_itself", edits=[(SF, "        if(enabled_by && abs != orig_portname && abs != scanned_port)\n", "        if(enabled_by && abs != orig_portname)\n")], expect=0),   # benign since 41964a8: the set of ports already followed stops the recursion that this guard used to stop
 dict(id="C12", name="enabling_port_walked_three_characters_in", edits=[(PC, "                                               + (relative_to_parent ? 3 : 0);", "                                               + 3;")]),
 dict(id="C13", name="array_name_completed_to_longer_sibling", edits=[(PC, "           port.name[path_len] == '#')\n            return &port;", "           port.name[path_len] == '#' && false)\n            return &port;")]),
 dict(id="C12", name="hashed_guess_verified_by_prefix", edits=[(PC, "               msg[fixed[i].length()])\n                return false;", "               msg[fixed[i].length()] && false)\n                return false;")]),
 dict(id="C03", name="callbackless_port_called", edits=[(PC, "d.port = &port, (port.cb ? port.cb(m,d) : (void)0), d.obj = obj;", "d.port = &port, port.cb(m,d), d.obj = obj;")]),
 dict(id="C15", name="merged_event_in_a_buffer_of_the_new_events_size", edits=[(UH, "            const size_t N = rtosc_amessage(NULL, 0, msg, types, args);\n", "            const size_t N = rtosc_message_length(msg, -1);\n")]),
 dict(id="C14", name="bound_narrowed_before_comparison", edits=[(PS, "    if(prop[\"max\"] && var > convert(prop[\"max\"])) \\\n", "    if(prop[\"max\"] && var > (decltype(var)) convert(prop[\"max\"])) \\\n")]),
 dict(id="C13", name="root_self_enabler_ignored", edits=[(SF, "    self_edge(ports, \"/\");\n", "")]),
 dict(id="C20", name="snapshot_pops_the_oldest_pending", edits=[(MM, "            for(int i=0; i<nstorage->mapping.size(); ++i)\n                midi.pending.remove(std::get<0>(nstorage->mapping[i]));", "            midi.pending.pop();")]),
 dict(id="C20", name="clear_keeps_the_watches", edits=[(MM, "    for(size_t i=0; i<learnQueue.size(); ++i) {\n        rtosc_message(buf, 1024, \"/midi-learn/midi-remove-watch\",\"\");\n        rt_cb(buf);\n    }", "")], expect=0),   # benign since e3b2e79: a report nobody waits for is answered with midi-unuse-CC, the stale watch only costs one wasted report
 dict(id="C20", name="report_without_request_stays_pending", edits=[(MM, "        rtosc_message(buf, 64, \"/midi-learn/midi-remove-watch\", \"i\", ID);\n        rt_cb(buf);\n", "")]),
 dict(id="C20", name="port_constructor_ignores_the_id", edits=[(MM, "    return Port{\"midi-remove-watch\",\"\",0, [this](msg_t msg, RtData&) {\n        this->remWatch(msg);", "    return Port{\"midi-remove-watch\",\"\",0, [this](msg_t msg, RtData&) {\n        (void)msg; this->remWatch();")]),
 dict(id="C20", name="late_report_binds_again", edits=[(MM, "            if(std::get<0>(storage->mapping[i]) == ID) {", "            if(false && std::get<0>(storage->mapping[i]) == ID) {")], expect=0),
 dict(id="C12", name="char_zero_printed_raw", edits=[("src/cpp/pretty-format.c", "            else if(chr && c == '\\0')\n                return '0'; // (a raw NUL would end the text)\n", "")]),
 dict(id="C12", name="char_zero_escape_not_accepted", edits=[("src/cpp/pretty-format.c", "                    esc = (src[1] == '0') ? 1 : get_escaped_char(src[1], 1);", "                    esc = get_escaped_char(src[1], 1);")]),
 dict(id="C13", name="scan_follows_absent_ports_without_memory", edits=[(SF, "    if(!scanned.insert(cur_portname).second)\n        return;\n", "    (void)scanned;\n")]),
 dict(id="C13", name="scan_memory_shared_between_lines", edits=[(SF, "        std::set<std::string> scanned; // per line: the edges belong to it\n", "        static std::set<std::string> scanned;\n")]),
 dict(id="C14", name="location_fit_counts_the_argument_spec", edits=[(PC, "                                          : strcspn(port.name, \":\")) >= loc_left)", "                                          : strlen(port.name)) >= loc_left)")]),
]
