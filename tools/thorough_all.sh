#!/bin/bash
# every thorough check once (VERIF_SEED from the environment), summary lines only
for id in C02 C03 C06 C07 C12 C13 C14 C15 C19 C20; do
  out=$(VERIF_EVIDENCE_DIR=build/thorough-evidence bin/check $id thorough 2>&1); rc=$?
  echo "$id rc=$rc $(echo "$out" | grep -c '^VIOLATION') violations $(echo "$out" | grep -c '^KNOWN-FINDING') known $(echo "$out" | tail -1)"
  if [ $rc -ne 0 ]; then echo "$out" | grep -A3 '^VIOLATION\|INFRA'; fi
done
