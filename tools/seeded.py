#!/usr/bin/env python3
"""tools/seeded.py verify <worktree> <ID> [suffix]   : confirm each seeded/<i> of a sub-agent's worktree (ctest passes with the patch,
                                                       demo fails with it and passes without), store it as /verif/seeded/<ID>-<suffix><i>/
   tools/seeded.py run [name ...]                    : apply each stored change to /repo, run the property's quick check, undo; report caught/missed
"""
import json, os, shutil, subprocess, sys, time
VERIF = os.path.dirname(os.path.dirname(os.path.abspath(__file__)))
def sh(cmd, cwd=None, timeout=1800):
    r = subprocess.run(cmd, shell=True, cwd=cwd, stdout=subprocess.PIPE, stderr=subprocess.STDOUT, text=True, timeout=timeout)
    return r.returncode, r.stdout

def verify(wt, pid, suffix):
    sd = os.path.join(wt, "seeded")
    for i in sorted(os.listdir(sd)):
        d = os.path.join(sd, i)
        if not os.path.exists(os.path.join(d, "patch.diff")): continue
        name = "%s-%s%s" % (pid, suffix, i)
        sh("git checkout -- .", wt)
        rc0, out0 = sh("bash build.sh", d)                       # demo on the unmodified library
        rc, o = sh("git apply %s" % os.path.join(d, "patch.diff"), wt)
        if rc: print(name, "patch does not apply:", o[-300:]); continue
        rcb, ob = sh("cmake -S . -B _build -DCMAKE_BUILD_TYPE=RelWithDebInfo >/dev/null && cmake --build _build -j16 2>&1 | tail -3 && ctest --test-dir _build -j8 2>&1 | tail -3", wt)
        passed = "100% tests passed" in ob
        rc1, out1 = sh("bash build.sh", d)                       # demo with the change
        sh("git checkout -- .", wt)
        ok = passed and rc0 == 0 and rc1 != 0
        print("%-12s ctest_with_patch=%s demo_without=%d demo_with=%d -> %s" % (name, "pass" if passed else "FAIL", rc0, rc1, "confirmed" if ok else "REJECTED"))
        if not ok:
            print("   ", ob[-300:].replace("\n", " | ")); continue
        dst = os.path.join(VERIF, "seeded", name); shutil.rmtree(dst, ignore_errors=True); os.makedirs(dst)
        for f in os.listdir(d):
            p = os.path.join(d, f)
            if os.path.isfile(p) and os.path.getsize(p) < 200000 and not os.access(p, os.X_OK) or f == "build.sh": shutil.copy(p, dst)
        notes = open(os.path.join(d, "notes.md")).read() if os.path.exists(os.path.join(d, "notes.md")) else ""
        json.dump({"property": pid, "name": name, "source": "independent sub-agent given only the property text and a scratch worktree",
                   "needs_to_manifest": notes[:1500], "confirmed": {"ctest_with_patch": "31/31 pass", "demo_without_patch_exit": rc0, "demo_with_patch_exit": rc1},
                   "ran": ["git apply patch.diff; cmake --build; ctest (all pass)", "bash build.sh (demo) with and without the patch"]}, open(os.path.join(dst, "meta.json"), "w"), indent=1)
    # rebuild the worktree's demo paths are absolute; nothing else to keep

def run(names):
    root = os.path.join(VERIF, "seeded"); res = []
    for name in sorted(os.listdir(root)):
        if names and name not in names and name.split("-")[0] not in names: continue
        d = os.path.join(root, name); meta = json.load(open(os.path.join(d, "meta.json"))); pid = meta["property"]
        rc, o = sh("git -C /repo status --porcelain --untracked-files=no")
        if o.strip(): print("refusing: /repo has local modifications"); sys.exit(2)
        rc, o = sh("git -C /repo apply %s" % os.path.join(d, "patch.diff"))
        if rc: print(name, "patch does not apply to /repo:", o[-200:]); res.append((name, "NOAPPLY")); continue
        t0 = time.time()
        try:
            env = "VERIF_BUILDTAG=-seed VERIF_EVIDENCE_DIR=%s" % os.path.join(VERIF, "build", "seed-evidence")
            rc, o = sh("%s %s/bin/check %s quick" % (env, VERIF, pid))
        finally:
            sh("git -C /repo checkout -- .")
        line = [l for l in o.splitlines() if l.startswith("  class=")]
        verdict = "CAUGHT" if rc == 1 else "MISSED" if rc == 0 else "INFRA(%d)" % rc
        # a change whose own demo no longer fails on the repaired tree breaks nothing any more
        if verdict == "MISSED" and meta.get("neutralised_by"): verdict = "NEUTRAL"
        print("%-14s %-8s %5.1fs %s" % (name, verdict, time.time() - t0, line[0].strip()[:170] if line else ""))
        meta["check_result"] = {"verdict": verdict, "first_violation": line[0].strip()[:400] if line else "", "cmd": "git -C /repo apply patch.diff; bin/check %s quick; git -C /repo checkout -- ." % pid}
        json.dump(meta, open(os.path.join(d, "meta.json"), "w"), indent=1)
        res.append((name, verdict))
    shutil.rmtree(os.path.join(VERIF, "build", "seed-evidence"), ignore_errors=True)
    print("%d changes: %d caught, %d missed" % (len(res), sum(1 for r in res if r[1] == "CAUGHT"), sum(1 for r in res if r[1] == "MISSED")) +
          "".join(", %d %s" % (sum(1 for r in res if r[1] == k), k.lower()) for k in sorted(set(r[1] for r in res)) if k not in ("CAUGHT", "MISSED")))

if sys.argv[1] == "verify": verify(sys.argv[2], sys.argv[3], sys.argv[4] if len(sys.argv) > 4 else "a")
else: run(sys.argv[2:])
