#!/usr/bin/env python3
"""Regenerates MANIFEST.json from the table below (kept in one place so the manifest stays valid)."""
import json, os
VERIF = os.path.dirname(os.path.dirname(os.path.abspath(__file__)))
CLAIMED = {
 "C06": dict(cat="exploration", ref="4.1", technique="deterministic simulation: seeded schedule search over every atomic access and copy chunk of the real ThreadLink, linearizability against a sequential FIFO model + happens-before race check",
   text="Seeded exploration of writer/reader interleavings of the real thread-link.cpp at the granularity of each atomic load/store and each chunk of each payload copy, on small rings; every history is checked for linearizability against a 25-line byte-capacity FIFO model, for data-race freedom (vector clocks, DRF-SC) and under AddressSanitizer. Sampling, not proof.",
   note="Trusted: the macro seam (std::atomic/memcpy replaced in thread-link.cpp only), the fiber scheduler, the FIFO model. Only SC interleavings are executed; weak-memory behaviour is covered through the race check."),
 "C15": dict(cat="exploration", ref="4.2", technique="deterministic simulation: real UndoHistory under an interposed, plan-driven clock; seeded histories of record/seek/clock ops checked op by op against a reference model",
   text="Seeded histories (0..60 ops) of record/seek/clock-advance against the real undo-history.cpp with time() interposed by the simulated clock, so the 2-second merge window is crossed at every sub-second alignment and the 20-event cap in every cursor position; after each op position, size, every retained entry and every emitted message are compared with a reference model written from the property text. Sampling, not proof.",
   note="Trusted: the time() interposition, the reference model (models/undo_model.h). Between 2 s and 3 s of true elapsed time either merge outcome is accepted because the library's clock has one-second granularity. Backwards clock steps: only memory safety and pos<=size<=20."),
 "C19": dict(cat="exploration", ref="4.4", technique="deterministic simulation: three scripted event sources (UI, host, MIDI incl. split NRPN sequences) interleaved by the seeded plan against the real AutomationMgr; model-checked op by op",
   text="Seeded interleavings (1..40 ops) of UI, plugin-host and MIDI-device events against the real automations.cpp bound to a real macro-generated port tree; the manager lives in simulator-prefilled memory. After every op the learn position of every slot, the queue length and the controller bindings are compared with a FIFO model; every backend message is checked for address, type, range, exact linear mapping at default gain/offset (1e-5 relative for log scale), monotonicity on paired probes, and is dispatched into the real port. Sampling, not proof.",
   note="Trusted: the model of the learn queue and NRPN assembly, hand-copied declared ranges. Where the statement is silent (learn request on a bound or waiting slot) the model accepts 'ignored' or 'appended'. Bindable parameters: int, float (linear/log), toggle, bounded option."),
 "C14": dict(cat="exploration", ref="4.7", technique="deterministic simulation used as history generator: user, real UndoHistory (delayed event FIFO, simulated clock) and real AutomationMgr all deliver parameter messages to one real macro-generated port tree; refinement check against a model after every dispatch",
   text="Every macro-generated port kind (char/int/float parameters with negative, fractional and absent bounds, options with and without bounds and enum storage, toggles, strings, all array forms, enumerated/pointer/plain sub-trees) receives seeded histories of sets and queries from the user, undo/redo messages from the real undo history and automation output; after each single dispatch every field of the object, every reply/broadcast and every undo event is compared with a model written from the property text. No schedule dependence of its own: the simulator contributes multi-party histories, minimisation and replay. Sampling, not proof.",
   note="Trusted: the hand-written leaf table (declared ranges repeated by hand) and model in apps/appnode.h. Unknown option symbols, NaN and -0.0 are not generated; char-backed kinds are driven with -128..127 only (as the property states). Absence of a broadcast when nothing changed is not required."),
 "C02": dict(cat="fault_enumeration", ref="4.9", technique="fault injection by exhaustive enumeration of the capacity fault (c = 0..needed+8) per generated message/bundle on guarded destinations under ASan; pipeline stages ThreadLink(MaxMsg=c) and RtData::reply at the 8192-byte boundary",
   text="For every generated message (15 value tags, brackets, payload lengths in every residue mod 4, NULL blobs; varargs, array and arg-value constructors) and bundle (0..8 elements, nested to depth 4) the destination capacity is enumerated exhaustively from 0 to needed+8 on a guarded exact-size buffer: no byte outside is written, short capacities return 0 with the buffer zero-filled, sufficient ones return the exact size and the same bytes as a generous buffer, NULL-buffer queries return that size. This property has a fault and no schedule; it is claimed as fault enumeration and nothing more.",
   note="Trusted: guard bytes + AddressSanitizer red zones; the generator of objects is sampled (seeded), the capacities per object are exhaustive. Whether the encoding itself is right is C01 (not claimed). Varargs constructor through 24 fixed signatures."),
 "C07": dict(cat="fault_enumeration", ref="4.10", technique="fault injection on simulated wire traffic: exhaustive enumeration of every single fault (truncation, bit flip, boundary length words, NUL damage, byte loss/duplication, splice, garbage) per valid base message, seeded multi-fault sequences; ASan exact-size blocks + independent strict decoder",
   text="A sender emits valid generated messages (<= 512 bytes); for each one every single wire fault is enumerated exhaustively and seeded sequences of 2..4 faults are added; each damaged buffer is handed to the receiver in an exact-size heap block under AddressSanitizer: length/validity functions must stay inside, terminate and report 0 or <= n, and whenever the validator accepts, every accessor and the iterator must stay inside and agree with an independent strict-bounds decoder written in the harness. No schedule involved; claimed as fault enumeration. No coverage-guided fuzzing and no blind enumeration of all short buffers (other techniques).",
   note="Trusted: AddressSanitizer, the reference decoder (lenient about padding content; unknown tags carry no data). Base messages are sampled (seeded); single faults per base message are exhaustive."),
 "C03": dict(cat="exploration", ref="4.8", technique="deterministic simulation with an allocator/mutex seam: interposed malloc family and pthread_mutex_lock observed inside the simulated realtime party's section while seeded UI/RT histories drive every dispatch strategy and message kind",
   text="A UI party and a realtime party exchange messages through two real ThreadLinks; the realtime party dispatches into a perfect-hash table, a linear-fallback table, #N tables, a three-level recursion, a cloned table with default handler and every macro-generated parameter kind (with and without location buffer), forwards replies/broadcasts, and performs direct calls (build, measure, validate, accessors, iterator, match, bundles). Any malloc/calloc/realloc/free/memalign/operator new/delete or pthread_mutex_(try)lock inside the realtime section is a violation, reported with the call stack. Allocation does not depend on the interleaving here; the simulator contributes the section boundary, ring states and histories.",
   note="Trusted: symbol interposition of the allocator family and pthread_mutex_lock in a plain (non-ASan) build. Only code paths the workload reaches are observed; absence of an allocation on an unreached error path is not shown. Macro-generated callbacks are only dispatched with a location buffer (documented precondition)."),
}
PENDING = {}
NA = {
 "C01": "pure function of (address, types, values): no schedule, clock, fault or second party for a simulator to control",
 "C04": "pure function of (port table, message); the lookup strategy is fixed at construction and nothing varies at run time",
 "C05": "pure function of (pattern, message)",
 "C08": "pure function of the element list (its capacity-fault aspect is decided under C02)",
 "C09": "pure function of (tree, runtime state); single-threaded traversal without I/O",
 "C10": "pure function of (values, print options); TZ is fixed by the property itself",
 "C11": "pure function of the text; the only clock-dependent token 'now' decides nothing about the property",
 "C16": "pure algebraic laws over pairs/triples of values",
 "C17": "pure function of a metadata byte block",
 "C18": "pure functions of (path) / (tree, query)",
}
def main():
    import importlib.machinery, importlib.util
    pend = json.load(open(os.path.join(VERIF, "tools", "pending.json")))
    checks = []
    for pid in sorted(CLAIMED):
        c = CLAIMED[pid]
        checks.append(dict(property_id=pid, quick_cmd="bin/check %s quick" % pid, thorough_cmd="bin/check %s thorough" % pid,
            evidence_file="/verif/evidence/%s.json" % pid, replay_cmd_template="bin/check %s --replay {path}" % pid, engine="simkit",
            level_claimed=dict(category=c["cat"], text=c["text"], design_ref="DESIGN.md section " + c["ref"]), level_note=c["note"], technique=c["technique"]))
    na = [dict(property_id=k, reason=v) for k, v in sorted(NA.items())]
    na += [dict(property_id=k, reason=v) for k, v in sorted(pend.items()) if k not in CLAIMED]
    m = dict(version=1, setup_cmd="make -C /verif setup",
        hooks=dict(guard="RTOSC_VERIF", enable="none needed: worlds compile /repo sources directly; thread-link.cpp through -include seams/tl_seam.h; time(), malloc family and pthread_mutex_lock are interposed by the executable",
                   baseline_off_cmd="cmake --build /repo/_build && ctest --test-dir /repo/_build -j8 --timeout 900", source_commits=[], add_only=True),
        engines=[dict(name="simkit", path="/verif/simkit", serves_properties=sorted(CLAIMED), kind_free_text="deterministic simulation kernel: seeded PRNG streams, ucontext fibers + strategies (uniform, sticky, PCT, at-publish), happens-before tracker, plan/choice replay files, ddmin minimiser, fork-isolated execution, two reproduction gates")],
        checks=checks, not_applicable=sorted(na, key=lambda x: x["property_id"]),
        notes="Technique: deterministic simulation with fault injection. See DESIGN.md. Fixes to /repo are 'fix:' commits listed in known-findings.json.")
    json.dump(m, open(os.path.join(VERIF, "MANIFEST.json"), "w"), indent=1)
main()
