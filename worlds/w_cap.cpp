// w_cap — C02: fixed-buffer discipline.  The fault is "destination capacity exhausted at byte c", enumerated
// exhaustively (c = 0 .. needed+8) for every generated message / bundle, plus the pipeline stages that build into
// fixed buffers (ThreadLink write_buffer[MaxMsg], RtData::reply/broadcast 8192-byte stack buffers).
// Real: src/rtosc.c, src/cpp/arg-val.c, src/cpp/thread-link.cpp, src/cpp/ports.cpp.  Stub: the producer.
// There is no schedule here; the level claimed is fault enumeration and nothing more.
#include "../simkit/sim.h"
#include "../models/msggen.h"
#include <rtosc/thread-link.h>
#include <rtosc/ports.h>
#include <rtosc/arg-ext.h>
#include <cstdarg>
#include <climits>

using namespace sim; using namespace msggen;

enum { ST_RUNS, ST_EVALS, ST_MSG, ST_BUNDLE, F_CAP_SHORT, F_CAP_EXACT, F_CAP_ZERO, F_CAP_GENEROUS, F_LINK_MAXMSG, F_REPLY_8192,
       P_VARARGS, P_ARRAY, P_ARGVAL, P_NULLBUF, P_NESTED, P_EMPTY_BUNDLE, P_NULL_BLOB, P_LINK_DROPPED, P_LINK_PASSED, P_REPLY_TOO_BIG, P_REPLY_FITS, P_BIG, P_CTOR_DISAGREE, P_AV_RANGE, P_GIANT, P_BUNDLE_GT8, ST_N };
static const char *STAT_NAMES[ST_N] = { "runs", "evaluations", "objects.messages", "objects.bundles", "fault.capacity_short", "fault.capacity_exact", "fault.capacity_zero", "fault.capacity_generous", "fault.link_maxmsg_around_size", "fault.reply_buffer_8192_boundary",
       "probe.varargs_constructor", "probe.array_constructor", "probe.argval_constructor", "probe.null_buffer_size_query", "probe.nested_bundle", "probe.empty_bundle", "probe.null_blob", "probe.link_dropped_oversize", "probe.link_passed_exact_fit",
       "probe.reply_larger_than_buffer", "probe.reply_fits_buffer", "probe.object_over_256_bytes", "constructors_disagree_on_size", "probe.argval_list_with_range", "probe.message_whose_size_exceeds_32_bits", "probe.bundle_with_more_than_8_elements" };

static const char *VT[] = {"", "i", "s", "b", "f", "is", "si", "sb", "ifs", "hd", "tS", "c", "r", "m", "TFNI", "i[ii]", "sbi", "bs", "dh", "ssss", "[sT]", "ib", "NIf", "mm"};
static const int NVT = sizeof VT / sizeof VT[0];

#define A(k) p.args[k]
template <class F> static size_t call_va(F f, const std::string &t, const ArgPack &p, bool *ok) {
    *ok = true;
    if (t == "") return f("");
    if (t == "i" || t == "c" || t == "r") return f(t.c_str(), A(0).i);
    if (t == "s") return f("s", A(0).s);
    if (t == "b") return f("b", A(0).b.len, A(0).b.data);
    if (t == "f") return f("f", (double)A(0).f);
    if (t == "is") return f("is", A(0).i, A(1).s);
    if (t == "si") return f("si", A(0).s, A(1).i);
    if (t == "sb") return f("sb", A(0).s, A(1).b.len, A(1).b.data);
    if (t == "ifs") return f("ifs", A(0).i, (double)A(1).f, A(2).s);
    if (t == "hd") return f("hd", A(0).h, A(1).d);
    if (t == "tS") return f("tS", A(0).t, A(1).s);
    if (t == "m") return f("m", A(0).m);
    if (t == "TFNI") return f("TFNI");
    if (t == "i[ii]") return f("i[ii]", A(0).i, A(1).i, A(2).i);
    if (t == "sbi") return f("sbi", A(0).s, A(1).b.len, A(1).b.data, A(2).i);
    if (t == "bs") return f("bs", A(0).b.len, A(0).b.data, A(1).s);
    if (t == "dh") return f("dh", A(0).d, A(1).h);
    if (t == "ssss") return f("ssss", A(0).s, A(1).s, A(2).s, A(3).s);
    if (t == "[sT]") return f("[sT]", A(0).s);
    if (t == "ib") return f("ib", A(0).i, A(1).b.len, A(1).b.data);
    if (t == "NIf") return f("NIf", (double)A(0).f);
    if (t == "mm") return f("mm", A(0).m, A(1).m);
    *ok = false; return 0;
}
#undef A

struct Guarded {
    std::vector<unsigned char> mem; char *p; size_t c;
    explicit Guarded(size_t cap) : mem(cap + 128, 0xA5), p((char *)mem.data() + 64), c(cap) {}
    long damaged() const { for (size_t i = 0; i < 64; i++) { if (mem[i] != 0xA5) return (long)i - 64; if (mem[64 + c + i] != 0xA5) return (long)(c + i); } return LONG_MIN; }
};
struct Capture : rtosc::RtData { std::vector<char> got; bool called = false; int calls = 0;
    using rtosc::RtData::reply; using rtosc::RtData::broadcast;
    void reply(const char *m) override { called = true; calls++; size_t n = rtosc_message_length(m, 8192); got.assign(m, m + n); } };

struct CapWorld : World {
    const char *name() const override { return "w_cap"; }
    std::vector<std::string> properties() const override { return {"C02"}; }
    std::vector<std::string> stat_names() const override { return std::vector<std::string>(STAT_NAMES, STAT_NAMES + ST_N); }
    std::vector<std::string> knob_names() const override { return {"stage_link", "stage_reply"}; }
    std::string components() const override { return "{\"real\": [\"src/rtosc.c (rtosc_message/vmessage/amessage, rtosc_bundle)\", \"src/cpp/arg-val.c (rtosc_avmessage)\", \"src/cpp/thread-link.cpp (write, writeArray into write_buffer[MaxMsg])\", \"src/cpp/ports.cpp (RtData::reply/broadcast 8192-byte buffers)\"], \"stub\": [\"producer of messages and bundles\", \"consumer reading the link\"]}"; }
    std::string rule() const override { return "one run = one generated message (all 15 value tags plus brackets, string/blob lengths in every residue mod 4, NULL blobs, one of three constructors) or bundle (0..8 elements, nested up to 4); the capacity fault is enumerated exhaustively for it: c = 0..needed+8 on a guarded exact-size destination, plus NULL-buffer size queries, "
        "ThreadLink(MaxMsg=c) for c around the size and RtData::reply/broadcast at 8192+-16 bytes. evaluations = number of (object, capacity) calls. Non-trivial = object with a string/blob argument or a bundle; distinct = distinct hash of (address length, type string, payload lengths, bundle shape)."; }
    std::string describe(const Op &op) const override { return msggen::describe(op); }
    std::vector<Op> simpler(const Op &op) const override { return msggen::simpler(op); }
    void gen(const std::string &, Rng &kr, Rng &pr, Knobs &k, Plan &p) override {
        k.assign(4, 0); k[0] = kr.chance(0.3); k[1] = kr.chance(0.05); k[2] = kr.chance(0.04); k[3] = (int64_t)kr.below(1 << 20);
        if (pr.chance(0.3)) gen_bundle(pr, p, 0, 120);
        else if (pr.chance(0.45)) {    // a message shaped for one of the varargs templates
            const char *t = VT[pr.below(NVT)]; Op a; a.kind = G_ADDR; a.a[0] = 1 + (int64_t)pr.below(20); a.a[1] = (int64_t)pr.below(100000); p.push_back(a);
            Op c; c.kind = G_CTOR; c.a[0] = 0; p.push_back(c);
            for (const char *q = t; *q; q++) { Op o; o.kind = G_ARG; o.a[0] = *q; o.a[1] = strchr("sSb", *q) ? (int64_t)pr.below(pr.chance(0.8) ? 14 : 200) : (int64_t)(int32_t)pr.next(); o.a[2] = (int64_t)pr.below(1 << 30); p.push_back(o); }
        } else gen_message(pr, p, pr.chance(0.8) ? 6 : 40, pr.chance(0.9) ? 80 : 500);
    }

    Result exec(const std::string &, const Knobs &k, const Plan &plan, Choices &) override {
        Result res; stat_add(ST_RUNS); char b[400];
        auto fail = [&](const char *cls, const std::string &d) { if (res.cls.empty()) { res.cls = cls; res.detail = d; } };
        // a message that cannot fit anywhere: blobs without data (a supported form) whose lengths add up to 2 GiB .. 8 GiB. The size query must say so
        // (64-bit size_t), and every real capacity must be refused with the buffer zeroed and nothing else touched.
        if (k.size() > 3 && k[2]) {
            static const char *GT[] = {"b", "bb", "bbb", "sbb", "bib", "bbs"}; static const int32_t GL[] = {0x7ffffffc, 0x7ffffff0, 0x40000000, 0x7fffffff, 0x3ffffffc, 0x7ffffffd, (int32_t)0xfffffffd, (int32_t)0xfffffffe, (int32_t)0xffffffff, (int32_t)0x80000000, (int32_t)0xfffffffc};   // the last five are the length words 2^32-3 .. as the wire carries them
            uint64_t sd = (uint64_t)k[3]; const char *t = GT[sd % 6]; sd /= 6; rtosc_arg_t a[4]; size_t na = 0; uint64_t want = 4 /* "/g\0\0" */ + ((strlen(t) + 1) / 4 + 1) * 4;
            for (const char *q = t; *q; q++) { if (*q == 'b') { int32_t L = GL[sd % 11]; sd /= 11; a[na].b.len = L; a[na].b.data = nullptr; want += 4 + (((uint64_t)(uint32_t)L + 3) & ~3ull); } else if (*q == 's') { a[na].s = "abc"; want += 4; } else { a[na].i = 7; want += 4; } na++; }
            stat_add(P_GIANT); stat_add(P_NULL_BLOB); res.nontrivial = true; res.shape_hash = mix64(991, (uint64_t)k[3]);
            size_t n0 = rtosc_amessage(nullptr, 0, "/g", t, a); stat_add(ST_EVALS);
            if ((uint64_t)n0 != want) { snprintf(b, sizeof b, "NULL buffer: reported %zu bytes for types \"%s\" with data-less blobs, the encoding needs %llu", n0, t, (unsigned long long)want); fail("NULL-SIZE", b); }
            for (size_t c = 0; c <= 72 && res.cls.empty(); c += (c < 24 ? 1 : 4)) {
                Guarded g(c); size_t r = rtosc_amessage(g.p, c, "/g", t, a); stat_add(ST_EVALS); stat_add(c ? F_CAP_SHORT : F_CAP_ZERO); long d = g.damaged();
                if (d != LONG_MIN) { snprintf(b, sizeof b, "capacity %zu (needed %llu, types \"%s\", data-less blobs): byte at offset %ld of the destination was written", c, (unsigned long long)want, t, d); fail("OVERRUN", b); break; }
                if (r != 0) { snprintf(b, sizeof b, "capacity %zu < needed %llu (types \"%s\", data-less blobs): returned %zu instead of 0", c, (unsigned long long)want, t, r); fail("SHORT-RETURN", b); break; }
                for (size_t i = 0; i < c; i++) if (g.p[i]) { snprintf(b, sizeof b, "capacity %zu < needed %llu: buffer not zero-filled after the failed call", c, (unsigned long long)want); fail("PARTIAL", b); break; }
            }
            res.trace_hash = mix64(n0, 5); return res;
        }
        std::vector<GElem> top = build(plan);
        if (top.empty()) { res.trace_hash = 1; return res; }
        const GElem &e = top[0];
        std::vector<char> ref = encode(e); size_t needed = ref.size();
        uint64_t shape = e.is_bundle ? 77 : 11; std::function<void(const GElem &)> sh = [&](const GElem &x) { shape = mix64(shape, x.is_bundle ? 1000 + x.kids.size() : x.msg.addr.size()); if (x.is_bundle) { for (auto &kk : x.kids) sh(kk); if (&x != &e) stat_add(P_NESTED); } else for (auto &a : x.msg.args) { shape = mix64(shape, a.tag * 4099 + a.s.size() + a.blob.size()); if (a.null_blob) stat_add(P_NULL_BLOB); } }; sh(e);
        res.shape_hash = shape; if (needed > 256) stat_add(P_BIG);
        if (needed > 20000) { res.trace_hash = 2; return res; }

        if (!e.is_bundle) {
            stat_add(ST_MSG); const GMsg &m = e.msg; ArgPack p = pack(m); bool has_payload = false; for (auto &a : m.args) if (strchr("sSb", a.tag)) has_payload = true; res.nontrivial = has_payload;
            int ctor = m.ctor; bool va_ok = false;
            if (ctor == 0) { call_va([&](const char *, auto...) { return (size_t)0; }, p.types, p, &va_ok); if (!va_ok) ctor = 1; }
            bool brackets = p.types.find('[') != std::string::npos || p.types.find(']') != std::string::npos;
            if (ctor == 2 && brackets) ctor = 1;    // arg-val lists spell arrays differently; out of scope here
            std::vector<rtosc_arg_val_t> av; if (ctor == 2) { size_t vi = 0; for (auto &a : m.args) { rtosc_arg_val_t x; memset(&x, 0, sizeof x); x.type = a.tag; if (carries_value(a.tag)) x.val = p.args[vi];
                    if (a.rep > 1) { rtosc_arg_val_t r; memset(&r, 0, sizeof r); r.type = '-'; rtosc_av_rep_num_set(&r, a.rep); rtosc_av_rep_has_delta_set(&r, 0); av.push_back(r); stat_add(P_AV_RANGE); }   // "rep x value" as one range of the arg-val list
                    av.push_back(x); if (carries_value(a.tag)) vi += a.rep; } }
            stat_add(ctor == 0 ? P_VARARGS : ctor == 1 ? P_ARRAY : P_ARGVAL);
            auto construct = [&](char *buf, size_t cap) -> size_t {
                if (ctor == 0) { bool ok; return call_va([&](const char *t, auto... args) { return rtosc_message(buf, cap, m.addr.c_str(), t, args...); }, p.types, p, &ok); }
                if (ctor == 1) return rtosc_amessage(buf, cap, m.addr.c_str(), p.types.c_str(), p.args.data());
                return rtosc_avmessage(buf, cap, m.addr.c_str(), av.size(), av.data());
            };
            // the reference is what THIS constructor writes into a generous buffer (whether that encoding is right is C01's business)
            { std::vector<char> big(needed + 4096); size_t n = construct(big.data(), big.size()); big.resize(n); if (n != needed) stat_add(P_CTOR_DISAGREE); ref = big; needed = n; }
            // NULL buffer: returns the size it needs, which is exactly what a large enough buffer receives
            { size_t n0 = construct(nullptr, 0), n1 = construct(nullptr, 100000); stat_add(P_NULLBUF); stat_add(ST_EVALS, 2);
              if (n0 != needed || n1 != needed) { snprintf(b, sizeof b, "NULL buffer: reported %zu / %zu bytes, a large buffer receives %zu (types \"%s\")", n0, n1, needed, p.types.c_str()); fail("NULL-SIZE", b); } }
            for (size_t c = 0; c <= needed + 8 && res.cls.empty(); c++) {
                Guarded g(c); size_t r = construct(g.p, c); stat_add(ST_EVALS);
                stat_add(c == 0 ? F_CAP_ZERO : c < needed ? F_CAP_SHORT : c == needed ? F_CAP_EXACT : F_CAP_GENEROUS);
                long d = g.damaged();
                if (d != LONG_MIN) { snprintf(b, sizeof b, "capacity %zu (needed %zu, types \"%s\"): byte at offset %ld of the destination was written", c, needed, p.types.c_str(), d); fail("OVERRUN", b); break; }
                if (c < needed) {
                    if (r != 0) { snprintf(b, sizeof b, "capacity %zu < needed %zu (types \"%s\"): returned %zu instead of 0", c, needed, p.types.c_str(), r); fail("SHORT-RETURN", b); break; }
                    for (size_t i = 0; i < c; i++) if (g.p[i]) { snprintf(b, sizeof b, "capacity %zu < needed %zu (types \"%s\"): buffer not zero-filled after the failed call (byte %zu = 0x%02x)", c, needed, p.types.c_str(), i, (unsigned char)g.p[i]); fail("PARTIAL", b); break; }
                } else {
                    if (r != needed) { snprintf(b, sizeof b, "capacity %zu >= needed %zu (types \"%s\"): returned %zu", c, needed, p.types.c_str(), r); fail("FIT-RETURN", b); break; }
                    if (memcmp(g.p, ref.data(), needed)) { snprintf(b, sizeof b, "capacity %zu >= needed %zu (types \"%s\"): bytes differ from the encoding a generous buffer receives", c, needed, p.types.c_str()); fail("FIT-BYTES", b); break; }
                }
                trace(mix64(c, r));
            }
            // pipeline stage 1: ThreadLink builds into write_buffer[MaxMsg]
            if (res.cls.empty() && !k.empty() && k[0] && needed >= 8 && ctor != 2) {
                for (size_t mm = needed > 16 ? needed - 8 : 8; mm <= needed + 8 && res.cls.empty(); mm++) {
                    stat_add(F_LINK_MAXMSG); stat_add(ST_EVALS);
                    rtosc::ThreadLink tl(mm, 3);
                    if (ctor == 0) { bool ok; call_va([&](const char *t, auto... args) { tl.write(m.addr.c_str(), t, args...); return (size_t)0; }, p.types, p, &ok); }
                    else tl.writeArray(m.addr.c_str(), p.types.c_str(), p.args.data());
                    bool has = tl.hasNext();
                    if (mm < needed) { stat_add(P_LINK_DROPPED); if (has) { snprintf(b, sizeof b, "ThreadLink(MaxMsg=%zu): a %zu-byte message was queued", mm, needed); fail("LINK-OVERSIZE", b); } }
                    else { if (mm == needed) stat_add(P_LINK_PASSED);
                        if (!has) { snprintf(b, sizeof b, "ThreadLink(MaxMsg=%zu): a %zu-byte message was not queued", mm, needed); fail("LINK-LOST", b); }
                        else { const char *rd = tl.read(); if (memcmp(rd, ref.data(), needed)) { snprintf(b, sizeof b, "ThreadLink(MaxMsg=%zu): message differs after the trip", mm); fail("LINK-BYTES", b); } } }
                    // the documented raw route: build into buffer() with the capacity buffer_size() reports, then raw_write (as example/complex/synth.cpp does)
                    // (the reference bytes are what the array constructor itself writes into a generous buffer: the variadic one passes floats through double, which quiets a signalling NaN)
                    if (res.cls.empty()) { rtosc::ThreadLink t2(mm, 3); size_t cap = t2.buffer_size(), got = rtosc_amessage(t2.buffer(), cap, m.addr.c_str(), p.types.c_str(), p.args.data()); stat_add(ST_EVALS);
                        std::vector<char> ref2(needed + 4096); size_t need2 = rtosc_amessage(ref2.data(), ref2.size(), m.addr.c_str(), p.types.c_str(), p.args.data());
                        if (got) t2.raw_write(t2.buffer());
                        bool h2 = t2.hasNext();
                        if (mm < need2 && h2) { snprintf(b, sizeof b, "ThreadLink(MaxMsg=%zu) raw route: a %zu-byte message was queued", mm, need2); fail("LINK-OVERSIZE", b); }
                        if (mm >= need2 && (!h2 || memcmp(t2.read(), ref2.data(), need2))) { snprintf(b, sizeof b, "ThreadLink(MaxMsg=%zu) raw route: a %zu-byte message was lost or changed", mm, need2); fail("LINK-LOST", b); } }
                }
            }
        } else {
            stat_add(ST_BUNDLE); res.nontrivial = true; if (e.kids.empty()) stat_add(P_EMPTY_BUNDLE);
            std::vector<std::vector<char>> kids; for (auto &kk : e.kids) kids.push_back(encode(kk));
            const char *p[16] = {0}; int n = (int)std::min<size_t>(kids.size(), 16); for (int i = 0; i < n; i++) p[i] = kids[i].data(); if (n > 8) stat_add(P_BUNDLE_GT8);
            for (size_t c = 0; c <= needed + 8 && res.cls.empty(); c++) {
                Guarded g(c); size_t r = rtosc_bundle(g.p, c, e.tt, n, p[0], p[1], p[2], p[3], p[4], p[5], p[6], p[7], p[8], p[9], p[10], p[11], p[12], p[13], p[14], p[15]); stat_add(ST_EVALS);
                stat_add(c == 0 ? F_CAP_ZERO : c < needed ? F_CAP_SHORT : c == needed ? F_CAP_EXACT : F_CAP_GENEROUS);
                long d = g.damaged();
                if (d != LONG_MIN) { snprintf(b, sizeof b, "rtosc_bundle with capacity %zu (needed %zu, %d elements): byte at offset %ld of the destination was written", c, needed, n, d); fail("OVERRUN", b); break; }
                if (c < needed) {
                    if (r != 0) { snprintf(b, sizeof b, "rtosc_bundle capacity %zu < needed %zu: returned %zu instead of 0", c, needed, r); fail("SHORT-RETURN", b); break; }
                    for (size_t i = 0; i < c; i++) if (g.p[i]) { snprintf(b, sizeof b, "rtosc_bundle capacity %zu < needed %zu: buffer not zero-filled after the failed call (byte %zu)", c, needed, i); fail("PARTIAL", b); break; }
                } else {
                    if (r != needed) { snprintf(b, sizeof b, "rtosc_bundle capacity %zu >= needed %zu: returned %zu", c, needed, r); fail("FIT-RETURN", b); break; }
                    if (memcmp(g.p, ref.data(), needed)) { snprintf(b, sizeof b, "rtosc_bundle capacity %zu >= needed %zu: bytes differ", c, needed); fail("FIT-BYTES", b); break; }
                }
                trace(mix64(c, r));
            }
        }
        // pipeline stage 2: RtData::reply / broadcast format into 8192-byte stack buffers
        if (res.cls.empty() && k.size() > 1 && k[1]) {
            for (int delta = -16; delta <= 16 && res.cls.empty(); delta += 4) {
                stat_add(F_REPLY_8192); stat_add(ST_EVALS, 2);
                size_t want = 8192 + delta; size_t slen = want - 8 - 4 - 1;   // "/rp\0" ",s\0\0" + string padded: 8 + pad4(slen+1)
                std::string s(slen - (slen % 4 == 3 ? 0 : 0), 'x'); while (8 + ((s.size() + 4) & ~3u) > want) s.pop_back(); while (8 + ((s.size() + 4) & ~3u) < want) s.push_back('y');
                std::vector<char> big(want + 64); size_t n = rtosc_message(big.data(), big.size(), "/rp", "s", s.c_str());
                for (int which = 0; which < 2; which++) {
                    Capture cp; if (which == 0) cp.reply("/rp", "s", s.c_str()); else cp.broadcast("/rp", "s", s.c_str());
                    if (n <= 8192) { stat_add(P_REPLY_FITS); if (!cp.called || cp.got.size() != n || memcmp(cp.got.data(), big.data(), n)) { snprintf(b, sizeof b, "%s of a %zu-byte message: callback received %zu bytes", which ? "broadcast" : "reply", n, cp.got.size()); fail("REPLY-BYTES", b); } }
                    else { stat_add(P_REPLY_TOO_BIG); if (cp.called && cp.got.size() != 0 && !(cp.got.size() == n && !memcmp(cp.got.data(), big.data(), n))) { snprintf(b, sizeof b, "%s of a %zu-byte message (> 8192): callback received a partial message of %zu bytes", which ? "broadcast" : "reply", n, cp.got.size()); fail("REPLY-PARTIAL", b); } }
                }
            }
        }
        res.trace_hash = mix64(trace_value(), needed);
        return res;
    }
};
int main(int argc, char **argv) { CapWorld w; return sim_main(argc, argv, w); }
