// w_link — C06: ThreadLink is a lossless FIFO between two threads under every interleaving.
// Real: /repo/src/cpp/thread-link.cpp (compiled through seams/tl_seam.h), /repo/src/rtosc.c.
// Stub: the two caller threads (fibers driven by the seeded scheduler).
#include "../simkit/sim.h"
#include "../simkit/fiber.h"
#include <rtosc/rtosc.h>
#include <rtosc/thread-link.h>
#include <cstring>
#include <cstdio>
#include <set>
#include <tuple>
#include <deque>

using namespace sim;

enum { ST_RUNS_FAULTFREE, ST_RUNS_FAULTS, ST_API_CALLS, ST_YIELDS, ST_SWITCHES,
       F_PREEMPT_IN_OP, F_STALL, F_OVERSIZE, F_RAW_OVERSIZE, F_RINGFULL_DROP, F_CHUNKED_COPY,
       P_SPLIT_WRITE, P_SPLIT_READ, P_EXACT_FILL, P_HASNEXT_FALSE_DURING_WRITE, P_LA_AHEAD, P_RESYNC, P_EMPTIED3, P_WRAPPED, P_ALT_CAPACITY,
       P_WRITE_OVERLAPS_READ, ST_HB_BYTES, ST_MAX_HISTORY, P_BUNDLE, P_BUNDLE_FOLLOWED, ST_N };
static const char *STAT_NAMES[ST_N] = { "runs.fault_free", "runs.with_faults", "api_calls", "yields", "context_switches",
       "fault.preemption_inside_operation", "fault.stall", "fault.oversize_message", "fault.raw_oversize_message", "fault.ring_full_drop", "fault.chunked_copy",
       "probe.split_write", "probe.split_read", "probe.ring_filled_to_capacity", "probe.hasnext_false_during_write", "probe.lookahead_ahead_of_read", "probe.resync_after_lookahead",
       "probe.reader_emptied_ring_3_times", "probe.ring_wrapped", "nonstandard_capacity_accepted", "probe.write_overlaps_read_call", "hb.tracked_bytes", "max.history_ops", "probe.bundle_written", "probe.bundle_followed_by_another_write" };

enum { K_MAXMSG, K_NMSG, K_STRATEGY, K_FAULTS, K_CHUNKPCT, K_BUNDLES, K_N };
enum { W_WRITE = 0, W_ARRAY, W_RAW, W_STALL, R_POLL, R_POLL_LA, R_PEAK, R_STALL, R_HASNEXT, R_HASNEXT_LA };

// ------------------------------------------------------------------ simulator state visible to the seam hooks
static Sched *g_sched = nullptr;
static HB *g_hb = nullptr;
static Choices *g_ch = nullptr;
static int g_chunkpct = 50;
static bool g_in_api[Sched::MAXT];
static uint64_t g_preempt_in_op = 0, g_chunked = 0;

namespace simhook {
void atomic_pre(const void *, int kind, int) {
    if (g_sched && g_sched->in_task()) {
        int before = g_sched->current(); uint64_t sw = g_sched->switches;
        g_sched->yield(kind == 0 ? Y_LOAD : kind == 1 ? Y_STORE : Y_RMW);
        if (g_sched->switches != sw && g_in_api[before]) g_preempt_in_op++;
    }
}
void atomic_post(const void *obj, int kind, int mo) {
    if (g_sched && g_sched->in_task() && g_hb) {
        int t = g_sched->current();
        if (kind == 0) g_hb->on_load(t, obj, mo); else if (kind == 1) g_hb->on_store(t, obj, mo); else g_hb->on_rmw(t, obj, mo);
    }
}
void *copy(void *dst, const void *src, size_t n) {
    if (!(g_sched && g_sched->in_task()) || n == 0) return ::memmove(dst, src, n);
    int t = g_sched->current();
    // chunking decision: 0 whole, 1 halves, 2 words, 3 first byte + rest, 4 all but last + last
    uint32_t prop = 0;
    if (!g_ch->replay) prop = g_ch->rng.below(100) < (uint64_t)g_chunkpct ? 1 + (uint32_t)g_ch->rng.below(4) : 0;
    uint32_t mode = n >= 2 ? g_ch->decide(5, prop) : 0;
    size_t cuts[80]; int nc = 0;
    if (mode == 1) cuts[nc++] = n / 2;
    else if (mode == 2) { for (size_t o = 4; o < n && nc < 79; o += 4) cuts[nc++] = o; }
    else if (mode == 3) cuts[nc++] = 1;
    else if (mode == 4) cuts[nc++] = n - 1;
    cuts[nc++] = n;
    if (nc > 1) g_chunked++;
    size_t off = 0;
    for (int i = 0; i < nc; i++) {
        if (i) { uint64_t sw = g_sched->switches; g_sched->yield(Y_COPY); if (g_sched->switches != sw) g_preempt_in_op++; }
        size_t len = cuts[i] - off;
        g_hb->on_read(t, (const char *)src + off, len, g_sched->steps);
        g_hb->on_write(t, (char *)dst + off, len, g_sched->steps);
        ::memmove((char *)dst + off, (const char *)src + off, len);
        off = cuts[i];
    }
    return dst;
}
size_t ring_length(ring_t *r) {
    size_t len = rtosc_message_ring_length(r);
    if (g_sched && g_sched->in_task() && g_hb) {   // the framing code reads the ring bytes of the message it measures
        int t = g_sched->current(); size_t a = len < r[0].len ? len : r[0].len;
        g_hb->on_read(t, r[0].data, a, g_sched->steps);
        if (len > a && r[1].data) g_hb->on_read(t, r[1].data, (len - a) < r[1].len ? (len - a) : r[1].len, g_sched->steps);
    }
    return len;
}
}

// ------------------------------------------------------------------ messages
struct Msg { int id; std::vector<char> bytes; size_t enc_len; std::vector<char> raw; bool bundle = false; };   // raw: what raw_write is handed (a bundle carries no length: its reader needs a zero word behind it)   // bytes: full encoding; enc_len: what the link's encoder produces under MaxMsg (0 = cannot encode)

static size_t build(char *buf, size_t cap, int shape, int id, int fill, rtosc_arg_t *args_out, const char **addr_out, const char **types_out, char *strbuf) {
    static char addr[8];
    for (int i = 0; i < fill; i++) strbuf[i] = (char)('a' + (id * 7 + i) % 26);
    strbuf[fill] = 0;
    const char *a = "/m", *t = "";
    switch (shape) {
    case 0: snprintf(addr, sizeof addr, "/%02x", id & 0xff); a = addr; t = ""; break;
    case 1: t = "i"; args_out[0].i = id; break;
    case 2: t = "is"; args_out[0].i = id; args_out[1].s = strbuf; break;
    case 3: t = "ib"; args_out[0].i = id; args_out[1].b.len = fill; args_out[1].b.data = (uint8_t *)strbuf; break;
    case 4: snprintf(addr, sizeof addr, "/%02x", id & 0xff); a = addr; t = (id & 1) ? "TFNI" : "F"; break;                 // tags without values only
    default: t = "ihd"; args_out[0].i = id; args_out[1].h = 0x0102030405060708LL * id; args_out[2].d = id * 0.5; break;       // 8-byte values
    }
    *addr_out = a; *types_out = t;
    return rtosc_amessage(buf, cap, a, t, args_out);
}

// ------------------------------------------------------------------ history + model
struct Ev { int task; int kind; uint64_t inv, ret; bool bres; std::vector<char> bytes; int wmsg; };   // wmsg: index into msgs for writer ops

struct Checker {
    const std::vector<Ev> &W, &R; const std::vector<Msg> &msgs; size_t maxmsg; long cap;
    std::set<std::tuple<int, int, int, uint64_t>> seen;
    int deepest_j = -1; std::string deepest_why; std::string deepest_cls;
    bool alt_ok = false;
    struct St { std::vector<int> q; long used; int la; std::vector<int> consumed, dropped; bool exact = false; };
    bool exact_seen = false;
    Checker(const std::vector<Ev> &w, const std::vector<Ev> &r, const std::vector<Msg> &m, size_t mm, long c) : W(w), R(r), msgs(m), maxmsg(mm), cap(c) {}
    static uint64_t qhash(const St &s) { uint64_t h = 7; for (int x : s.q) h = mix64(h, x + 1); return mix64(h, s.la); }
    int match_msg(const std::vector<char> &b) const {   // which written message do these bytes equal?
        if (b.size() >= 8 && !memcmp(b.data(), "#bundle", 8)) {   // a bundle's length is not in its bytes: the written bundle these bytes start with (ids make prefixes unique)
            for (size_t i = 0; i < msgs.size(); i++) if (msgs[i].bundle && msgs[i].bytes.size() <= b.size() && !memcmp(msgs[i].bytes.data(), b.data(), msgs[i].bytes.size())) return (int)i;
            return -1; }
        size_t len = rtosc_message_length(b.data(), b.size());
        for (size_t i = 0; i < msgs.size(); i++) if (msgs[i].bytes.size() == len && len && !memcmp(msgs[i].bytes.data(), b.data(), len)) return (int)i;
        return -1;
    }
    void fail_at(int j, const St &s, const std::string &cls, const std::string &why) { (void)s; if (j > deepest_j) { deepest_j = j; deepest_cls = cls; deepest_why = why; } }
    bool reader_step(int j, St &s) {
        const Ev &e = R[j]; char b[200];
        switch (e.kind) {
        case R_HASNEXT: {
            bool m = !s.q.empty();
            if (m != e.bres) { snprintf(b, sizeof b, "hasNext returned %d but %zu accepted message(s) are unconsumed", e.bres, s.q.size()); fail_at(j, s, (!e.bres && m) ? "HASNEXT" : "HASNEXT", b); return false; }
            return true; }
        case R_HASNEXT_LA: {
            bool m = (int)s.q.size() > s.la;
            if (m != e.bres) { snprintf(b, sizeof b, "hasNextLookahead returned %d with %zu queued and lookahead position %d", e.bres, s.q.size(), s.la); fail_at(j, s, "LOOKAHEAD", b); return false; }
            return true; }
        case R_POLL: case R_POLL_LA: {
            bool la = e.kind == R_POLL_LA; int pos = la ? s.la : 0;
            int got = match_msg(e.bytes);
            if ((int)s.q.size() <= pos) { snprintf(b, sizeof b, "%s returned message #%d but the model queue has nothing at position %d", la ? "read_lookahead" : "read", got, pos); fail_at(j, s, got < 0 ? "TORN" : "FIFO", b); return false; }
            int want = s.q[pos];
            if (got != want) {
                const char *cls = "FIFO"; const char *what = "out of order";
                if (got < 0) { cls = "TORN"; what = "bytes equal no written message (torn or disturbed)"; }
                else if (std::find(s.consumed.begin(), s.consumed.end(), got) != s.consumed.end()) what = "duplicate of an already consumed message";
                else if (std::find(s.dropped.begin(), s.dropped.end(), got) != s.dropped.end()) what = "message that had to be dropped was delivered";
                else if (std::find(s.q.begin(), s.q.end(), got) != s.q.end()) what = "a queued message was skipped (lost or reordered)";
                if (la && got >= 0) cls = "LOOKAHEAD";
                snprintf(b, sizeof b, "%s returned message #%d, expected #%d: %s", la ? "read_lookahead" : "read", got, want, what); fail_at(j, s, cls, b); return false;
            }
            if (la) s.la++; else { s.q.erase(s.q.begin()); s.used -= (long)msgs[want].enc_len; s.consumed.push_back(want); s.la = 0; }
            return true; }
        }
        return true;
    }
    void writer_step(int i, St &s) {
        const Ev &e = W[i]; if (e.wmsg < 0) return;
        const Msg &m = msgs[e.wmsg];
        if (m.enc_len == 0) { s.dropped.push_back(e.wmsg); return; }
        if ((long)m.enc_len <= cap - s.used) { s.q.push_back(e.wmsg); s.used += (long)m.enc_len; if (cap - s.used < 4) s.exact = true; }
        else s.dropped.push_back(e.wmsg);
    }
    bool dfs(int i, int j, St s) {
        if (i == (int)W.size() && j == (int)R.size()) { exact_seen = s.exact; return true; }
        auto key = std::make_tuple(i, j, (int)s.used, qhash(s));
        if (!seen.insert(key).second) return false;
        // a reader op may go next unless the next writer op returned before it was invoked
        bool can_r = j < (int)R.size() && !(i < (int)W.size() && W[i].ret < R[j].inv);
        bool can_w = i < (int)W.size() && !(j < (int)R.size() && R[j].ret < W[i].inv);
        if (can_r) { St t = s; if (reader_step(j, t) && dfs(i, j + 1, t)) return true; }
        if (can_w) { St t = s; writer_step(i, t); if (dfs(i + 1, j, t)) return true; }
        return false;
    }
    bool check() { St s; s.used = 0; s.la = 0; return dfs(0, 0, s); }
};

// ------------------------------------------------------------------ world
struct LinkWorld : World {
    const char *name() const override { return "w_link"; }
    std::vector<std::string> properties() const override { return {"C06"}; }
    std::vector<std::string> stat_names() const override { return std::vector<std::string>(STAT_NAMES, STAT_NAMES + ST_N); }
    std::vector<std::string> knob_names() const override { return {"MaxMsg", "messages", "strategy", "faults", "chunk_pct"}; }
    std::string components() const override {
        return "{\"real\": [\"src/cpp/thread-link.cpp (every atomic access and payload copy through seams/tl_seam.h)\", \"src/rtosc.c (encoding, ring framing)\"], "
               "\"stub\": [\"writer thread and reader thread (fibers under the seeded scheduler)\"]}";
    }
    std::string rule() const override {
        return "one run = seeded knobs (ring geometry, scheduler strategy, copy chunking) + writer/reader plans + the scheduler's decision sequence; every atomic load/store and every chunk of every payload copy in thread-link.cpp is a yield point. "
               "A run is non-trivial if at least one context switch happened inside an API call or a fault (stall, oversize, ring-full drop) fired; distinct = distinct hash of (plan op kinds and sizes, sequence of (task, yield kind) at every yield), counted in a 2^27-bit bitmap (a lower bound).";
    }
    std::string describe(const Op &op) const override {
        char b[96]; static const char *n[] = {"write", "writeArray", "raw_write", "stall", "poll", "poll_la", "peak", "stall", "hasNext", "hasNextLA"};
        if (op.kind <= W_RAW) snprintf(b, sizeof b, "W:%s(id=%lld,shape=%lld,fill=%lld)", n[op.kind], (long long)op.a[0], (long long)op.a[1], (long long)op.a[2]);
        else if (op.kind == W_STALL || op.kind == R_STALL) snprintf(b, sizeof b, "%s:stall(%lld)", op.party ? "R" : "W", (long long)op.a[0]);
        else snprintf(b, sizeof b, "R:%s", n[op.kind]);
        return b;
    }
    std::vector<Op> simpler(const Op &op) const override {
        std::vector<Op> v;
        if (op.kind <= W_RAW) {
            if (op.a[2] > 0) { Op o = op; o.a[2] = 0; v.push_back(o); o = op; o.a[2] = op.a[2] / 2; v.push_back(o); o = op; o.a[2] = op.a[2] - 1; v.push_back(o); }
            if (op.kind != W_WRITE) { Op o = op; o.kind = W_WRITE; v.push_back(o); }
            if (op.a[1] > 0 && op.a[2] == 0) { Op o = op; o.a[1] = op.a[1] - 1; v.push_back(o); }
        } else if ((op.kind == W_STALL || op.kind == R_STALL) && op.a[0] > 1) { Op o = op; o.a[0] = 1; v.push_back(o); }
        else if (op.kind == R_POLL_LA) { Op o = op; o.kind = R_POLL; v.push_back(o); }
        return v;
    }

    void gen(const std::string &, Rng &kr, Rng &pr, Knobs &k, Plan &p) override {
        static const int mm[] = {16, 20, 24, 32, 48, 64, 17, 21, 25, 33, 19};
        k.assign(K_N, 0);
        k[K_MAXMSG] = mm[kr.below(11)]; k[K_NMSG] = 1 + kr.below(4); k[K_STRATEGY] = kr.below(S_COUNT);
        k[K_FAULTS] = kr.chance(0.7); k[K_CHUNKPCT] = kr.pick(std::vector<int>{0, 20, 50, 90});
        k[K_BUNDLES] = kr.chance(0.25);   // raw_write also takes bundles
        int maxmsg = (int)k[K_MAXMSG]; bool faults = k[K_FAULTS];
        int big = g_tier ? 2 : 1; int nw = 1 + (int)pr.below(pr.chance(0.7) ? 8 : 24 * big), nr = 1 + (int)pr.below(pr.chance(0.7) ? 10 : 40 * big);
        std::vector<Op> w, r; int id = 1;
        for (int i = 0; i < nw; i++) {
            Op o; o.party = 0;
            if (faults && pr.chance(0.08)) { o.kind = W_STALL; o.a[0] = 1 + pr.below(pr.chance(0.5) ? 6 : 60); w.push_back(o); continue; }
            int kd = (int)pr.below(10); o.kind = kd < 5 ? W_WRITE : kd < 8 ? W_ARRAY : W_RAW;
            o.a[0] = id++;
            // target encoded size: small, uniform, exactly MaxMsg, or (faults) oversize
            int target; double u = pr.unit();
            if (u < 0.35) target = 8 + 4 * (int)pr.below(3);
            else if (u < 0.75) target = 8 + 4 * (int)pr.below((maxmsg - 8) / 4 + 1);
            else if (u < 0.88 || !faults) target = (maxmsg & ~3) - 4 * (int)pr.below(2);
            else target = (maxmsg & ~3) + 4 + 4 * (int)pr.below(3);
            if (target < 8) target = 8;
            if (target == 8) { o.a[1] = 0; o.a[2] = 0; }
            else if (target == 12) { o.a[1] = 1; o.a[2] = 0; }
            else if (pr.chance(0.5) || target < 20) { o.a[1] = 2; o.a[2] = (target - 16) + (int)pr.below(4); if (target == 16) o.a[2] = (int)pr.below(4); }   // string: 16 + 4*floor(L/4)
            else { o.a[1] = 3; int pad = target - 16; o.a[2] = pad ? pad - (int)pr.below(4) : 0; if (o.a[2] < 0) o.a[2] = 0; }                                  // blob: 16 + pad4(L)
            if (pr.chance(0.12)) { o.a[1] = 4 + (int64_t)pr.below(2); o.a[2] = 0; }
            if ((o.a[1] == 0 || o.a[1] == 4) && o.kind == W_ARRAY) o.kind = W_WRITE;
            if (k[K_BUNDLES] && pr.chance(0.3)) { o.kind = W_RAW; o.a[3] = 1; }   // the message travels as the only element of a bundle
            w.push_back(o);
        }
        for (int i = 0; i < nr; i++) {
            Op o; o.party = 1;
            double u = pr.unit();
            if (faults && u < 0.08) { o.kind = R_STALL; o.a[0] = 1 + pr.below(pr.chance(0.5) ? 6 : 80); }
            else if (u < 0.55) o.kind = R_POLL; else if (u < 0.80) o.kind = R_POLL_LA; else if (u < 0.85) o.kind = R_PEAK; else if (u < 0.93) o.kind = R_HASNEXT; else o.kind = R_HASNEXT_LA;
            r.push_back(o);
        }
        p = w; p.insert(p.end(), r.begin(), r.end());
    }

    Result exec(const std::string &, const Knobs &k, const Plan &plan, Choices &ch) override {
        Result res;
        size_t maxmsg = (size_t)std::max<int64_t>(8, std::min<int64_t>(k.size() > K_MAXMSG ? k[K_MAXMSG] : 32, 256));
        size_t nmsg = (size_t)std::max<int64_t>(1, std::min<int64_t>(k.size() > K_NMSG ? k[K_NMSG] : 2, 8));
        bool faults = k.size() > K_FAULTS && k[K_FAULTS];
        g_chunkpct = k.size() > K_CHUNKPCT ? (int)k[K_CHUNKPCT] : 50;
        stat_add(faults ? ST_RUNS_FAULTS : ST_RUNS_FAULTFREE);

        Sched sched; HB hb; hb.reset();
        sched.ch = &ch; sched.strategy = k.size() > K_STRATEGY ? (int)(k[K_STRATEGY] % S_COUNT) : 0; sched.max_steps = 20000;
        g_sched = &sched; g_hb = &hb; g_ch = &ch; g_preempt_in_op = 0; g_chunked = 0; memset(g_in_api, 0, sizeof g_in_api);

        rtosc::ThreadLink *link = new rtosc::ThreadLink(maxmsg, nmsg);
        long size = (long)(maxmsg * nmsg);

        // pre-build every message of the writer plan
        std::vector<Msg> msgs; std::vector<Op> wops, rops;
        for (auto &op : plan) (op.party == 0 ? wops : rops).push_back(op);
        uint64_t shape = mix64(maxmsg, nmsg);
        for (auto &op : plan) shape = mix64(shape, op.kind * 1000 + (op.kind <= W_RAW ? op.a[1] * 100 + op.a[2] : 0));

        std::vector<Ev> HW, HR; uint64_t seq = 0; bool writer_done = false;
        std::vector<char> last_read; bool peak_bad = false; std::string peak_detail;
        uint64_t n_over = 0, n_rawover = 0, emptied = 0, n_bundles = 0; bool bundle_followed = false;

        struct WItem { Op op; int msg; const char *addr, *types; rtosc_arg_t args[3]; std::vector<char> str; };
        std::vector<WItem> items(wops.size());
        for (size_t i = 0; i < wops.size(); i++) {
            WItem &it = items[i]; it.op = wops[i]; it.msg = -1;
            if (it.op.kind > W_RAW) continue;
            int shape_k = (int)(((it.op.a[1] % 6) + 6) % 6), fill = (int)std::max<int64_t>(0, std::min<int64_t>(it.op.a[2], 200));
            if (shape_k < 2 || shape_k > 3) fill = 0;
            it.str.assign(fill + 1, 0);
            char buf[600];
            size_t len = build(buf, 512, shape_k, (int)it.op.a[0], fill, it.args, &it.addr, &it.types, it.str.data());
            if (shape_k == 0 || shape_k == 4) { it.str.assign(it.addr, it.addr + strlen(it.addr) + 1); it.addr = nullptr; }   // addr buffer is static: keep a copy
            bool as_bundle = it.op.kind == W_RAW && (it.op.a[3] & 1) && k.size() > K_BUNDLES && k[K_BUNDLES];
            if (as_bundle) { char bb[560]; size_t bl = rtosc_bundle(bb, sizeof bb, 0x0102030405060708ull + (uint64_t)it.op.a[0], 1, buf); memcpy(buf, bb, bl); len = bl; n_bundles++; if (i + 1 < wops.size()) for (size_t q = i + 1; q < wops.size(); q++) if (wops[q].kind <= W_RAW) bundle_followed = true; }
            Msg m; m.id = (int)it.op.a[0]; m.bytes.assign(buf, buf + len); m.bundle = as_bundle; m.raw = m.bytes; m.raw.resize(len + 4, 0);
            m.enc_len = len <= maxmsg ? len + (as_bundle ? 4 : 0) : 0;      // write/writeArray: encoder refuses; raw_write: the property demands a whole drop; a bundle occupies its zero word too (that is what frames it)
            if (len > maxmsg) { if (it.op.kind == W_RAW) n_rawover++; else n_over++; }
            it.msg = (int)msgs.size(); msgs.push_back(m);
        }

        auto record = [&](std::vector<Ev> &H, int task, int kind, uint64_t inv, bool b, const char *bytes, int wmsg) {
            Ev e; e.task = task; e.kind = kind; e.inv = inv; e.ret = ++seq; e.bres = b; e.wmsg = wmsg;
            if (bytes) e.bytes.assign(bytes, bytes + maxmsg);
            trace(mix64(mix64(task * 16 + kind, b), bytes ? hash_bytes(bytes, maxmsg) : 0));
            H.push_back(e); stat_add(ST_API_CALLS);
        };

        sched.spawn([&] {   // writer
            for (auto &it : items) {
                if (it.op.kind == W_STALL) { stat_add(F_STALL); sched.stall((int)std::max<int64_t>(1, std::min<int64_t>(it.op.a[0], 200))); continue; }
                uint64_t inv = ++seq; g_in_api[0] = true;
                const char *addr = it.addr ? it.addr : it.str.data();
                if (it.op.kind == W_WRITE) {
                    if (!*it.types) link->write(addr, "");
                    else if (!strcmp(it.types, "i")) link->write(addr, "i", it.args[0].i);
                    else if (!strcmp(it.types, "is")) link->write(addr, "is", it.args[0].i, it.args[1].s);
                    else if (!strcmp(it.types, "ib")) link->write(addr, "ib", it.args[0].i, it.args[1].b.len, it.args[1].b.data);
                    else if (!strcmp(it.types, "ihd")) link->write(addr, "ihd", it.args[0].i, it.args[1].h, it.args[2].d);
                    else link->write(addr, it.types);
                } else if (it.op.kind == W_ARRAY) link->writeArray(addr, it.types, it.args);
                else link->raw_write(msgs[it.msg].raw.data());
                g_in_api[0] = false;
                record(HW, 0, it.op.kind, inv, false, nullptr, it.msg);
            }
            writer_done = true;
        });
        sched.spawn([&] {   // reader
            auto do_hasnext = [&](bool la) { uint64_t inv = ++seq; g_in_api[1] = true; bool b = la ? link->hasNextLookahead() : link->hasNext(); g_in_api[1] = false; record(HR, 1, la ? R_HASNEXT_LA : R_HASNEXT, inv, b, nullptr, -1); return b; };
            auto do_read = [&](bool la) { uint64_t inv = ++seq; g_in_api[1] = true; const char *m = la ? link->read_lookahead() : link->read(); g_in_api[1] = false; record(HR, 1, la ? R_POLL_LA : R_POLL, inv, false, m, -1); last_read.assign(m, m + maxmsg); };
            for (auto &op : rops) {
                switch (op.kind) {
                case R_STALL: stat_add(F_STALL); sched.stall((int)std::max<int64_t>(1, std::min<int64_t>(op.a[0], 200))); break;
                case R_POLL: if (do_hasnext(false)) { do_read(false); if (!link->hasNext()) emptied++; } break;
                case R_POLL_LA: if (do_hasnext(true)) do_read(true); break;
                case R_HASNEXT: do_hasnext(false); break;
                case R_HASNEXT_LA: do_hasnext(true); break;
                case R_PEAK: if (!last_read.empty()) { const char *m = link->peak(); if (memcmp(m, last_read.data(), maxmsg)) { peak_bad = true; peak_detail = "peak() differs from the last message read"; } } break;
                }
            }
            while (!writer_done) sched.stall(1);          // quiescence: the writer has finished
            for (int guard = 0; guard < 400; guard++) { if (!do_hasnext(false)) break; do_read(false); }
            do_hasnext(true);                             // after a normal read the lookahead position is resynchronised: nothing left
        });
        sched.run();
        g_sched = nullptr; g_hb = nullptr;

        stat_add(ST_YIELDS, sched.steps); stat_add(ST_SWITCHES, sched.switches); stat_add(F_PREEMPT_IN_OP, g_preempt_in_op);
        stat_add(F_OVERSIZE, n_over); stat_add(F_RAW_OVERSIZE, n_rawover); stat_add(F_CHUNKED_COPY, g_chunked); stat_add(ST_HB_BYTES, hb.tracked_reads + hb.tracked_writes);
        stat_max(ST_MAX_HISTORY, HW.size() + HR.size());
        res.shape_hash = mix64(shape, sched.inter_hash);
        res.trace_hash = mix64(trace_value(), sched.inter_hash);
        if (sched.budget_hit) { res.budget = true; delete link; return res; }

        if (getenv("VERIF_DUMP")) {   // debugging aid for replays: the recorded history
            for (size_t i = 0; i < msgs.size(); i++) fprintf(stderr, "msg #%zu id=%d len=%zu footprint=%zu bundle=%d\n", i, msgs[i].id, msgs[i].bytes.size(), msgs[i].enc_len, (int)msgs[i].bundle);
            std::vector<const Ev *> all; for (auto &e : HW) all.push_back(&e); for (auto &e : HR) all.push_back(&e); std::sort(all.begin(), all.end(), [](const Ev *a, const Ev *b) { return a->inv < b->inv; });
            Checker c0(HW, HR, msgs, maxmsg, size - 1);
            for (auto e : all) fprintf(stderr, "%s kind=%d inv=%llu ret=%llu bres=%d msg=%d\n", e->task ? "R" : "W", e->kind, (unsigned long long)e->inv, (unsigned long long)e->ret, (int)e->bres, e->task ? c0.match_msg(e->bytes) : e->wmsg);
        }
        // ---- oracles
        if (hb.races) { res.cls = "RACE"; res.detail = hb.first_race + " (" + std::to_string(hb.races) + " racing byte accesses)"; }
        else if (peak_bad) { res.cls = "PEAK"; res.detail = peak_detail; }
        else {
            Checker c(HW, HR, msgs, maxmsg, size - 1);
            bool ok = c.check();
            if (ok && c.exact_seen) stat_add(P_EXACT_FILL);
            if (!ok) {
                bool alt = false;
                for (long cap = size; cap >= size - 8 && cap > 0 && !alt; cap--) { if (cap == size - 1) continue; Checker c2(HW, HR, msgs, maxmsg, cap); if (c2.check()) alt = true; }
                if (alt) stat_add(P_ALT_CAPACITY);
                else { res.cls = c.deepest_cls.empty() ? "FIFO" : c.deepest_cls; res.detail = "no linearization: " + c.deepest_why + " (reader op " + std::to_string(c.deepest_j) + " of " + std::to_string(HR.size()) + ")"; }
            }
        }
        if (n_bundles) stat_add(P_BUNDLE, n_bundles);
        if (bundle_followed) stat_add(P_BUNDLE_FOLLOWED);   // (was the trigger of a known finding until the ring carried the bundle's zero word)
        // ---- reach probes (from the history; never decide anything)
        {
            long used = 0; (void)used; uint64_t drops = 0;
            // cheap probes: overlap of calls, hasNext false while a write call was open
            for (auto &r : HR) for (auto &w : HW) if (w.inv < r.ret && r.inv < w.ret) { stat_add(P_WRITE_OVERLAPS_READ); if (r.kind == R_HASNEXT && !r.bres) stat_add(P_HASNEXT_FALSE_DURING_WRITE); break; }
            // delivered vs written
            std::set<int> delivered; long total = 0; bool la_ahead = false, resync = false; int la = 0;
            for (auto &r : HR) { if (r.kind == R_POLL || r.kind == R_POLL_LA) { Checker c(HW, HR, msgs, maxmsg, size - 1); int m = c.match_msg(r.bytes); if (m >= 0 && r.kind == R_POLL) { if (delivered.insert(m).second) total += (long)msgs[m].enc_len; }
                    if (r.kind == R_POLL_LA) { la++; la_ahead = true; } else { if (la > 0) resync = true; la = 0; } } }
            for (auto &w : HW) if (w.wmsg >= 0 && msgs[w.wmsg].enc_len && !delivered.count(w.wmsg)) drops++;
            stat_add(F_RINGFULL_DROP, drops);
            if (total >= size) stat_add(P_WRAPPED);
            if (la_ahead) stat_add(P_LA_AHEAD); if (resync) stat_add(P_RESYNC); if (emptied >= 3) stat_add(P_EMPTIED3);
            // split write / read and exact fill: replay the accepted sequence on index arithmetic
            long wpos = 0, rpos = 0; bool sw = false, sr = false;
            for (auto &w : HW) if (w.wmsg >= 0 && delivered.count(w.wmsg)) { long l = (long)msgs[w.wmsg].enc_len; if (wpos + l > size) sw = true; wpos = (wpos + l) % size; }
            for (int m : delivered) (void)m;
            for (auto &r : HR) if (r.kind == R_POLL) { Checker c(HW, HR, msgs, maxmsg, size - 1); int m = c.match_msg(r.bytes); if (m >= 0) { long l = (long)msgs[m].enc_len; if (rpos + l > size) sr = true; rpos = (rpos + l) % size; } }
            if (sw) stat_add(P_SPLIT_WRITE); if (sr) stat_add(P_SPLIT_READ);
            res.nontrivial = g_preempt_in_op > 0 || drops > 0 || n_over > 0 || n_rawover > 0;
        }
        delete link;
        return res;
    }
};

int main(int argc, char **argv) { LinkWorld w; return sim_main(argc, argv, w); }
