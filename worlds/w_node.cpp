// w_node — C14 (parameter ports clamp and report) and C15 end-to-end mode.
// One application node (real object + real macro-generated port tree) receives parameter messages from several
// parties: the user (sets, queries), the real UndoHistory (undo/redo messages, events delivered to it over a delayed
// FIFO, clock simulated) and the real AutomationMgr (host-driven slot values).  After every single dispatch the node is
// compared with the model (C14); with --prop C15 the undo clauses are on instead and the node clauses off.
// Real: include/rtosc/port-sugar.h callbacks, ports.cpp dispatch, undo-history.cpp, automations.cpp, rtosc.c.
// Stub: user, host, clock, the channel carrying undo events to the history.
#include "../simkit/sim.h"
#include "../apps/appnode.h"
#include "../models/undo_model.h"
#include <rtosc/undo-history.h>
#include <rtosc/automations.h>
#include <deque>

using namespace sim;
namespace sim { extern int64_t g_clock_ns; }
using app::Leaf; using app::Val; using app::Incoming;
using undo_model::V; using undo_model::Model; using undo_model::Emit;

enum { ST_RUNS, ST_OPS, ST_DISPATCHES, ST_SIM_MS, F_DELAYED_EVENT, F_CLOCK_ADV, F_OUT_OF_RANGE_VALUE, F_EXTREME_VALUE,
       P_CLAMPED, P_CHANGED, P_UNDO_EVENTS, P_UNDO_MSG, P_REDO_MSG, P_AUTOMATION_MSG, P_MERGED, P_STRING_TRUNC, P_OPTION_SYMBOL, P_ARRAY_SET, P_SUBTREE_SET, P_QUERY, P_UNDO_CROSSES_AUTOMATION, P_EVICT, P_RESPELLED, P_LONG_SPELLING, P_TIGHT_LOC, ST_N };
static const char *STAT_NAMES[ST_N] = { "runs", "ops", "dispatches_checked", "sim_time_ms", "fault.undo_event_delivered_late", "fault.clock_advance", "fault.value_beyond_declared_bound", "fault.storage_type_extreme",
       "probe.value_clamped", "probe.value_changed", "probe.undo_events_emitted", "probe.undo_message_dispatched", "probe.redo_message_dispatched", "probe.automation_message_dispatched", "e2e.undo_events_merged",
       "probe.string_truncated", "probe.option_set_by_symbol", "probe.array_element_set", "probe.subtree_parameter_set", "probe.query", "e2e.unused", "e2e.history_eviction", "probe.index_respelled_or_out_of_range", "probe.address_longer_than_location_buffer", "runs.location_buffer_cut_to_fit" };

enum { OP_SET = 0, OP_QUERY, OP_SEEK, OP_CLOCK, OP_HOST, OP_DELIVER };

struct NodeWorld : World {
    const char *name() const override { return "w_node"; }
    std::vector<std::string> properties() const override { return {"C14", "C15"}; }
    std::vector<std::string> stat_names() const override { return std::vector<std::string>(STAT_NAMES, STAT_NAMES + ST_N); }
    std::vector<std::string> knob_names() const override { return {"delay_events"}; }
    std::string components() const override { return "{\"real\": [\"include/rtosc/port-sugar.h (every macro-generated callback kind)\", \"src/cpp/ports.cpp (dispatch, enum_key, metadata)\", \"src/cpp/undo-history.cpp\", \"src/cpp/automations.cpp\", \"src/rtosc.c\"], "
        "\"stub\": [\"user\", \"plugin host\", \"clock (time() interposed)\", \"FIFO carrying undo events from the node to the history\"]}"; }
    std::string rule() const override { return "one run = a history (1..50 ops) of user sets/queries over every macro-generated port kind (values at, around and far beyond the declared bounds, storage extremes, option symbols, long strings), undo/redo seeks of the real UndoHistory fed by the node's own undo events over a delayed FIFO, "
        "host-driven automation values and clock advances; the node is compared with the model after every single dispatch (C14) or the undo messages and resulting state with the undo model (C15). Non-trivial = at least one value was clamped, truncated or translated, or an undo/redo/automation message was dispatched; distinct = distinct hash of the op sequence."; }
    std::string describe(const Op &op) const override {
        auto &L = app::leaves(); char b[160]; int leaf = (int)(((op.a[0] % (int64_t)L.size()) + L.size()) % L.size());
        switch (op.kind) {
        case OP_SET: { char tag = (char)op.a[2]; if (tag == 'f') { float f; uint32_t u = (uint32_t)op.a[1]; memcpy(&f, &u, 4); snprintf(b, sizeof b, "set(%s,f %.9g)", L[leaf].addr.c_str(), f); }
            else if (tag == 's' || tag == 'S') snprintf(b, sizeof b, "set(%s,%c \"%s\")", L[leaf].addr.c_str(), tag, op.s.c_str()); else if (tag == 'T' || tag == 'F') snprintf(b, sizeof b, "set(%s,%c)", L[leaf].addr.c_str(), tag);
            else snprintf(b, sizeof b, "set(%s,%c %lld)", L[leaf].addr.c_str(), tag, (long long)op.a[1]); break; }
        case OP_QUERY: snprintf(b, sizeof b, "query(%s)", L[leaf].addr.c_str()); break;
        case OP_SEEK: snprintf(b, sizeof b, "undo.seek(%+lld)", (long long)op.a[0]); break;
        case OP_CLOCK: snprintf(b, sizeof b, "clock(+%lldms)", (long long)op.a[0]); break;
        case OP_HOST: snprintf(b, sizeof b, "host.setSlot(%lld,%.3f)", (long long)op.a[0], op.a[1] / 1000.0); break;
        default: snprintf(b, sizeof b, "deliver(%lld)", (long long)op.a[0]); break;
        }
        return b;
    }
    std::vector<Op> simpler(const Op &op) const override {
        std::vector<Op> v;
        if (op.kind == OP_SET && (op.a[2] == 'i' || op.a[2] == 'c') && op.a[1]) { Op o = op; o.a[1] = 0; v.push_back(o); o.a[1] = 1; v.push_back(o); o.a[1] = op.a[1] / 2; v.push_back(o); }
        if (op.kind == OP_SET && op.a[2] == 'f') { for (float f : {0.0f, 1.0f, 0.5f}) { Op o = op; uint32_t u; memcpy(&u, &f, 4); if ((int64_t)u != op.a[1]) { o.a[1] = u; v.push_back(o); } } }
        if (op.kind == OP_SET && op.s.size() > 1) { Op o = op; o.s = op.s.substr(0, op.s.size() / 2); v.push_back(o); }
        if (op.kind == OP_SEEK && op.a[0] < -1) { Op o = op; o.a[0] = -1; v.push_back(o); }
        if (op.kind == OP_SEEK && op.a[0] > 1) { Op o = op; o.a[0] = 1; v.push_back(o); }
        return v;
    }
    bool merge(const Op &a, const Op &b, Op &out) const override { if (a.kind == OP_CLOCK && b.kind == OP_CLOCK) { out = a; out.a[0] = a.a[0] + b.a[0]; return true; } return false; }
    static int64_t fbits(float f) { uint32_t u; memcpy(&u, &f, 4); return u; }
    void gen(const std::string &prop, Rng &kr, Rng &pr, Knobs &k, Plan &p) override {
        auto &L = app::leaves(); k.assign(2, 0); k[0] = kr.chance(0.5); k[1] = kr.chance(0.25) ? (int64_t)kr.below(4) : -1;   // k[1]: spare bytes of a location buffer cut to fit each address (-1: a roomy one)
        int n = 1 + (int)pr.below(g_tier ? 120 : 50); bool undo_heavy = prop == "C15" ? pr.chance(0.8) : pr.chance(0.3);
        // a run concentrates on a few leaves so that histories on one parameter build up
        std::vector<int> focus; int nf = 1 + (int)pr.below(6); for (int i = 0; i < nf; i++) focus.push_back((int)pr.below(L.size()));
        for (int i = 0; i < n; i++) {
            Op o; double u = pr.unit();
            int leaf = pr.chance(0.8) ? focus[pr.below(focus.size())] : (int)pr.below(L.size()); const Leaf &l = L[leaf];
            if (u < (undo_heavy ? 0.5 : 0.65)) {
                o.kind = OP_SET; o.a[0] = leaf; if (prop != "C15" && pr.chance(0.06)) o.a[3] = 1 + (int64_t)pr.below(6);   // a[3]: 1 one leading zero, 2 two leading zeros, 3 index one past the end (with a leading zero half of the time), 4/5 the index plus 2^32 / 3*2^32 (no such element), 6 the index behind 240..400 zeros (longer than the location buffer)
                switch (l.kind) {
                case app::K_PARAM_C: case app::K_ARR_I: { bool isc = l.kind == app::K_PARAM_C; o.a[2] = isc ? 'c' : 'i'; int lo = atoi(l.mn), hi = atoi(l.mx); double s = pr.unit();
                    o.a[1] = s < 0.5 ? pr.range(lo, hi) : s < 0.8 ? pr.pick(std::vector<int64_t>{lo - 1, lo, lo + 1, hi - 1, hi, hi + 1}) : isc ? pr.pick(std::vector<int64_t>{-128, 127, 0, -1}) : pr.pick(std::vector<int64_t>{-128, 127, 0, -1, 128, 255, 256, 300, -129, -300, 65536 + 5, INT_MAX, INT_MIN});
                    if (isc) { if (o.a[1] < -128) o.a[1] = -128; if (o.a[1] > 127) o.a[1] = 127; } break; }
                case app::K_PARAM_I: { o.a[2] = 'i'; double s = pr.unit(); int lo = l.has_min ? atoi(l.mn) : -1000, hi = l.has_max ? atoi(l.mx) : 1000;
                    o.a[1] = s < 0.45 ? pr.range(lo, hi) : s < 0.8 ? pr.pick(std::vector<int64_t>{lo - 1, lo, lo + 1, hi - 1, hi, hi + 1, 0}) : pr.pick(std::vector<int64_t>{INT_MIN, INT_MAX, INT_MIN + 1, -1000000, 1000000}); break; }
                case app::K_PARAM_F: { o.a[2] = 'f'; double s = pr.unit(); float lo = l.has_min ? (float)atof(l.mn) : -100.f, hi = l.has_max ? (float)atof(l.mx) : 100.f; float f;
                    if (s < 0.45) f = lo + (hi - lo) * (float)pr.unit(); else if (s < 0.6) f = pr.pick(std::vector<float>{lo, hi, nextafterf(lo, -INFINITY), nextafterf(hi, INFINITY), nextafterf(lo, INFINITY), nextafterf(hi, -INFINITY)});
                    else if (s < 0.8) f = pr.chance(0.5) ? lo - (float)pr.unit() * 3 - 0.01f : hi + (float)pr.unit() * 3 + 0.01f; else if (s < 0.9) f = pr.pick(std::vector<float>{FLT_MAX, -FLT_MAX, 1e-30f, -1e-30f, 0.1f, 4.25f, 1.5f, (float)INFINITY, -(float)INFINITY});
                    else f = (float)((int)pr.below(41) - 20) / 4.0f;
                    if (f == 0.0f) f = 0.0f; o.a[1] = fbits(f == 0 ? 0.0f : f); break; }
                case app::K_TOGGLE: o.a[2] = pr.chance(0.5) ? 'T' : 'F'; break;
                case app::K_OPTION: { double s = pr.unit(); int nopt = (int)l.opts.size();
                    if (s < 0.35) { o.a[2] = 'S'; o.s = l.opts[pr.below(nopt)]; }
                    else if (s < 0.55) { o.a[2] = 'c'; o.a[1] = pr.chance(0.8) ? (int64_t)pr.below(nopt) : pr.pick(std::vector<int64_t>{-1, nopt, 127, -128}); }
                    else { o.a[2] = 'i'; o.a[1] = pr.chance(0.6) ? (int64_t)pr.below(nopt) : pr.pick(std::vector<int64_t>{-1, nopt, nopt + 1, INT_MIN, INT_MAX, 100, -100}); } break; }
                case app::K_STRING: { o.a[2] = 's'; int len = pr.chance(0.5) ? (int)pr.below(l.slen + 6) : (int)pr.below(4); static const char cs[] = "abcXYZ019 _-\"'%\\/:#"; for (int q = 0; q < len; q++) o.s += cs[pr.below(sizeof cs - 1)]; break; }
                }
            } else if (u < (undo_heavy ? 0.56 : 0.78)) { o.kind = OP_QUERY; o.a[0] = leaf; }
            else if (u < (undo_heavy ? 0.76 : 0.85)) { o.kind = OP_SEEK; double s = pr.unit(); o.a[0] = s < 0.45 ? -1 : s < 0.7 ? 1 : s < 0.85 ? -(int64_t)pr.below(25) : (int64_t)pr.below(25); }
            else if (u < (undo_heavy ? 0.90 : 0.91)) { o.kind = OP_CLOCK; double s = pr.unit(); o.a[0] = s < 0.3 ? (int64_t)pr.below(1000) : s < 0.5 ? 1000 + (int64_t)pr.below(1000) : s < 0.6 ? 2000 : s < 0.75 ? 2001 + (int64_t)pr.below(999) : 3000 + (int64_t)pr.below(5000); }
            else if (u < 0.96) { o.kind = OP_HOST; o.a[0] = pr.below(3); o.a[1] = pr.chance(0.8) ? (int64_t)pr.below(1001) : (int64_t)pr.below(3001) - 1000; }
            else { o.kind = OP_DELIVER; o.a[0] = 1 + pr.below(3); }
            p.push_back(o);
        }
    }

    Result exec(const std::string &prop, const Knobs &k, const Plan &plan, Choices &) override {
        Result res; stat_add(ST_RUNS); bool c14 = prop != "C15"; bool delay = !k.empty() && k[0]; int tight_knob = k.size() > 1 ? (int)std::max<int64_t>(-1, std::min<int64_t>(k[1], 8)) : -1;
        auto &L = app::leaves();
        g_clock_ns = 1000LL * 1000000000LL + 400000000LL; int64_t t0 = g_clock_ns;
        app::Node node; node.check = c14; node.tight = tight_knob; if (tight_knob >= 0) stat_add(P_TIGHT_LOC);
        rtosc::UndoHistory *hist = new rtosc::UndoHistory; Model um;
        rtosc::AutomationMgr *mgr = new rtosc::AutomationMgr(3, 2, 4); mgr->set_ports(app::App::ports);
        mgr->createBinding(0, "/pi", false); mgr->createBinding(1, "/pf", false); mgr->createBinding(2, "/pt", false); mgr->createBinding(2, "/sub/sf", false);
        bool recording = true, nontrivial = false; uint64_t shape = 0; int opi = 0; char b[500];
        struct Pending { std::vector<char> raw; std::string addr; V oldv, newv; bool automation; bool expected; };   // expected: the statement demands an event (the stored value changed)
        std::deque<Pending> chan;        // undo events in flight from the node to the history
        std::vector<Emit> emitted; std::vector<bool> from_automation_at;   // per model entry: produced by automation?
        auto fail = [&](const char *cls, const std::string &d) { if (res.cls.empty()) { res.cls = cls; res.detail = d; } };
        auto leaf_type = [&](const Leaf &l) { return l.kind == app::K_PARAM_C ? 'c' : l.kind == app::K_PARAM_F ? 'f' : 'i'; };
        auto toV = [&](const Val &v, char t) { V r; r.t = t; if (t == 'f') r.f = v.f; else r.i = v.i; return r; };
        auto node_failed = [&]() { if (c14 && !node.fail.empty()) { fail(node.fail_clause.c_str(), "op " + std::to_string(opi) + ": " + node.fail); return true; } return false; };
        // after a dispatch: forward the node's undo events into the channel; in C15 mode the model-level event is what the history must end up with
        auto after_dispatch = [&](int leaf, const Val &before, bool automation) {
            const Leaf &l = L[leaf];
            if (!recording) return;
            Val after = l.get(node.obj); bool chg = l.numeric_or_option() && !(before == after) && !(l.kind == app::K_PARAM_F && before.f == after.f);
            for (auto &e : node.undo_events) { Pending p; p.raw = e.raw; p.addr = l.addr; p.automation = automation; p.expected = chg; chg = false;
                p.oldv = toV(before, leaf_type(l)); p.newv = toV(after, leaf_type(l)); chan.push_back(p); stat_add(P_UNDO_EVENTS); }
            if (chg) { Pending p; p.addr = l.addr; p.automation = automation; p.expected = true; p.oldv = toV(before, leaf_type(l)); p.newv = toV(after, leaf_type(l)); chan.push_back(p); }   // a change without any event: the history can never undo it
        };
        auto real_matches = [&](const Model &m) {
            if (hist->getPos() != m.pos || hist->size() != m.h.size()) return false;
            for (size_t i = 0; i < m.h.size(); i++) { const char *mm = hist->getHistory((int)i); if (strcmp(mm, "/undo_change") || rtosc_narguments(mm) != 3) return false;
                if (m.h[i].addr != rtosc_argument(mm, 0).s) return false; char t = rtosc_type(mm, 1); if (t != m.h[i].oldv.t || rtosc_type(mm, 2) != t) return false; rtosc_arg_t a = rtosc_argument(mm, 1), bb = rtosc_argument(mm, 2);
                V o, n; o.t = n.t = t; if (t == 'f') { o.f = a.f; n.f = bb.f; } else { o.i = a.i; n.i = bb.i; } if (!(o == m.h[i].oldv) || !(n == m.h[i].newv)) return false; }
            return true; };
        auto deliver_one = [&]() {
            if (chan.empty()) return; Pending p = chan.front(); chan.pop_front(); int64_t now = g_clock_ns / 1000000LL;
            Model::Merge mg = um.classify(p.addr, now); bool atcap = um.pos == um.cap;
            if (!p.raw.empty()) hist->recordEvent(p.raw.data());
            if (c14) return;   // C14 mode: the history is only a source of messages
            if (p.raw.empty()) { snprintf(b, sizeof b, "op %d: %s changed from %s to %s but its port emitted no undo event: the history cannot rewind this change", opi, p.addr.c_str(), p.oldv.str().c_str(), p.newv.str().c_str()); fail("E2E-RECORD", b); return; }
            if (!p.expected) { if (!real_matches(um)) { snprintf(b, sizeof b, "op %d: %s did not change (%s) but an undo event was recorded for it (history pos=%u size=%zu)", opi, p.addr.c_str(), p.newv.str().c_str(), hist->getPos(), hist->size()); fail("E2E-RECORD", b); } return; }
            Model m1 = um.recorded(p.addr, p.oldv, p.newv, now, true), m0 = um.recorded(p.addr, p.oldv, p.newv, now, false);
            if (mg != Model::MUST_NOT && real_matches(m1)) { um = m1; stat_add(P_MERGED); }
            else if (mg != Model::MUST && real_matches(m0)) { um = m0; if (atcap) stat_add(P_EVICT); }
            else { const char *mm = hist->size() ? hist->getHistory((int)hist->size() - 1) : ""; std::string got = "?";
                if (*mm && rtosc_narguments(mm) == 3) { char t = rtosc_type(mm, 1); char q[120]; if (t == 'f') snprintf(q, sizeof q, "(%s, %.9g, %.9g)", rtosc_argument(mm, 0).s, rtosc_argument(mm, 1).f, rtosc_argument(mm, 2).f); else snprintf(q, sizeof q, "(%s, %d, %d)", rtosc_argument(mm, 0).s, rtosc_argument(mm, 1).i, rtosc_argument(mm, 2).i); got = q; }
                snprintf(b, sizeof b, "op %d: the change of %s from %s to %s was recorded as %s (history pos=%u size=%zu; model expects %s)", opi, p.addr.c_str(), p.oldv.str().c_str(), p.newv.str().c_str(), got.c_str(), hist->getPos(), hist->size(), mg == Model::MUST ? "a merge" : mg == Model::MUST_NOT ? "a new entry" : "either");
                fail("E2E-RECORD", b); }
        };
        hist->setCallback([&](const char *m) {
            Emit e; e.addr = m; if (rtosc_narguments(m) == 1) { char t = rtosc_type(m, 0); e.v.t = t; if (t == 'f') e.v.f = rtosc_argument(m, 0).f; else e.v.i = rtosc_argument(m, 0).i; } emitted.push_back(e);
            node.apply_raw(m);     // recording is suspended while a seek's messages are applied
        });
        mgr->backend = [&](const char *m) {
            int leaf = -1; for (size_t i = 0; i < L.size(); i++) if (L[i].addr == m) leaf = (int)i; if (leaf < 0) return;
            Val before = L[leaf].get(node.obj); if (node.apply_raw(m)) { stat_add(P_AUTOMATION_MSG); nontrivial = true; after_dispatch(leaf, before, true); }
        };

        for (auto &op : plan) {
            opi++; stat_add(ST_OPS);
            shape = mix64(shape, op.kind * 1000003 + (uint64_t)op.a[0] * 131 + (uint64_t)op.a[1] * 17 + (uint64_t)op.a[2] + hash_str(op.s));
            int leaf = (int)(((op.a[0] % (int64_t)L.size()) + L.size()) % L.size()); const Leaf &l = L[leaf];
            switch (op.kind) {
            case OP_SET: case OP_QUERY: {
                Incoming in; in.leaf = leaf; in.query = op.kind == OP_QUERY; in.tag = (char)op.a[2];
                if (!in.query) {
                    // keep the op meaningful under shrinking: coerce the tag to one the port kind admits
                    switch (l.kind) { case app::K_PARAM_C: in.tag = 'c'; break; case app::K_PARAM_I: case app::K_ARR_I: in.tag = 'i'; break; case app::K_PARAM_F: in.tag = 'f'; break; case app::K_TOGGLE: if (in.tag != 'T') in.tag = 'F'; break;
                        case app::K_OPTION: if (in.tag != 'S' && in.tag != 'c') in.tag = 'i'; break; case app::K_STRING: in.tag = 's'; break; }
                    if (in.tag == 'f') { float f; uint32_t u = (uint32_t)op.a[1]; memcpy(&f, &u, 4); if (std::isnan(f) || f == 0) f = 0.0f; in.v = app::vf(f); }
                    else if (in.tag == 'T' || in.tag == 'F') in.v = app::vb(in.tag == 'T');
                    else if (in.tag == 's') in.v = app::vs(op.s.c_str());
                    else if (in.tag == 'S') { bool known = false; for (auto &o : l.opts) if (o == op.s) known = true; in.v = app::vs(known ? op.s.c_str() : l.opts[0].c_str()); stat_add(P_OPTION_SYMBOL); }
                    else { int64_t x = op.a[1]; if (l.kind == app::K_PARAM_C || in.tag == 'c') x = std::max<int64_t>(-128, std::min<int64_t>(x, 127)); x = std::max<int64_t>(INT_MIN, std::min<int64_t>(x, INT_MAX)); x = std::max<int64_t>(l.smin, std::min<int64_t>(x, l.smax)); /* only values the storage type can represent */ in.v = app::vi((int)x); }
                    if (l.addr.find('/', 1) != std::string::npos) stat_add(P_SUBTREE_SET); else if (isdigit(l.addr.back())) stat_add(P_ARRAY_SET);
                } else stat_add(P_QUERY);
                if (op.kind == OP_SET && op.a[3] > 0) {   // respell the enumeration index of the address (first component that ends in digits and belongs to a '#N' port)
                    static const struct { const char *name; int n; } arrs[] = {{"/af24", 24}, {"/at12", 12}, {"/ao11", 11}, {"/subs12", 12}, {"/sub2s", 12}, {"/af", 4}, {"/ai", 5}, {"/at", 3}, {"/ao", 3}, {"/subs", 3}};
                    for (auto &ar : arrs) { size_t nl = strlen(ar.name); if (l.addr.compare(0, nl, ar.name)) continue; size_t e = nl; while (e < l.addr.size() && isdigit(l.addr[e])) e++; if (e == nl) continue;
                        std::string rest = l.addr.substr(e); int v = (int)(op.a[3] % 6);
                        if (v == 0) { in.sent_addr = std::string(ar.name) + std::string(240 + (size_t)(op.a[1] & 0xff) % 161, '0') + l.addr.substr(nl, e - nl) + rest; in.may_refuse = true; stat_add(P_LONG_SPELLING); } else
                        if (v >= 4) { unsigned long long big = strtoull(l.addr.substr(nl, e - nl).c_str(), nullptr, 10) + (v == 4 ? 1ull : 3ull) * 4294967296ull; in.sent_addr = std::string(ar.name) + std::to_string(big) + rest; in.expect_no_match = true; } else
                        if (v == 3) { in.sent_addr = std::string(ar.name) + ((op.a[1] & 1) ? "0" : "") + std::to_string(ar.n + (int)(op.a[1] & 2)) + rest; in.expect_no_match = true; }
                        else in.sent_addr = std::string(ar.name) + std::string(v, '0') + l.addr.substr(nl, e - nl) + rest;
                        stat_add(P_RESPELLED); break; } }
                Val before = l.get(node.obj); uint64_t cl0 = node.clamped;
                node.apply(in);
                if (node.clamped != cl0) { nontrivial = true; stat_add(P_CLAMPED); if (l.kind == app::K_STRING) stat_add(P_STRING_TRUNC); else stat_add(F_OUT_OF_RANGE_VALUE); }
                if (!in.query && !(before == l.get(node.obj))) stat_add(P_CHANGED);
                if (!in.query && (in.tag == 'i') && (in.v.i == INT_MIN || in.v.i == INT_MAX)) stat_add(F_EXTREME_VALUE);
                if (!in.query && in.tag == 'f' && (fabsf(in.v.f) > 1e30f)) stat_add(F_EXTREME_VALUE);
                if (node_failed()) break;
                after_dispatch(leaf, before, false);
                if (!delay) while (!chan.empty()) deliver_one(); else if (!chan.empty()) stat_add(F_DELAYED_EVENT);
                break; }
            case OP_DELIVER: for (int64_t q = 0; q < op.a[0] && !chan.empty(); q++) deliver_one(); break;
            case OP_CLOCK: { int64_t ms = std::max<int64_t>(0, std::min<int64_t>(op.a[0], 100000)); g_clock_ns += ms * 1000000LL; stat_add(F_CLOCK_ADV); break; }
            case OP_HOST: { int slot = (int)(((op.a[0] % 3) + 3) % 3); mgr->setSlot(slot, op.a[1] / 1000.0f); if (node_failed()) break; if (!delay) while (!chan.empty()) deliver_one(); break; }
            case OP_SEEK: {
                while (!chan.empty()) deliver_one();      // the UI flushes its inbox before it seeks
                if (!res.cls.empty()) break;
                int kk = (int)std::max<int64_t>(-100, std::min<int64_t>(op.a[0], 100));
                emitted.clear(); recording = false; hist->seekHistory(kk); recording = true;
                for (auto &e : emitted) { (void)e; nontrivial = true; stat_add(kk < 0 ? P_UNDO_MSG : P_REDO_MSG); }
                if (node_failed()) break;
                if (!c14) {
                    std::vector<Emit> want = um.seek(kk); bool same = want.size() == emitted.size();
                    for (size_t i = 0; same && i < want.size(); i++) same = want[i].addr == emitted[i].addr && want[i].v == emitted[i].v;
                    if (!same) { std::string w, g; for (auto &e : want) w += e.addr + "=" + e.v.str() + " "; for (auto &e : emitted) g += e.addr + "=" + e.v.str() + " "; snprintf(b, sizeof b, "op %d undo.seek(%+d): emitted [%s] expected [%s]", opi, kk, g.c_str(), w.c_str()); fail("E2E-SEEK", b); break; }
                    // the application now holds, for every address the seek touched, the last value the seek emitted for it
                    for (size_t i = 0; i < want.size(); i++) { bool last = true; for (size_t j = i + 1; j < want.size(); j++) if (want[j].addr == want[i].addr) last = false; if (!last) continue;
                        for (size_t q = 0; q < L.size(); q++) if (L[q].addr == want[i].addr) { Val real = L[q].get(node.obj); V rv = toV(real, want[i].v.t);
                            if (!(rv == want[i].v)) { snprintf(b, sizeof b, "op %d undo.seek(%+d): %s holds %s afterwards, the history says %s", opi, kk, want[i].addr.c_str(), real.str().c_str(), want[i].v.str().c_str()); fail("E2E-STATE", b); } } }
                } else { um.h.clear(); um.pos = 0; }
                break; }
            }
            if (!res.cls.empty()) break;
            trace(mix64(opi, node.dispatches)); trace(hist->getPos() * 64 + hist->size());
        }
        stat_add(ST_DISPATCHES, node.dispatches); stat_add(ST_SIM_MS, (uint64_t)((g_clock_ns - t0) / 1000000LL));
        delete hist; delete mgr;
        res.trace_hash = trace_value(); res.shape_hash = shape; res.nontrivial = nontrivial;
        return res;
    }
};
int main(int argc, char **argv) { NodeWorld w; return sim_main(argc, argv, w); }
