// w_midi — C20: a learned MIDI controller drives exactly its parameter, within its range.
// Parties: the non-realtime half (MidiMappernRT), the realtime half (MidiMapperRT), channel A (nRT->RT: add-watch,
// bind <snapshot>), channel B (RT->nRT: use-CC id), the user (map / unMap / clear), the MIDI device (CC id value).
// At every step the seeded plan picks one enabled event among {next user op, next MIDI event, deliver head of A,
// deliver head of B}: per-channel FIFO order is kept, the relative delay is arbitrary.  Faults: delay only.
// Real: src/cpp/midimapper.cpp (both halves, snapshots, bijection), ports.cpp (apropos, metadata), rtosc.c,
// port-sugar.h callbacks (every backend message is dispatched into a real object).  Stub: user, MIDI device, backend.
#include "../simkit/sim.h"
#include "../apps/appnode.h"
#include <rtosc/miditable.h>
#include <deque>
#include <memory>
#include <map>
#include <set>

using namespace sim;

enum { ST_RUNS, ST_OPS, ST_BACKEND, F_DELAY_A, F_DELAY_B, F_OVERTAKE, F_UNSAFE_MODE,
       P_ASSIGNED, P_DRIVEN, P_FINE, P_UNBOUND_SILENT, P_UNMAP_STOPS, P_QUEUE2, P_RELEARN, P_CLEAR, P_PAIR, P_CLOSING_LEARN, P_STALE_GEN_DRIVE, P_DUP_REQUEST, P_FOREIGN_POP, P_PENDING_LEAK, P_FINE_WEIGHT, P_VALUE_MEMORY, P_UNMAP_OTHER, P_OWN_PORTS, ST_N };
static const char *STAT_NAMES[ST_N] = { "runs", "ops", "backend_messages", "fault.delayed_delivery_nrt_to_rt", "fault.delayed_delivery_rt_to_nrt", "fault.user_or_midi_event_overtakes_message_in_flight", "runs.trigger_patterns_of_known_findings_allowed",
       "probe.controller_assigned_to_oldest_request", "probe.bound_controller_drives", "probe.fine_controller_learned", "probe.unassigned_controller_silent", "probe.unmapped_controller_silent", "probe.two_requests_queued", "probe.relearn_of_bound_address", "probe.clear",
       "probe.monotonic_pair", "probe.closing_phase_learn", "probe.drive_under_stale_generation", "trigger.duplicate_use_cc_request", "trigger.bind_pops_foreign_pending", "trigger.pending_leak_after_clear", "probe.coarse_fine_composition_checked", "probe.same_input_seen_again", "probe.pair_value_survives_unmap_of_other_address", "runs.realtime_half_wired_through_its_port_constructors" };

enum { U_MAP = 0, U_UNMAP, U_CLEAR, M_CC, M_PAIR, D_A, D_B };
static const char *ADDR[] = {"/pi", "/pf", "/pi_neg", "/pf_unit", "/pi7", "/sub/sf", "/odd/vol"};
static const int NADDR = 7;

struct Bind { int coarse = -1, fine = -1; };
typedef std::map<std::string, Bind> BindMap;
struct Msg { std::vector<char> raw; BindMap snap; bool is_bind = false, from_assign = false; int use_id = -1; };

struct MidiWorld : World {
    const char *name() const override { return "w_midi"; }
    std::vector<std::string> properties() const override { return {"C20"}; }
    std::vector<std::string> stat_names() const override { return std::vector<std::string>(STAT_NAMES, STAT_NAMES + ST_N); }
    std::vector<std::string> knob_names() const override { return {"addresses", "controllers", "allow_known_triggers", "first_address"}; }
    std::string components() const override { return "{\"real\": [\"src/cpp/midimapper.cpp (MidiMappernRT, MidiMapperRT, MidiMapperStorage, MidiBijection)\", \"src/cpp/ports.cpp (apropos, metadata)\", \"include/rtosc/port-sugar.h (backend messages are dispatched into a real object)\", \"src/rtosc.c\"], "
        "\"stub\": [\"user\", \"MIDI device\", \"the two message channels between the halves (FIFO, delay only)\", \"backend recorder\"]}"; }
    std::string rule() const override { return "one run = 2..4 addresses (int and float ranges incl. negative and the 0..127 special case) x 2..6 controller ids + one interleaved history (1..40 events) of user ops (map coarse/fine, unMap, clear), MIDI events (CC, monotonic pairs) and deliveries of the heads of the two channels between the halves, followed by a fault-free closing phase (drain, learn every still queued address with a fresh controller, drive every binding). "
        "Non-trivial = at least one controller was assigned or drove a parameter while a message was in flight; distinct = distinct hash of the event sequence."; }
    std::string describe(const Op &op) const override {
        char b[96];
        switch (op.kind) { case U_MAP: snprintf(b, sizeof b, "user:map(%s,%s)", ADDR[((op.a[0] % NADDR) + NADDR) % NADDR], op.a[1] & 1 ? "fine" : "coarse"); break; case U_UNMAP: snprintf(b, sizeof b, "user:unMap(%s,%s)", ADDR[((op.a[0] % NADDR) + NADDR) % NADDR], op.a[1] & 1 ? "fine" : "coarse"); break;
            case U_CLEAR: snprintf(b, sizeof b, "user:clear"); break; case M_CC: snprintf(b, sizeof b, "midi:cc(%s%lld,%lld)", op.a[3] % 5 == 1 ? "ch2:" : op.a[3] % 5 >= 2 ? (op.a[3] % 5 == 2 ? "nrpn:" : op.a[3] % 5 == 3 ? "nrpn+128:" : "nrpn+256:") : "", (long long)op.a[0], (long long)op.a[1]); break; case M_PAIR: snprintf(b, sizeof b, "midi:pair(%lld,%lld<=%lld)", (long long)op.a[0], (long long)op.a[1], (long long)op.a[2]); break;
            case D_A: snprintf(b, sizeof b, "deliver(nRT->RT)"); break; default: snprintf(b, sizeof b, "deliver(RT->nRT)"); }
        return b;
    }
    std::vector<Op> simpler(const Op &op) const override { std::vector<Op> v; if (op.kind == M_PAIR) { Op o = op; o.kind = M_CC; v.push_back(o); } if (op.kind == M_CC && op.a[1] != 64) { Op o = op; o.a[1] = 64; v.push_back(o); } if (op.kind == U_MAP && (op.a[1] & 1)) { Op o = op; o.a[1] = 0; v.push_back(o); } return v; }
    void gen(const std::string &, Rng &kr, Rng &pr, Knobs &k, Plan &p) override {
        k.assign(5, 0); k[4] = kr.chance(0.4); k[0] = 2 + kr.below(3); k[1] = 2 + kr.below(5); k[2] = kr.chance(0.5); /* (the knob used to gate the triggers of two known findings; both are repaired, half of the runs overtake freely now) */ k[3] = kr.below(NADDR);
        int na = (int)k[0], nc = (int)k[1]; int n = 1 + (int)pr.below(g_tier ? 100 : 40);
        // 6 % of the runs age the two halves first: 28..40 complete learn / use / unlearn cycles delivered in order, so that whatever the halves count or index per report
        // (the realtime half keeps its unanswered reports in a 32-cell ring) has wrapped when the history proper begins
        if (kr.chance(0.06)) { int cycles = 28 + (int)kr.below(13); k.push_back(cycles); int c0 = 2 + (int)kr.below(nc); bool same = kr.chance(0.5);
            for (int j = 0; j < cycles; j++) { Op m; m.kind = U_MAP; m.a[0] = 0; m.a[1] = 0; p.push_back(m); Op d; d.kind = D_A; p.push_back(d); p.push_back(d);
                Op c; c.kind = M_CC; c.a[0] = same ? c0 : 2 + ((c0 + j) % nc); c.a[1] = 1 + j % 120; c.a[3] = 0; p.push_back(c); Op e; e.kind = D_B; p.push_back(e); p.push_back(d); p.push_back(d);
                Op u; u.kind = U_UNMAP; u.a[0] = 0; p.push_back(u); p.push_back(d); p.push_back(d); p.push_back(e); } }
        double w_user = 0.15 + 0.2 * pr.unit(), w_midi = 0.25 + 0.3 * pr.unit(), w_del = 0.2 + 0.4 * pr.unit(); double tot = w_user + w_midi + w_del;
        for (int i = 0; i < n; i++) { Op o; double u = pr.unit() * tot;
            if ((u -= w_user) < 0) { double s = pr.unit(); o.kind = s < 0.65 ? U_MAP : s < 0.9 ? U_UNMAP : U_CLEAR; o.a[0] = pr.below(na); o.a[1] = pr.chance(0.25); }
            else if ((u -= w_midi) < 0) { o.kind = pr.chance(0.25) ? M_PAIR : M_CC; o.a[0] = pr.chance(0.06) ? 0 : 2 + pr.below(nc); /* (controller 0 is a controller like any other) */ o.a[3] = pr.chance(0.7) ? 0 : 1 + pr.below(4);   /* a[3]: 0 channel 1, 1 channel 2, 2..4 NRPN number, +128, +256 on channel 1 */ o.a[1] = pr.chance(0.2) ? pr.pick(std::vector<int64_t>{0, 127, 64}) : (int64_t)pr.below(128); if (o.kind == M_CC && pr.chance(0.3)) o.a[1] = -1; /* -1: send the value this controller sent last */ o.a[2] = pr.below(128); if (o.kind == M_PAIR && o.a[1] > o.a[2]) std::swap(o.a[1], o.a[2]); }
            else o.kind = pr.chance(0.5) ? D_A : D_B;
            p.push_back(o); }
    }

    Result exec(const std::string &, const Knobs &k, const Plan &plan, Choices &) override {
        Result res; stat_add(ST_RUNS);
        int na = (int)std::max<int64_t>(1, std::min<int64_t>(k.size() > 0 ? k[0] : 2, NADDR)); bool unsafe = k.size() > 2 && k[2]; if (unsafe) stat_add(F_UNSAFE_MODE); int a0 = k.size() > 3 ? (int)(((k[3] % NADDR) + NADDR) % NADDR) : 0;
        auto &L = app::leaves(); app::Node node; node.check = false;
        rtosc::MidiMappernRT *nrt = new rtosc::MidiMappernRT; rtosc::MidiMapperRT *rt = new rtosc::MidiMapperRT; nrt->base_ports = &app::App::ports;
        // 40 % of the runs wire the realtime half the older way: a table built from its (deprecated) per-object port constructors
        std::unique_ptr<rtosc::Ports> own_ports; if (k.size() > 4 && k[4]) { own_ports.reset(new rtosc::Ports{rt->addWatchPort(), rt->removeWatchPort(), rt->bindPort()}); stat_add(P_OWN_PORTS); }
        std::deque<Msg> chA, chB; std::vector<std::vector<char>> backend; char b[500];
        // ---- model
        BindMap mb; std::deque<std::pair<std::string, bool>> mq; BindMap gen;                 // nRT bindings, learn queue, RT's current generation
        std::deque<int> rt_pending; int rt_watch = 0; std::set<int> used_ids; bool nontrivial = false; uint64_t shape = 0; int opi = 0;
        std::string taint; bool model_trusted = true;
        std::map<int, int> id_of_ctrl, ctrl_of_id;                          // the id under which the realtime half reports a controller (learned from its use-CC messages)
        std::map<int, int> last_val;                                        // last value each controller sent
        struct Mem { int vc = -1, vf = -1; std::map<std::pair<int, int>, double> seen; }; std::map<std::string, Mem> mem;   // per address: known 14-bit inputs and the outputs they produced
        auto fail = [&](const char *cls, const std::string &d) { if (res.cls.empty()) { res.cls = cls; res.detail = d; } };
        auto add_taint = [&](const char *t) { if (taint.find(t) == std::string::npos) { taint += (taint.empty() ? "" : "+") + std::string(t); note(("taint=" + taint).c_str()); } };   // the note survives a crash of the run
        bool last_from_assign = false;
        nrt->rt_cb = [&](const char *m) { Msg x; size_t n = rtosc_message_length(m, 1024); x.raw.assign(m, m + n); x.is_bind = !strcmp(m, "/midi-learn/midi-bind"); x.snap = mb; x.from_assign = last_from_assign; chA.push_back(x); };
        rt->setFrontendCb([&](const char *m) { Msg x; size_t n = rtosc_message_length(m, 1024); x.raw.assign(m, m + n); if (!strcmp(m, "/midi-use-CC")) x.use_id = rtosc_argument(m, 0).i; chB.push_back(x); });
        rt->setBackendCb([&](const char *m) { size_t n = rtosc_message_length(m, 1024); backend.emplace_back(m, m + n); stat_add(ST_BACKEND); });
        auto leaf_of = [&](const std::string &a) -> const app::Leaf * { for (auto &l : L) if (l.addr == a) return &l; return nullptr; };
        auto id_owner = [&](const BindMap &m, int id, std::string &addr, bool &coarse) { int n = 0; for (auto &kv : m) { if (kv.second.coarse == id) { addr = kv.first; coarse = true; n++; } if (kv.second.fine == id) { addr = kv.first; coarse = false; n++; } } return n; };
        auto check_nrt_view = [&](const char *when) {
            if (!model_trusted) return;
            for (int i = 0; i < NADDR; i++) { std::string a = ADDR[i]; Bind w; auto it = mb.find(a); if (it != mb.end()) w = it->second; int c = nrt->getCoarse(a), f = nrt->getFine(a);
                if (c != w.coarse || f != w.fine) { snprintf(b, sizeof b, "op %d (%s): the non-realtime half reports %s bound to coarse %d / fine %d, it should be coarse %d / fine %d", opi, when, a.c_str(), c, f, w.coarse, w.fine); fail("ASSIGN", b); return; }
                bool pend = false; for (auto &q : mq) if (q.first == a) pend = true; if (nrt->hasPending(a) != pend) { snprintf(b, sizeof b, "op %d (%s): %s %s waiting for a controller, the model says it %s", opi, when, a.c_str(), nrt->hasPending(a) ? "is" : "is not", pend ? "is" : "is not"); fail("LEARN-QUEUE", b); return; } }
        };
        auto resync_model = [&]() { mb.clear(); for (int i = 0; i < NADDR; i++) { std::string a = ADDR[i]; int c = nrt->getCoarse(a), f = nrt->getFine(a); if (c != -1 || f != -1) { mb[a].coarse = c; mb[a].fine = f; } } mq.assign(nrt->learnQueue.begin(), nrt->learnQueue.end()); };
        // one MIDI event at the realtime half
        auto midi_cc = [&](int ctrl, int v, double *out, std::string *to) -> bool {
            // ctrl = controller number + 200 for channel 2 + 1000 for an NRPN controller: three different controllers in the sense of the statement
            backend.clear(); used_ids.insert(ctrl); last_val[ctrl] = v; bool nrpn = ctrl >= 1000; int par = nrpn ? ctrl - 1000 : ctrl % 200, chan = (!nrpn && ctrl >= 200) ? 2 : 1;
            int id = id_of_ctrl.count(ctrl) ? id_of_ctrl[ctrl] : -1;
            std::string addr; bool coarse = true; int owners = id >= 0 ? id_owner(gen, id, addr, coarse) : 0;
            // mirror of the watch/pending handshake (for trigger detection only)
            size_t b0 = chB.size();
            rt->handleCC(par, v, (char)chan, nrpn);
            if (chB.size() > b0 && chB.back().use_id >= 0) { int U = chB.back().use_id;
                if (ctrl_of_id.count(U) && ctrl_of_id[U] != ctrl) { snprintf(b, sizeof b, "op %d: two different controllers (%s%d on channel %d and controller code %d) are reported under the same id %d", opi, nrpn ? "NRPN " : "", par, chan, ctrl_of_id[U], U); fail("ID-COLLISION", b); return false; }
                ctrl_of_id[U] = ctrl; id_of_ctrl[ctrl] = U; }
            if (chB.size() > b0 && chB.back().use_id >= 0) { if (rt_watch > 0) rt_watch--; rt_pending.push_back(chB.back().use_id); }   // mirror of the handshake, from what the realtime half actually sent
            if (owners > 1) return true;      // only possible after a duplicate request (tainted): not judged
            if (owners == 0) { stat_add(P_UNBOUND_SILENT); if (!backend.empty() && model_trusted) { snprintf(b, sizeof b, "op %d: controller %d is not assigned in the realtime half's generation but produced a message to %s", opi, id, backend[0].data()); fail("CROSS-DRIVE", b); return false; } return true; }
            const app::Leaf *l = leaf_of(addr); if (!model_trusted) return true;
            if (backend.size() != 1) { snprintf(b, sizeof b, "op %d: controller %d is assigned to %s (%s) but value %d produced %zu message(s)%s%s", opi, id, addr.c_str(), coarse ? "coarse" : "fine", v, backend.size(), backend.empty() ? "" : ", first to ", backend.empty() ? "" : backend[0].data()); fail("DRIVE", b); return false; }
            const char *m = backend[0].data();
            if (addr != m) { snprintf(b, sizeof b, "op %d: controller %d is assigned to %s but drove %s", opi, id, addr.c_str(), m); fail("CROSS-DRIVE", b); return false; }
            char t = rtosc_type(m, 0); double val = t == 'f' ? rtosc_argument(m, 0).f : rtosc_argument(m, 0).i; double lo = atof(l->mn), hi = atof(l->mx);
            if ((t != 'i' && t != 'f') || !(val >= lo && val <= hi)) { snprintf(b, sizeof b, "op %d: controller %d value %d drove %s with %c %.9g outside [%g,%g]", opi, id, v, m, t, val, lo, hi); fail("RANGE", b); return false; }
            if (!node.apply_raw(m)) { snprintf(b, sizeof b, "op %d: message to %s (type %c) is not admitted by its port", opi, m, t); fail("TYPE", b); return false; }
            stat_add(P_DRIVEN); if (!chA.empty() || !chB.empty()) nontrivial = true; if (out) *out = val; if (to) *to = addr;
            bool stale_drive; { std::string a2; bool c2; stale_drive = id_owner(mb, id, a2, c2) != 1 || a2 != addr || c2 != coarse; }   // the realtime half still acts on a generation the other half has left
            if (!stale_drive) { // the same 14-bit controller value produces the same output, whatever happened to OTHER addresses in between (a drive under a stale generation is no input of the binding that replaces it)
                Mem &mm = mem[addr]; if (coarse) mm.vc = v; else mm.vf = v; Bind gb = gen[addr]; bool know = (gb.coarse < 0 || mm.vc >= 0) && (gb.fine < 0 || mm.vf >= 0) && gb.coarse >= 0;
                if (know) { auto key = std::make_pair(mm.vc, gb.fine < 0 ? 0 : mm.vf); auto itS = mm.seen.find(key);
                    for (auto &sv : mm.seen) if ((sv.first < key && sv.second > val) || (key < sv.first && sv.second < val)) { snprintf(b, sizeof b, "op %d: %s: (coarse %d, fine %d) produced %.9g but (coarse %d, fine %d) produced %.9g: the output does not grow with the 14-bit controller value", opi, addr.c_str(), key.first, key.second, val, sv.first.first, sv.first.second, sv.second); fail("MONOTONIC-14", b); return false; }
                    if (itS == mm.seen.end()) mm.seen[key] = val; else { stat_add(P_VALUE_MEMORY); if (itS->second != val) { snprintf(b, sizeof b, "op %d: %s: coarse value %d, fine value %d produced %.9g earlier and %.9g now although its controllers never changed (the stored 14-bit value was lost when another address was mapped or unmapped)", opi, addr.c_str(), key.first, key.second, itS->second, val); fail("VALUE-MEMORY", b); return false; } } } }
            { std::string a2; bool c2; if (id_owner(mb, id, a2, c2) != 1 || a2 != addr) stat_add(P_STALE_GEN_DRIVE); }
            return true;
        };
        auto deliver_A = [&]() { if (chA.empty()) return; Msg x = chA.front(); chA.pop_front(); const char *m = x.raw.data();
            if (x.is_bind) { if (!x.from_assign && !rt_pending.empty()) stat_add(P_FOREIGN_POP);   // a snapshot that answers no report arrives while a report is pending (was the trigger of a finding repaired since)
                // a snapshot retires exactly the pending controllers it maps
                for (auto it = rt_pending.begin(); it != rt_pending.end();) { std::string a_; bool c_; if (id_owner(x.snap, *it, a_, c_) > 0) it = rt_pending.erase(it); else ++it; }
                gen = x.snap; } else if (!strcmp(m, "/midi-learn/midi-add-watch")) rt_watch++;
            else if (!strcmp(m, "/midi-learn/midi-remove-watch") && !rtosc_narguments(m)) { if (rt_watch > 0) rt_watch--; }   // a dropped request gives its watch back
            else if (!strcmp(m, "/midi-learn/midi-unuse-CC") || !strcmp(m, "/midi-learn/midi-remove-watch")) { int id_ = rtosc_argument(m, 0).i; for (auto it = rt_pending.begin(); it != rt_pending.end(); ++it) if (*it == id_) { rt_pending.erase(it); break; } }   // nobody waited for the reported controller
            rtosc::RtData d; d.obj = rt; char loc[128] = ""; d.loc = loc; d.loc_size = sizeof loc; (own_ports ? *own_ports : rtosc::MidiMapperRT::ports).dispatch(m + strlen("/midi-learn/"), d); };
        auto deliver_B = [&]() { if (chB.empty()) return; Msg x = chB.front(); chB.pop_front(); if (x.use_id < 0) return; int id = x.use_id;
            std::string a; bool c; bool dup = id_owner(mb, id, a, c) > 0;
            if (mq.empty()) { last_from_assign = false; nrt->useFreeID(id); check_nrt_view("use-CC with nothing queued"); return; }   // nothing to assign; whether the controller stays learnable is judged in the closing phase
            // a report for a controller that is assigned already (the realtime half had not seen the snapshot yet when the controller moved again): it is not free, the
            // oldest request keeps waiting and gets its watch back
            if (dup) { stat_add(P_DUP_REQUEST); snprintf(b, sizeof b, "op %d: controller %d is already assigned to %s, yet the realtime half reported it as free again while nothing had retired its first report", opi, id, a.c_str()); fail("DUPLICATE-REQUEST", b); return; }
            auto front = mq.front(); mq.pop_front(); mem.erase(front.first); if (front.second) mb[front.first].coarse = id; else { mb[front.first].fine = id; stat_add(P_FINE); }
            last_from_assign = true; nrt->useFreeID(id); last_from_assign = false; stat_add(P_ASSIGNED); if (!chA.empty()) nontrivial = true;
            check_nrt_view("controller assigned to the oldest request"); };
        auto drain = [&]() { for (int g = 0; g < 200 && (!chA.empty() || !chB.empty()); g++) { if (!chA.empty()) deliver_A(); if (!chB.empty()) deliver_B(); } };
        auto user_op = [&](int kind, const std::string &a, bool coarse) {
            bool emits_bind = false; auto it = mb.find(a);
            if (kind == U_MAP) { for (auto &q : mq) if (q.first == a && q.second == coarse) return;   // already queued: nothing happens
                if (it != mb.end() && (coarse ? it->second.coarse : it->second.fine) != -1) { emits_bind = true; stat_add(P_RELEARN); } }
            if (kind == U_UNMAP) emits_bind = it != mb.end() && (coarse ? it->second.coarse : it->second.fine) != -1;
            if (kind == U_CLEAR) emits_bind = true;
            // the trigger patterns of the known findings are only constructed when the knob allows it
            if (!unsafe && emits_bind) { drain(); it = mb.find(a); }
            if (!unsafe && kind == U_CLEAR && (!mq.empty() || rt_watch > 0 || !rt_pending.empty())) return;
            if ((!chA.empty() || !chB.empty())) stat_add(F_OVERTAKE);
            if (kind == U_CLEAR) mem.clear(); else mem.erase(a);
            last_from_assign = false;
            if (kind == U_MAP) { if (it != mb.end()) { if (coarse) it->second.coarse = -1; else it->second.fine = -1; if (it->second.coarse == -1 && it->second.fine == -1) mb.erase(it); } mq.push_back({a, coarse}); if (mq.size() >= 2) stat_add(P_QUEUE2); nrt->map(a.c_str(), coarse); }
            else if (kind == U_UNMAP) { if (it != mb.end()) { if (coarse) it->second.coarse = -1; else it->second.fine = -1; if (it->second.coarse == -1 && it->second.fine == -1) mb.erase(it); } nrt->unMap(a.c_str(), coarse); }
            else { stat_add(P_CLEAR); bool inflight = !rt_pending.empty(); for (auto &mm : chA) if (!mm.is_bind) inflight = true; for (auto &mm : chB) if (mm.use_id >= 0) inflight = true;
                if (rt_watch > 0 || !mq.empty() || inflight) stat_add(P_PENDING_LEAK);   // clear() while the realtime half still watches or holds a report (was the trigger of a finding repaired since)
                mb.clear(); mq.clear(); nrt->clear(); }
            for (auto &mm : chA) if (mm.is_bind && mm.snap.empty() && !mb.empty() && false) mm.snap = mb;
            // binds emitted by this op carry the bindings as they are now
            for (auto itA = chA.rbegin(); itA != chA.rend(); ++itA) { if (!itA->is_bind) continue; itA->snap = mb; break; }
            check_nrt_view(kind == U_MAP ? "map" : kind == U_UNMAP ? "unMap" : "clear");
        };

        for (auto &op : plan) {
            opi++; stat_add(ST_OPS); shape = mix64(shape, op.kind * 1009 + (uint64_t)op.a[0] * 17 + (uint64_t)op.a[1]);
            switch (op.kind) {
            case U_MAP: case U_UNMAP: case U_CLEAR: user_op(op.kind, ADDR[(a0 + (((op.a[0] % na) + na) % na)) % NADDR], !(op.a[1] & 1)); break;
            case M_CC: { if (!chA.empty() || !chB.empty()) stat_add(F_OVERTAKE); int id = (int)(((op.a[0] % 120) + 120) % 120) + (op.a[3] % 5 == 1 ? 200 : op.a[3] % 5 >= 2 ? 1000 + 128 * (int)(op.a[3] % 5 - 2) : 0); int v = op.a[1] < 0 ? (last_val.count(id) ? last_val[id] : 64) : (int)(op.a[1] % 128); midi_cc(id, v, nullptr, nullptr); break; }
            case M_PAIR: { int id = (int)(((op.a[0] % 120) + 120) % 120) + (op.a[3] % 5 == 1 ? 200 : op.a[3] % 5 >= 2 ? 1000 + 128 * (int)(op.a[3] % 5 - 2) : 0), v1 = (int)(((op.a[1] % 128) + 128) % 128), v2 = (int)(((op.a[2] % 128) + 128) % 128); if (v1 > v2) std::swap(v1, v2);
                double o1 = 0, o2 = 0; std::string a1, a2; if (midi_cc(id, v1, &o1, &a1) && midi_cc(id, v2, &o2, &a2) && !a1.empty() && a1 == a2 && model_trusted) { stat_add(P_PAIR); if (o2 < o1) { snprintf(b, sizeof b, "op %d: controller %d: value fell from %.9g to %.9g when the controller value rose from %d to %d (%s)", opi, id, o1, o2, v1, v2, a1.c_str()); fail("MONOTONIC", b); } }
                break; }
            case D_A: if (chA.size() > 0) { if (chA.size() > 1 || !chB.empty()) stat_add(F_DELAY_A); deliver_A(); } break;
            case D_B: if (chB.size() > 0) { if (chB.size() > 1 || !chA.empty()) stat_add(F_DELAY_B); deliver_B(); } break;
            }
            if (!res.cls.empty()) break;
            trace(mix64(opi, backend.size())); trace(mix64(chA.size(), chB.size()));
        }
        // ---- closing phase: no more delays
        if (res.cls.empty()) {
            opi = 1000; drain();
            // every address still waiting learns a controller that was never used (bounded liveness once delays stop)
            int fresh = 100;
            for (int guard = 0; guard < 8 && res.cls.empty() && !mq.empty(); guard++) {
                auto want = mq.front(); int id = fresh++; opi++;
                midi_cc(id, 64, nullptr, nullptr); drain(); stat_add(P_CLOSING_LEARN);
                if (!res.cls.empty()) break;
                int got = want.second ? nrt->getCoarse(want.first) : nrt->getFine(want.first);
                if (!id_of_ctrl.count(id) || got != id_of_ctrl[id]) { snprintf(b, sizeof b, "closing phase: %s asked for a %s controller and the fresh controller %d arrived with all channels drained, but it is bound to %d (realtime half: watch count %u, %d pending)", want.first.c_str(), want.second ? "coarse" : "fine", id, got, rt->watchSize, rt->pending.size); fail("LEARN-LIVENESS", b); break; }
                double o = 0; std::string to; midi_cc(id, 100, &o, &to); if (res.cls.empty() && to != want.first) { snprintf(b, sizeof b, "closing phase: controller %d was learned for %s but its next value drove '%s'", id, want.first.c_str(), to.c_str()); fail("DRIVE", b); }
            }
            // quiescent strong form: every binding the non-realtime half reports is driven by its controller, nothing else is
            if (res.cls.empty() && model_trusted) for (auto &kv : mb) for (int half = 0; half < 2 && res.cls.empty(); half++) { int iid = half ? kv.second.fine : kv.second.coarse; if (iid < 0 || !ctrl_of_id.count(iid)) continue; int id = ctrl_of_id[iid]; opi++; std::string to; double o; midi_cc(id, 37, &o, &to);
                if (res.cls.empty() && to != kv.first) { snprintf(b, sizeof b, "quiescent: %s is bound to controller %d but its value drove '%s'", kv.first.c_str(), id, to.c_str()); fail("QUIESCENT", b); } }
            // 14-bit composition: the full swing of the fine controller weighs less than one step of the coarse one
            if (res.cls.empty() && model_trusted) for (auto &kv : mb) { if (kv.second.coarse < 0 || kv.second.fine < 0 || !ctrl_of_id.count(kv.second.coarse) || !ctrl_of_id.count(kv.second.fine)) continue; int c = ctrl_of_id[kv.second.coarse], f = ctrl_of_id[kv.second.fine]; double o0, o1, o2, o3; std::string t; opi++;
                if (!(midi_cc(c, 10, &o0, &t) && midi_cc(f, 0, &o0, &t) && midi_cc(f, 127, &o1, &t) && midi_cc(c, 11, &o2, &t) && midi_cc(f, 0, &o3, &t))) break; stat_add(P_FINE_WEIGHT);
                if (!(o0 <= o1 && o1 <= o3 && o3 <= o2)) { snprintf(b, sizeof b, "quiescent: %s coarse %d fine %d: (coarse 10, fine 0) -> %.9g, (10,127) -> %.9g, (11,0) -> %.9g, (11,127) -> %.9g: not ordered as the 14-bit value", kv.first.c_str(), c, f, o0, o1, o3, o2); fail("FINE-WEIGHT", b); } }
            if (res.cls.empty() && model_trusted) for (int ctrl : used_ids) { std::string a; bool c; int id = id_of_ctrl.count(ctrl) ? id_of_ctrl[ctrl] : -1; if (id < 0 || id_owner(mb, id, a, c) == 0) { opi++; backend.clear(); rt->handleCC(ctrl >= 1000 ? ctrl - 1000 : ctrl % 200, 5, (char)((ctrl < 1000 && ctrl >= 200) ? 2 : 1), ctrl >= 1000); if (!backend.empty()) { snprintf(b, sizeof b, "quiescent: controller %d is assigned to nothing (unmapped or never assigned) but drove %s", id, backend[0].data()); fail("CROSS-DRIVE", b); break; } stat_add(P_UNMAP_STOPS); } }
            // unmapping ANOTHER address leaves a coarse+fine pair's stored 14-bit value alone ("other addresses' bindings are unaffected")
            if (res.cls.empty() && model_trusted) { std::string pairaddr, other; bool other_coarse = true;
                for (auto &kv : mb) if (kv.second.coarse >= 0 && kv.second.fine >= 0) pairaddr = kv.first;
                for (auto &kv : mb) if (kv.first != pairaddr && !pairaddr.empty()) { other = kv.first; other_coarse = kv.second.coarse >= 0; }
                if (!pairaddr.empty() && !other.empty() && ctrl_of_id.count(mb[pairaddr].coarse) && ctrl_of_id.count(mb[pairaddr].fine)) { Bind pb; pb.coarse = ctrl_of_id[mb[pairaddr].coarse]; pb.fine = ctrl_of_id[mb[pairaddr].fine]; double oa = 0, ob = 0; std::string t; opi++;
                    if (midi_cc(pb.coarse, 90, &oa, &t) && midi_cc(pb.fine, 33, &oa, &t)) { user_op(U_UNMAP, other, other_coarse); drain();
                        if (res.cls.empty() && midi_cc(pb.fine, 33, &ob, &t) && res.cls.empty()) { stat_add(P_UNMAP_OTHER); if (oa != ob) { snprintf(b, sizeof b, "closing phase: %s (coarse 90, fine 33) produced %.9g; after unmapping the unrelated %s the same fine value produced %.9g", pairaddr.c_str(), oa, other.c_str(), ob); fail("VALUE-MEMORY", b); } } } } }
            // a controller that was used before but is assigned to nothing must still be learnable
            if (res.cls.empty() && model_trusted) { drain(); for (int id : used_ids) { std::string a; bool c; if (id_of_ctrl.count(id) && id_owner(mb, id_of_ctrl[id], a, c) != 0) continue; std::string target; for (int i = 0; i < na; i++) if (!mb.count(ADDR[(a0 + i) % NADDR])) { target = ADDR[(a0 + i) % NADDR]; break; } if (target.empty()) break; opi++;
                    user_op(U_MAP, target, true); drain(); midi_cc(id, 9, nullptr, nullptr); drain(); if (!res.cls.empty()) break;
                    if (!id_of_ctrl.count(id) || nrt->getCoarse(target) != id_of_ctrl[id]) { snprintf(b, sizeof b, "closing phase: %s asked for a controller and the unassigned controller %d arrived with all channels drained, but %s is bound to %d (realtime half: watch count %u, %d pending, %s)", target.c_str(), id, target.c_str(), nrt->getCoarse(target), rt->watchSize, rt->pending.size, rt->pending.has(id) ? "this controller is parked in the pending set" : "not parked"); fail("LEARN-LIVENESS", b); }
                    break; } }
        }
        res.taint = res.cls.empty() ? "" : taint;
        // the halves leak their snapshots by design ("TODO memory deallocation"); the objects themselves are ours
        delete nrt; delete rt;
        res.trace_hash = trace_value(); res.shape_hash = shape; res.nontrivial = nontrivial;
        return res;
    }
};
int main(int argc, char **argv) { MidiWorld w; return sim_main(argc, argv, w); }
