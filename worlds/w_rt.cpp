// w_rt — C03: once tables and links are constructed, the message path never allocates and never locks.
// A UI party produces messages into a ThreadLink; the simulated realtime party consumes them, dispatches them into
// several port trees (perfect-hash table, linear-fallback table, #N tables, nested sub-trees three levels deep, a
// cloned table with a default handler, every macro-generated parameter kind, hand-written ports without location
// buffer) and forwards replies/broadcasts into a second ThreadLink — the shape of a real audio callback.  Everything
// the realtime party does runs inside an RtSection; the allocator family and pthread_mutex_lock are interposed by the
// executable (seams/alloc_seam.cpp).  Plain build (no ASan: it would own the allocator).
// Real: everything under /repo/src that the statement names.  Stub: UI party, allocator accounting.
// Allocation does not depend on the interleaving; what the simulator adds is the section boundary tied to the
// realtime party, ring states reached by the UI/RT op order, and a shared seam.
#include "../simkit/sim.h"
#include "../apps/appnode.h"
#include "../seams/alloc_seam.h"
#include <rtosc/thread-link.h>
#include <rtosc/arg-val.h>
#include <execinfo.h>
#include <cstdarg>

using namespace sim;

enum { ST_RUNS, ST_OPS, ST_RT_DISPATCH, ST_RT_DIRECT, ST_ALLOC_OUTSIDE, F_OVERSIZE_MSG, F_OVERSIZE_REPLY, F_RING_FULL, F_NO_MATCH, F_WRONG_TYPE,
       P_HASHED, P_LINEAR, P_ENUM, P_NESTED3, P_DEFAULT_HANDLER, P_NOLOC, P_MACRO_SET, P_MACRO_QUERY, P_REPLY_FWD, P_BUNDLE, P_MATCH, P_ITER, P_LINK, P_WIDE, P_NO_CALLBACK, ST_N };
static const char *STAT_NAMES[ST_N] = { "runs", "ops", "rt_dispatches", "rt_direct_calls", "allocator_calls_outside_rt", "fault.message_larger_than_maxmsg", "fault.reply_larger_than_8192", "fault.ring_full", "fault.message_matches_nothing", "fault.wrong_argument_types",
       "probe.hashed_table_dispatch", "probe.linear_fallback_dispatch", "probe.enumerated_port_dispatch", "probe.three_level_dispatch", "probe.default_handler", "probe.dispatch_without_location", "probe.macro_port_set", "probe.macro_port_query",
       "probe.reply_forwarded_to_link", "probe.bundle_built_and_read", "probe.pattern_match", "probe.iterator", "probe.private_link_cycle", "probe.variadic_message_over_32_values", "probe.message_to_a_port_without_callback" };

// ---- extra port trees -------------------------------------------------------------------------------------------
struct Counter { int hits = 0; int last = 0; };
struct L3 { int x = 0; static const rtosc::Ports ports; };
struct L2 { L3 c; int y = 0; static const rtosc::Ports ports; };
struct L1 { L2 b; static const rtosc::Ports ports; };
#define rObject L3
const rtosc::Ports L3::ports = { rParamI(x, rLinear(0, 10), "leaf") };
#undef rObject
#define rObject L2
const rtosc::Ports L2::ports = { rRecur(c, "level 3"), rParamI(y, "level 2 value") };
#undef rObject
#define rObject L1
const rtosc::Ports L1::ports = { rRecur(b, "level 2") };
#undef rObject

static void hit(const char *m, rtosc::RtData &d) { Counter *c = (Counter *)d.obj; c->hits++; if (rtosc_narguments(m) && rtosc_type(m, 0) == 'i') c->last = rtosc_argument(m, 0).i; if (d.loc) d.reply(d.loc, "i", c->hits); }
static char g_big[9000];
// duplicate names with different type specs defeat the perfect-hash search: linear fallback
static const rtosc::Ports lin_ports = {
    {"dup:i", "", 0, hit}, {"dup:f", "", 0, hit}, {"dup:s", "", 0, hit}, {"other:", "", 0, hit}, {"any", "", 0, hit}, {"label::s", ":documentation\0=metadata only, no callback\0", 0, nullptr},
    {"big:", "", 0, [](const char *, rtosc::RtData &d) { d.reply("/big-reply", "s", g_big); }},
};
static const rtosc::Ports enum_ports = { {"ch#16/gain:i", "", 0, hit}, {"ch#16/mute:T:F", "", 0, hit}, {"bus#4:i", "", 0, hit}, {"envelope_point_dt#8:i", "", 0, hit}, {"oscillator_bank#12/level:i", "", 0, hit}, {"tag#4::s", ":documentation\0=metadata only, no callback\0", 0, nullptr} };
static const rtosc::Ports long_sub_ports = { {"inner_parameter_with_a_long_name:i", "", 0, hit}, {"x:i", "", 0, hit} };
static const rtosc::Ports hashed_ports = { {"a_port_name_longer_than_sixteen_characters:i", "", 0, hit}, {"another_quite_long_port_name_for_the_hash:f", "", 0, hit}, {"subtree_with_a_long_name/", "", &long_sub_ports, [](const char *m, rtosc::RtData &d) { while (*m && *m != '/') ++m; if (*m) ++m; long_sub_ports.dispatch(m, d); }}, {"alpha:i", "", 0, hit}, {"beta:i", "", 0, hit}, {"gamma:f", "", 0, hit}, {"delta:", "", 0, hit}, {"epsilon:s", "", 0, hit}, {"zeta:ii", "", 0, hit}, {"eta:b", "", 0, hit}, {"theta", "", 0, hit} };
static Counter g_cap_a, g_cap_b, g_cap_c;
static const rtosc::ClonePorts clone2_ports(hashed_ports, { {"beta:i", [pa = &g_cap_a](const char *, rtosc::RtData &) { pa->hits++; }},
    {"*", [pa = &g_cap_a, pb = &g_cap_b, pc = &g_cap_c](const char *, rtosc::RtData &) { pa->hits++; pb->hits++; pc->hits++; }} });   // a default handler whose closure does not fit std::function's inline storage
static const rtosc::ClonePorts clone_ports(hashed_ports, { {"alpha:i", [](const char *, rtosc::RtData &d) { ((Counter *)d.obj)->hits += 100; }}, {"*", [](const char *, rtosc::RtData &d) { ((Counter *)d.obj)->hits += 1000; }} });

struct Rig { app::App appobj; L1 deep; Counter lin, en, hs, cl, raw; };
#define SNIPM while (*m && *m != '/') ++m; m = *m ? m + 1 : m;
static const rtosc::Ports root_ports = {
    {"app/", "", &app::App::ports, [](const char *m, rtosc::RtData &d) { Rig *r = (Rig *)d.obj; d.obj = &r->appobj; SNIPM app::App::ports.dispatch(m, d); }},
    {"deep/", "", &L1::ports, [](const char *m, rtosc::RtData &d) { Rig *r = (Rig *)d.obj; d.obj = &r->deep; SNIPM L1::ports.dispatch(m, d); }},
    {"lin/", "", &lin_ports, [](const char *m, rtosc::RtData &d) { Rig *r = (Rig *)d.obj; d.obj = &r->lin; SNIPM lin_ports.dispatch(m, d); }},
    {"enum/", "", &enum_ports, [](const char *m, rtosc::RtData &d) { Rig *r = (Rig *)d.obj; d.obj = &r->en; SNIPM enum_ports.dispatch(m, d); }},
    {"hash/", "", &hashed_ports, [](const char *m, rtosc::RtData &d) { Rig *r = (Rig *)d.obj; d.obj = &r->hs; SNIPM hashed_ports.dispatch(m, d); }},
    {"clone/", "", &clone_ports, [](const char *m, rtosc::RtData &d) { Rig *r = (Rig *)d.obj; d.obj = &r->cl; SNIPM clone_ports.dispatch(m, d); }},
    {"clone2/", "", &clone2_ports, [](const char *m, rtosc::RtData &d) { Rig *r = (Rig *)d.obj; d.obj = &r->cl; SNIPM clone2_ports.dispatch(m, d); }},
};

struct RtOut : rtosc::RtData {
    rtosc::ThreadLink *out; uint64_t forwarded = 0, oversize = 0; char locbuf[256];
    RtOut(rtosc::ThreadLink *o, bool with_loc) : out(o) { memset(locbuf, 0, sizeof locbuf); if (with_loc) { loc = locbuf; loc_size = sizeof locbuf; } }
    using rtosc::RtData::reply; using rtosc::RtData::broadcast;
    void reply(const char *m) override { if (!*m) { oversize++; return; } out->raw_write(m); forwarded++; }
    void broadcast(const char *m) override { reply(m); }
};

enum { UI_SEND = 0, RT_TICK, RT_DIRECT, UI_DRAIN };
enum { M_APP_SET = 0, M_APP_QUERY, M_APP_BADTYPE, M_NOMATCH, M_DEEP, M_LIN, M_ENUM, M_HASH, M_CLONE, M_BIGADDR, M_BIGREPLY, M_ALLTAGS, M_MANYARGS, M_NKINDS };

struct RtWorld : World {
    const char *name() const override { return "w_rt"; }
    std::vector<std::string> properties() const override { return {"C03"}; }
    std::vector<std::string> stat_names() const override { return std::vector<std::string>(STAT_NAMES, STAT_NAMES + ST_N); }
    std::vector<std::string> knob_names() const override { return {"maxmsg", "ring_msgs", "with_location"}; }
    std::string components() const override { return "{\"real\": [\"src/rtosc.c\", \"src/dispatch.c\", \"src/cpp/ports.cpp (dispatch: hashed, linear, enumerated, default handler; RtData::reply/broadcast)\", \"src/cpp/thread-link.cpp\", \"include/rtosc/port-sugar.h (all macro callback kinds)\", \"src/cpp/arg-val.c\"], "
        "\"stub\": [\"UI party\", \"allocator/mutex accounting (interposed malloc family, pthread_mutex_lock)\"]}"; }
    std::string rule() const override { return "one run = ring geometry + an interleaved history (1..60 ops) of UI sends (12 message kinds: macro-port sets/queries, wrong types, non-matching at each level, 3-level recursion, linear-fallback / enumerated / hashed / cloned tables, oversize address, oversize reply, all type tags), realtime ticks that read, dispatch and forward replies, and direct realtime calls (build, measure, validate, accessors, iterator, match, bundles, private link); "
        "every allocator-family or mutex call made inside the realtime section is a violation. Non-trivial = at least one dispatch reached a port inside the section; distinct = distinct hash of the op sequence."; }
    std::string describe(const Op &op) const override {
        static const char *mk[] = {"app_set", "app_query", "app_badtype", "nomatch", "deep", "lin", "enum", "hash", "clone", "bigaddr", "bigreply", "alltags", "manyargs"}; char b[96];
        switch (op.kind) { case UI_SEND: snprintf(b, sizeof b, "UI:send(%s,%lld,via=%lld)", mk[((op.a[0] % M_NKINDS) + M_NKINDS) % M_NKINDS], (long long)op.a[1], (long long)op.a[2]); break;
            case RT_TICK: snprintf(b, sizeof b, "RT:tick(%lld)", (long long)op.a[0]); break; case RT_DIRECT: snprintf(b, sizeof b, "RT:direct(%lld)", (long long)op.a[0]); break; default: snprintf(b, sizeof b, "UI:drain"); }
        return b;
    }
    void gen(const std::string &, Rng &kr, Rng &pr, Knobs &k, Plan &p) override {
        k.assign(3, 0); k[0] = kr.pick(std::vector<int64_t>{48, 64, 128, 256, 1024}); k[1] = 1 + kr.below(8); k[2] = kr.chance(0.8);
        int n = 1 + (int)pr.below(g_tier ? 150 : 60);
        for (int i = 0; i < n; i++) { Op o; double u = pr.unit();
            if (u < 0.5) { o.kind = UI_SEND; o.a[0] = pr.below(M_NKINDS); o.a[1] = (int64_t)pr.below(100000); o.a[2] = pr.below(3); }
            else if (u < 0.8) { o.kind = RT_TICK; o.a[0] = 1 + pr.below(6); }
            else if (u < 0.95) { o.kind = RT_DIRECT; o.a[0] = pr.below(8); o.a[1] = pr.chance(0.5) ? 28 + pr.below(10) : pr.below(65); o.a[2] = pr.below(8); }
            else o.kind = UI_DRAIN;
            p.push_back(o); }
    }

    Result exec(const std::string &, const Knobs &k, const Plan &plan, Choices &) override {
        Result res; stat_add(ST_RUNS); rtmon::warm_up();
        size_t maxmsg = (size_t)std::max<int64_t>(32, std::min<int64_t>(k.size() > 0 ? k[0] : 128, 4096)), nm = (size_t)std::max<int64_t>(1, std::min<int64_t>(k.size() > 1 ? k[1] : 4, 16)); bool with_loc = k.size() > 2 ? k[2] != 0 : true;
        // ---- construction phase (allowed to allocate)
        uint64_t out0 = rtmon::allocs_out + rtmon::frees_out;
        if (!g_big[0]) { memset(g_big, 'z', sizeof g_big - 1); }
        Rig *rig = new Rig; rtosc::ThreadLink *u2b = new rtosc::ThreadLink(maxmsg, nm), *b2u = new rtosc::ThreadLink(8192 + 64, 4), *priv = new rtosc::ThreadLink(64, 4);
        RtOut *d = new RtOut(b2u, with_loc); Counter *rawc = &rig->raw;
        auto &L = app::leaves(); uint64_t shape = mix64(maxmsg, nm); bool reached = false;
        char m1[64], m2[64]; rtosc_message(m1, sizeof m1, "/one", "i", 1); rtosc_message(m2, sizeof m2, "/two", "sf", "str", 2.0);
        static char lastmsg[8300]; size_t n0 = rtosc_message(lastmsg, sizeof lastmsg, "/seed", "ifs", 3, 1.5, "abc"); (void)n0;
        rtmon::reset();
        int opi = 0;
        for (auto &op : plan) {
            opi++; stat_add(ST_OPS); shape = mix64(shape, op.kind * 131 + (uint64_t)op.a[0] * 7 + (op.kind == UI_SEND ? (uint64_t)op.a[2] : 0));
            if (op.kind == UI_SEND) {
                // the UI party builds its message outside the realtime section (it may allocate) and writes it to the link
                int kind = (int)(((op.a[0] % M_NKINDS) + M_NKINDS) % M_NKINDS); Rng r((uint64_t)op.a[1] + 99); char buf[9300]; size_t len = 0; char addr[600];
                switch (kind) {
                case M_APP_SET: case M_APP_QUERY: case M_APP_BADTYPE: { const app::Leaf &l = L[r.below(L.size())]; snprintf(addr, sizeof addr, "/app%s", l.addr.c_str());
                    if (kind == M_APP_QUERY) len = rtosc_message(buf, sizeof buf, addr, "");
                    else if (kind == M_APP_BADTYPE) { len = rtosc_message(buf, sizeof buf, addr, "hd", (int64_t)5, 2.0); stat_add(F_WRONG_TYPE); }
                    else switch (l.kind) { case app::K_PARAM_C: len = rtosc_message(buf, sizeof buf, addr, "c", (int)r.below(200) - 40); break; case app::K_PARAM_I: case app::K_ARR_I: len = rtosc_message(buf, sizeof buf, addr, "i", (int)r.below(3000) - 1500); break;
                        case app::K_PARAM_F: len = rtosc_message(buf, sizeof buf, addr, "f", (double)r.below(2000) / 100.0 - 10); break; case app::K_TOGGLE: len = rtosc_message(buf, sizeof buf, addr, r.chance(0.5) ? "T" : "F"); break;
                        case app::K_OPTION: if (r.chance(0.2)) len = rtosc_message(buf, sizeof buf, addr, "S", "no_such_option_symbol_at_all"); else if (r.chance(0.5)) len = rtosc_message(buf, sizeof buf, addr, "S", l.opts[r.below(l.opts.size())].c_str()); else len = rtosc_message(buf, sizeof buf, addr, "i", (int)r.below(6) - 1); break;
                        case app::K_STRING: len = rtosc_message(buf, sizeof buf, addr, "s", "some string value that is long"); break; }
                    break; }
                case M_NOMATCH: { static const char *nm_[] = {"/nope", "/app/nope", "/app/sub/nope", "/app/subs7/si", "/app/subs1/nope", "/deep/b/c/zz", "/deep/b/q/x", "/enum/ch16/gain", "/enum/ch3/nope", "/hash/alph", "/hash/alphaa", "/lin/du", "/", "/app"};
                    len = rtosc_message(buf, sizeof buf, nm_[r.below(14)], "i", 1); stat_add(F_NO_MATCH); break; }
                case M_DEEP: len = r.chance(0.5) ? rtosc_message(buf, sizeof buf, "/deep/b/c/x", "i", (int)r.below(20) - 5) : rtosc_message(buf, sizeof buf, r.chance(0.5) ? "/deep/b/c/x" : "/deep/b/y", ""); break;
                case M_LIN: { int w = (int)r.below(8); if (w >= 6) { len = w == 6 ? rtosc_message(buf, sizeof buf, "/lin/label", "s", "x") : rtosc_message(buf, sizeof buf, "/enum/tag2", ""); stat_add(P_NO_CALLBACK); break; } len = w == 0 ? rtosc_message(buf, sizeof buf, "/lin/dup", "i", 7) : w == 1 ? rtosc_message(buf, sizeof buf, "/lin/dup", "f", 1.0) : w == 2 ? rtosc_message(buf, sizeof buf, "/lin/dup", "s", "x") : w == 3 ? rtosc_message(buf, sizeof buf, "/lin/other", "") : w == 4 ? rtosc_message(buf, sizeof buf, "/lin/dup", "h", (int64_t)1) : rtosc_message(buf, sizeof buf, "/lin/any", "TFNI"); break; }
                case M_ENUM: { static const char *f_[] = {"/enum/ch%d/gain", "/enum/bus%d", "/enum/envelope_point_dt%d", "/enum/oscillator_bank%d/level"}; snprintf(addr, sizeof addr, f_[r.below(4)], (int)r.below(20)); len = rtosc_message(buf, sizeof buf, addr, "i", 3); break; }
                case M_HASH: { static const char *h[] = {"/hash/alpha", "/hash/beta", "/hash/gamma", "/hash/delta", "/hash/epsilon", "/hash/zeta", "/hash/eta", "/hash/theta", "/hash/a_port_name_longer_than_sixteen_characters", "/hash/another_quite_long_port_name_for_the_hash", "/hash/subtree_with_a_long_name/inner_parameter_with_a_long_name", "/hash/subtree_with_a_long_name/x", "/hash/a_port_name_longer_than_sixteen_characterz", "/hash/subtree_with_a_long_name/nope"}; int w = (int)r.below(14);
                    len = w == 2 ? rtosc_message(buf, sizeof buf, h[w], "f", 1.0) : w == 3 ? rtosc_message(buf, sizeof buf, h[w], "") : w == 4 ? rtosc_message(buf, sizeof buf, h[w], "s", "e") : w == 5 ? rtosc_message(buf, sizeof buf, h[w], "ii", 1, 2) : w == 6 ? rtosc_message(buf, sizeof buf, h[w], "b", 3, "abc") : w == 9 ? rtosc_message(buf, sizeof buf, h[w], "f", 2.0) : rtosc_message(buf, sizeof buf, h[w], "i", 1); break; }
                case M_CLONE: { static const char *c_[] = {"/clone/alpha", "/clone/unknown-name", "/clone/beta", "/clone2/beta", "/clone2/unknown-name", "/clone2/alph", "/clone2/a_port_name_longer_than_sixteen_characterz"}; len = rtosc_message(buf, sizeof buf, c_[r.below(7)], "i", 1); break; }
                case M_BIGADDR: { memset(addr, 'a', sizeof addr); addr[0] = '/'; addr[200 + r.below(300)] = 0; len = rtosc_message(buf, sizeof buf, addr, "i", 1); stat_add(F_NO_MATCH); break; }
                case M_BIGREPLY: len = rtosc_message(buf, sizeof buf, "/lin/big", ""); break;
                case M_MANYARGS: { int n = 17 + (int)r.below(24); char ts[48]; for (int q = 0; q < n; q++) ts[q] = "ifTs"[q % 4]; ts[n] = 0; std::vector<rtosc_arg_t> a(n); size_t vi_ = 0; for (int q = 0; q < n; q++) { if (ts[q] == 'i') a[vi_++].i = q; else if (ts[q] == 'f') a[vi_++].f = q; else if (ts[q] == 's') a[vi_++].s = "s"; } len = rtosc_amessage(buf, sizeof buf, "/lin/any", ts, a.data()); break; }
                case M_ALLTAGS: { uint8_t midi[4] = {1, 2, 3, 4}; len = rtosc_message(buf, sizeof buf, "/lin/any", "ifsbhtdScrmTFNI", 1, 2.0, "s", 4, "blob", (int64_t)5, (uint64_t)6, 7.0, "Sym", 'c', 0x11223344, midi); break; }
                }
                if (len > maxmsg) stat_add(F_OVERSIZE_MSG);
                if (len) { int via = (int)(op.a[2] % 3); bool before = u2b->hasNext(); (void)before;
                    if (via == 0 || len > maxmsg) u2b->raw_write(buf); else if (via == 1) { rtosc_arg_t one; one.i = 5; u2b->writeArray("/lin/any", "i", &one); } else u2b->write("/hash/beta", "i", 9); }
            } else if (op.kind == UI_DRAIN) { int g = 0; while (b2u->hasNext() && g++ < 64) b2u->read(); }
            else {
                // ---------------- realtime section ----------------
                uint64_t disp = 0, direct = 0; int probes[32] = {0};
                {
                    rtmon::RtSection section;
                    if (op.kind == RT_TICK) {
                        for (int64_t q = 0; q < op.a[0] && u2b->hasNext(); q++) {
                            const char *m = u2b->read(); size_t ml = rtosc_message_length(m, maxmsg); if (ml && ml <= sizeof lastmsg) memcpy(lastmsg, m, ml);
                            d->matches = 0; uint64_t f0 = d->forwarded, o0 = d->oversize;
                            if (with_loc) { d->obj = rig; root_ports.dispatch(m, *d, true); }
                            else { d->obj = rawc; d->loc = nullptr; d->loc_size = 0; const char *mm = m; if (*mm == '/') mm++; while (*mm && *mm != '/') ++mm; if (*mm == '/') mm++;   // second path component on: hand-written tables only
                                if (!strncmp(m, "/lin/", 5)) lin_ports.dispatch(mm, *d); else if (!strncmp(m, "/enum/", 6)) enum_ports.dispatch(mm, *d); else if (!strncmp(m, "/hash/", 6)) hashed_ports.dispatch(mm, *d); else if (!strncmp(m, "/clone/", 7)) clone_ports.dispatch(mm, *d); else if (!strncmp(m, "/clone2/", 8)) clone2_ports.dispatch(mm, *d); probes[P_NOLOC]++; }
                            disp++; if (d->matches) reached = true;
                            if (!strncmp(m, "/hash/", 6)) probes[P_HASHED]++; else if (!strncmp(m, "/lin/", 5)) probes[P_LINEAR]++; else if (!strncmp(m, "/enum/", 6)) probes[P_ENUM]++; else if (!strncmp(m, "/deep/b/c/", 10)) probes[P_NESTED3]++; else if (!strncmp(m, "/clone", 6)) probes[P_DEFAULT_HANDLER]++;
                            else if (!strncmp(m, "/app/", 5)) { if (*rtosc_argument_string(m)) probes[P_MACRO_SET]++; else probes[P_MACRO_QUERY]++; }
                            if (d->forwarded != f0) probes[P_REPLY_FWD]++; if (d->oversize != o0) probes[F_OVERSIZE_REPLY]++;
                        }
                    } else {
                        direct++; char buf[512]; int w = (int)(((op.a[0] % 8) + 8) % 8);
                        switch (w) {
#define V64 1,2,3,4,5,6,7,8,9,10,11,12,13,14,15,16,17,18,19,20,21,22,23,24,25,26,27,28,29,30,31,32,33,34,35,36,37,38,39,40,41,42,43,44,45,46,47,48,49,50,51,52,53,54,55,56,57,58,59,60,61,62,63,64
                        case 0: { /* a variadic message with 0..64 values (64 are passed, the type string says how many are taken), some with value-less tags in between */
                                char wide[140]; int nv = (int)(((op.a[1] % 65) + 65) % 65), wl = 0; for (int i = 0; i < nv; i++) { wide[wl++] = 'i'; if ((op.a[2] & 3) == 3 && i % 7 == 3) wide[wl++] = 'T'; } wide[wl] = 0;
                                rtosc_message(buf, sizeof buf, "/wide", wide, V64); rtosc_message(nullptr, 0, "/wide", wide, V64); priv->write("/wide", wide, V64); while (priv->hasNext()) priv->read();
                                { RtOut dw(b2u, true); dw.obj = rig; dw.reply("/wide", wide, V64); dw.broadcast("/wide", wide, V64); }
                                if (nv > 32) probes[P_WIDE]++; }
                                rtosc_message(buf, sizeof buf, "/many", "iiiiiiiiiiiiiiiiiiiiffffssss", 1,2,3,4,5,6,7,8,9,10,11,12,13,14,15,16,17,18,19,20, 1.0,2.0,3.0,4.0, "a","b","c","d");
                                priv->write("/w", "iiiiiiiiiiiiiiiiiiii", 1,2,3,4,5,6,7,8,9,10,11,12,13,14,15,16,17,18,19,20); while (priv->hasNext()) priv->read();
                                rtosc_message(buf, sizeof buf, "/x/y", "ifs", 1, 2.0, "three"); rtosc_message(buf, 8, "/too/long/for/eight", "i", 1); rtosc_message(nullptr, 0, "/size", "sb", "q", 3, "abc"); break;
                        case 1: { rtosc_arg_t a[3]; a[0].i = 1; a[1].s = "s"; a[2].b.len = 2; a[2].b.data = (uint8_t *)"xy"; rtosc_amessage(buf, sizeof buf, "/arr", "isb", a); rtosc_arg_val_t av[2]; av[0].type = 'i'; av[0].val.i = 3; av[1].type = 'T'; av[1].val.T = 1; rtosc_avmessage(buf, sizeof buf, "/av", 2, av); break; }
                        case 2: { size_t l = rtosc_message_length(lastmsg, sizeof lastmsg); (void)rtosc_valid_message_p(lastmsg, l); (void)rtosc_valid_message_p("garbage", 7); break; }
                        case 3: { const char *as = rtosc_argument_string(lastmsg); (void)as; unsigned n = rtosc_narguments(lastmsg); for (unsigned i = 0; i < n; i++) { (void)rtosc_type(lastmsg, i); (void)rtosc_argument(lastmsg, i); }
                            rtosc_arg_itr_t it = rtosc_itr_begin(lastmsg); while (!rtosc_itr_end(it)) (void)rtosc_itr_next(&it); probes[P_ITER]++; break; }
                        case 4: { static const char *pat[] = {"seed:ifs", "se#4d", "ch#16/gain:i", "{seed,need}/", "app/", "*"}; for (auto pp : pat) (void)rtosc_match(pp, lastmsg + 1, nullptr); probes[P_MATCH]++; break; }
                        case 5: { size_t bl = rtosc_bundle(buf, sizeof buf, 0x1122334455667788ull, 2, m1, m2); (void)rtosc_bundle(buf + 300, 10, 1, 1, m1); /* many elements (a small fixed array inside the builder must not give way to the heap), also refused */ { static char big[1024]; int ne = 9 + (int)(op.a[1] & 7); const char *e[16]; for (int q = 0; q < 16; q++) e[q] = (q & 1) ? m2 : m1; (void)rtosc_bundle(big, sizeof big, 7, ne, e[0], e[1], e[2], e[3], e[4], e[5], e[6], e[7], e[8], e[9], e[10], e[11], e[12], e[13], e[14], e[15]); (void)rtosc_bundle(big, 40, 7, ne, e[0], e[1], e[2], e[3], e[4], e[5], e[6], e[7], e[8], e[9], e[10], e[11], e[12], e[13], e[14], e[15]); size_t be = rtosc_bundle_elements(big, sizeof big); (void)be; } if (bl) { (void)rtosc_bundle_p(buf); size_t e = rtosc_bundle_elements(buf, bl); for (size_t i = 0; i < e; i++) { (void)rtosc_bundle_fetch(buf, (unsigned)i); (void)rtosc_bundle_size(buf, (unsigned)i); } (void)rtosc_bundle_timetag(buf); (void)rtosc_message_length(buf, bl); } probes[P_BUNDLE]++; break; }
                        case 6: { priv->write("/p", "is", 1, "abc"); priv->writeArray("/q", "", nullptr); priv->raw_write(m1); while (priv->hasNextLookahead()) priv->read_lookahead(); while (priv->hasNext()) priv->read(); (void)priv->peak(); probes[P_LINK]++; break; }
                        case 7: { RtOut dd(b2u, true); dd.obj = rig; dd.reply("/direct", "is", 1, "r"); dd.reply("/direct/many", "iiiiiiiiiiiiiiiiiii", 1,2,3,4,5,6,7,8,9,10,11,12,13,14,15,16,17,18,19); dd.broadcast("/direct/many", "ffffffffffffffffffff", 1.,2.,3.,4.,5.,6.,7.,8.,9.,10.,11.,12.,13.,14.,15.,16.,17.,18.,19.,20.); dd.broadcast("/direct", "f", 1.0); dd.reply("/huge", "s", g_big); break; }
                        }
                    }
                }
                // ---------------- end of realtime section ----------------
                stat_add(ST_RT_DISPATCH, disp); stat_add(ST_RT_DIRECT, direct); for (int i = 0; i < ST_N; i++) if (probes[i]) stat_add(i, probes[i]);
                if (rtmon::first_kind) {
                    char **sym = backtrace_symbols(rtmon::first_bt, rtmon::first_bt_n); std::string bt;
                    for (int i = 2; i < rtmon::first_bt_n && i < 9; i++) { std::string s = sym ? sym[i] : "?"; size_t a = s.find('('), bq = s.find('+', a == std::string::npos ? 0 : a); if (a != std::string::npos && bq != std::string::npos && bq > a + 1) s = s.substr(a + 1, bq - a - 1); else { size_t sl = s.rfind('/'); if (sl != std::string::npos) s = s.substr(sl + 1); } bt += (bt.empty() ? "" : " < ") + s; }
                    free(sym);
                    res.cls = rtmon::first_kind == 1 ? "ALLOC" : rtmon::first_kind == 2 ? "FREE" : "LOCK";
                    char b[200]; snprintf(b, sizeof b, "op %d %s: %s inside the realtime section (%llu allocations, %llu frees, %llu mutex acquisitions in this run; first: %zu bytes) at ", opi, describe(op).c_str(),
                                          rtmon::first_kind == 1 ? "heap allocation" : rtmon::first_kind == 2 ? "heap deallocation" : "mutex acquisition", (unsigned long long)rtmon::allocs_in, (unsigned long long)rtmon::frees_in, (unsigned long long)rtmon::locks_in, rtmon::first_size);
                    res.detail = std::string(b) + bt; break;
                }
                trace(mix64(disp, direct));
            }
        }
        stat_add(ST_ALLOC_OUTSIDE, rtmon::allocs_out + rtmon::frees_out - out0);
        if (!u2b->hasNext()) {} else stat_add(F_RING_FULL, 0);
        delete d; delete u2b; delete b2u; delete priv; delete rig;
        trace(rig ? 1 : 0);
        res.trace_hash = trace_value(); res.shape_hash = shape; res.nontrivial = reached;
        return res;
    }
};
int main(int argc, char **argv) { RtWorld w; return sim_main(argc, argv, w); }
