// w_undo — C15 component mode: the real UndoHistory under a simulated clock, against models/undo_model.h.
// Real: /repo/src/cpp/undo-history.cpp, /repo/src/rtosc.c.  Stub: the user, the clock.
#include "../simkit/sim.h"
#include "../models/undo_model.h"
#include <rtosc/rtosc.h>
#include <rtosc/undo-history.h>
#include <cstring>
#include <climits>
#include <cmath>

using namespace sim;
namespace sim { extern int64_t g_clock_ns; extern uint64_t g_clock_reads; }
using undo_model::V; using undo_model::Model; using undo_model::Emit;

enum { ST_RUNS_PLAIN, ST_RUNS_ROBUST, ST_OPS, ST_SIM_MS, ST_CLOCK_READS,
       F_CLOCK_ADV, F_CLOCK_BACK, F_LONG_IDLE, F_SUBSECOND,
       P_D0, P_D01, P_D12, P_D2, P_D23, P_D3, P_MERGE_MUST, P_MERGE_EITHER_MERGED, P_MERGE_EITHER_SPLIT, P_MERGE_NOT_NEWEST, P_RECORD_AFTER_UNDO, P_EVICT, P_EVICT_CURSOR_LT_SIZE,
       P_SEEK_CLAMP_LO, P_SEEK_CLAMP_HI, P_UNDO_ALL, P_REDO_ALL, P_STALE_BETWEEN, P_LONG_ADDR, P_OTHER_TYPE, ST_N };
static const char *STAT_NAMES[ST_N] = { "runs.plain", "runs.robustness_config", "ops", "sim_time_ms", "clock_reads_by_library",
       "fault.clock_advance", "fault.clock_step_backwards", "fault.long_idle_1h", "fault.subsecond_placement",
       "probe.delta_0s", "probe.delta_0_to_1s", "probe.delta_1_to_2s", "probe.delta_exactly_2s", "probe.delta_2_to_3s", "probe.delta_ge_3s",
       "probe.merge_required_and_done", "probe.merge_in_grey_zone_merged", "probe.merge_in_grey_zone_split", "probe.merge_into_entry_that_is_not_newest", "probe.record_after_undo_discards_tail",
       "probe.eviction_at_cap", "probe.eviction_with_cursor_below_size", "probe.seek_clamped_at_start", "probe.seek_clamped_at_end", "probe.undo_everything", "probe.redo_everything",
       "probe.mergeable_entry_behind_stale_entry", "probe.address_longer_than_200", "probe.event_of_the_address_other_type" };

enum { K_EPOCH, K_ROBUST, K_N };
enum { OP_RECORD = 0, OP_SEEK, OP_CLOCK, OP_CLOCK_BACK };
static const std::string LONG247 = "/long/" + std::string(241, 'x'), LONG248 = "/long/" + std::string(242, 'y'), LONG700 = "/long/" + std::string(694, 'z');
static const char *ADDRS[] = {"/a", "/b", "/c", "/dd/e", "/f3", LONG247.c_str(), LONG248.c_str(), LONG700.c_str()};   // (the scratch buffer of the history was 256 bytes)
static const char TYPES[] = {'i', 'f', 'c', 'i', 'f', 'i', 'f', 'i'};
static const int NADDR = 8;
// a[3] & 1: the event carries the address's other type (an address that takes both, e.g. 'i' and 'f')
static char type_of(const Op &op) { int a = (int)(((op.a[0] % NADDR) + NADDR) % NADDR); char t = TYPES[a]; if (op.a[3] & 1) t = t == 'f' ? 'i' : 'f'; if ((op.a[3] & 2) && t != 'c') t = t == 'f' ? 'd' : 'h'; return t; }   // a[3] & 2: the 8-byte flavour of the type (d for f, h for i)
// values travel as V (int32 or float); the 8-byte types carry the same numbers
static void put_arg(rtosc_arg_t &a, const V &v) { if (v.t == 'f') a.f = v.f; else if (v.t == 'd') a.d = v.f; else if (v.t == 'h') a.h = v.i; else a.i = v.i; }
static void get_arg(V &v, char t, const rtosc_arg_t &a) { v.t = t; if (t == 'f') v.f = a.f; else if (t == 'd') v.f = (float)a.d; else if (t == 'h') v.i = (int32_t)a.h; else v.i = a.i; }

static V mkv(char t, int64_t raw) { V v; v.t = t; if (t == 'f' || t == 'd') { uint32_t u = (uint32_t)raw; memcpy(&v.f, &u, 4); if (std::isnan(v.f)) v.f = 0.5f; } else if (t == 'c') v.i = (int)(raw & 0x7f); else v.i = (int32_t)raw; return v; }

struct UndoWorld : World {
    const char *name() const override { return "w_undo"; }
    std::vector<std::string> properties() const override { return {"C15"}; }
    std::vector<std::string> stat_names() const override { return std::vector<std::string>(STAT_NAMES, STAT_NAMES + ST_N); }
    std::vector<std::string> knob_names() const override { return {"epoch", "robustness"}; }
    std::string components() const override { return "{\"real\": [\"src/cpp/undo-history.cpp\", \"src/rtosc.c\"], \"stub\": [\"user issuing record/seek\", \"wall clock (time() interposed, advanced only by plan ops)\"]}"; }
    std::string rule() const override { return "one run = epoch knob + a history of record(address,old,new)/seek(k)/clock(+dt) ops (0..60) with dt drawn from {0, sub-second, 1-2 s, exactly 2 s, 2-3 s, 3-10 s, 1 h}; after every op position, size, every retained entry and every emitted message are compared with the reference model. "
        "Non-trivial = the run crossed the merge window, the 20-event cap or an end of the history at least once; distinct = distinct hash of the op sequence (kinds, addresses, seek distances, clock deltas)."; }
    std::string describe(const Op &op) const override {
        char b[96];
        switch (op.kind) {
        case OP_RECORD: { int a = (int)(((op.a[0] % NADDR) + NADDR) % NADDR); V o = mkv(type_of(op), op.a[1]), n = mkv(type_of(op), op.a[2]); snprintf(b, sizeof b, "record(%.20s%s:%c,%s->%s)", ADDRS[a], strlen(ADDRS[a]) > 20 ? ("..[" + std::to_string(strlen(ADDRS[a])) + "]").c_str() : "", type_of(op), o.str().c_str(), n.str().c_str()); break; }
        case OP_SEEK: snprintf(b, sizeof b, "seek(%+lld)", (long long)op.a[0]); break;
        case OP_CLOCK: snprintf(b, sizeof b, "clock(+%lldms)", (long long)op.a[0]); break;
        default: snprintf(b, sizeof b, "clock(-%lldms)", (long long)op.a[0]); break;
        }
        return b;
    }
    std::vector<Op> simpler(const Op &op) const override {
        std::vector<Op> v;
        if (op.kind == OP_RECORD) { if (op.a[0]) { Op o = op; o.a[0] = 0; v.push_back(o); } if (op.a[3]) { Op o = op; o.a[3] = 0; v.push_back(o); } { int a = (int)(((op.a[0] % NADDR) + NADDR) % NADDR); (void)a; int64_t one = (type_of(op) == 'f' || type_of(op) == 'd') ? 0x3f800000 : 1; if (op.a[1] || op.a[2] != one) { Op o = op; o.a[1] = 0; o.a[2] = one; v.push_back(o); } } }
        else if (op.kind == OP_SEEK) { if (op.a[0] < -1) { Op o = op; o.a[0] = -1; v.push_back(o); } if (op.a[0] > 1) { Op o = op; o.a[0] = 1; v.push_back(o); } }
        else if (op.kind == OP_CLOCK) { for (int64_t c : {1000, 2000, 3000}) if (op.a[0] > c) { Op o = op; o.a[0] = c; v.push_back(o); } }
        return v;
    }
    bool merge(const Op &a, const Op &b, Op &out) const override { if (a.kind == OP_CLOCK && b.kind == OP_CLOCK) { out = a; out.a[0] = a.a[0] + b.a[0]; return true; } return false; }
    void gen(const std::string &, Rng &kr, Rng &pr, Knobs &k, Plan &p) override {
        k.assign(K_N, 0);
        k[K_EPOCH] = kr.pick(std::vector<int64_t>{0, 1000000000LL, 2147483638LL, 1700000000LL});
        k[K_ROBUST] = kr.chance(0.1);
        int n = (int)pr.below(pr.chance(0.5) ? 20 : (g_tier ? 150 : 61));
        double p_rec = 0.35 + 0.45 * pr.unit(), p_seek = 0.1 + 0.2 * pr.unit();
        int naddr = 1 + (int)pr.below(5); bool long_mode = pr.chance(0.25), mixed_types = pr.chance(0.25);
        bool evict_mode = pr.chance(0.3); if (evict_mode) { n = 25 + (int)pr.below(36); p_rec = 0.8; p_seek = 0.1; }
        int64_t last[NADDR] = {0, 0, 0, 0, 0, 0, 0, 0};
        for (int i = 0; i < n; i++) {
            Op o; double u = pr.unit();
            if (u < p_rec) {
                if (evict_mode && pr.chance(0.8)) { Op c; c.kind = OP_CLOCK; c.a[0] = 3000 + (int64_t)pr.below(2000); p.push_back(c); }
                o.kind = OP_RECORD; int a = (int)pr.below(naddr); if (long_mode && pr.chance(0.3)) a = 5 + (int)pr.below(3); o.a[0] = a; if (mixed_types && TYPES[a] != 'c' && pr.chance(0.3)) o.a[3] = 1; if (mixed_types && TYPES[a] != 'c' && pr.chance(0.25)) o.a[3] |= 2;
                auto val = [&](char t) -> int64_t { if (t == 'f' || t == 'd') { float f = (float)((int)pr.below(2001) - 1000) / 8.0f; uint32_t u; memcpy(&u, &f, 4); return u; } if (t == 'c') return (int64_t)pr.below(128); return pr.chance(0.1) ? (int64_t)(int32_t)pr.next() : (int64_t)pr.below(200) - 100; };
                o.a[1] = pr.chance(0.7) && !o.a[3] ? last[a] : val(type_of(o));
                do { o.a[2] = val(type_of(o)); } while (o.a[2] == o.a[1]);
                last[a] = o.a[2];
            } else if (u < p_rec + p_seek) {
                o.kind = OP_SEEK; double s = pr.unit();
                o.a[0] = s < 0.4 ? -1 : s < 0.6 ? 1 : s < 0.8 ? -(int64_t)pr.below(26) : s < 0.93 ? (int64_t)pr.below(26) : s < 0.97 ? (pr.chance(0.5) ? -25 : 25) : pr.pick(std::vector<int64_t>{INT_MAX, INT_MIN, INT_MAX - 1, INT_MIN + 1, 1000000, -1000000});   // also the extreme distances an int can hold
            } else if (k[K_ROBUST] && pr.chance(0.15)) { o.kind = OP_CLOCK_BACK; o.a[0] = 1 + (int64_t)pr.below(5000); }
            else {
                o.kind = OP_CLOCK; double s = pr.unit();
                o.a[0] = s < 0.10 ? 0 : s < 0.30 ? 100 + (int64_t)pr.below(900) : s < 0.50 ? 1000 + (int64_t)pr.below(1000) : s < 0.62 ? 2000 : s < 0.80 ? 2001 + (int64_t)pr.below(999) : s < 0.97 ? 3000 + (int64_t)pr.below(7001) : 3600000;
            }
            p.push_back(o);
        }
    }

    Result exec(const std::string &, const Knobs &k, const Plan &plan, Choices &) override {
        Result res; bool robust = k.size() > K_ROBUST && k[K_ROBUST];
        stat_add(robust ? ST_RUNS_ROBUST : ST_RUNS_PLAIN);
        g_clock_ns = (k.size() > K_EPOCH ? k[K_EPOCH] : 0) * 1000000000LL + 250000000LL; uint64_t reads0 = g_clock_reads; int64_t t_start = g_clock_ns;
        rtosc::UndoHistory *hist = new rtosc::UndoHistory;
        std::vector<Emit> emitted;
        hist->setCallback([&](const char *m) {
            Emit e; e.addr = m;
            if (rtosc_narguments(m) == 1) { char t = rtosc_type(m, 0); rtosc_arg_t a = rtosc_argument(m, 0); get_arg(e.v, t, a); } else e.v.t = '?';
            emitted.push_back(e);
        });
        Model model; uint64_t shape = 0; bool crossed = false; bool had_back = false;
        auto fail = [&](const char *cls, const std::string &d) { if (res.cls.empty()) { res.cls = cls; res.detail = d; } };
        auto entry_of = [&](int i, std::string &addr, V &o, V &n) {
            const char *m = hist->getHistory(i); if (strcmp(m, "/undo_change") || rtosc_narguments(m) != 3) return false;
            addr = rtosc_argument(m, 0).s; o.t = rtosc_type(m, 1); n.t = rtosc_type(m, 2); rtosc_arg_t a = rtosc_argument(m, 1), b = rtosc_argument(m, 2);
            get_arg(o, o.t, a); get_arg(n, n.t, b); return true; };
        auto real_matches = [&](const Model &m) {
            if (hist->getPos() != m.pos || hist->size() != m.h.size()) return false;
            for (size_t i = 0; i < m.h.size(); i++) { std::string a; V o, n; if (!entry_of((int)i, a, o, n)) return false; if (a != m.h[i].addr || !(o == m.h[i].oldv) || !(n == m.h[i].newv)) return false; }
            return true; };
        int opi = 0;
        for (auto &op : plan) {
            opi++; stat_add(ST_OPS); char b[300];
            shape = mix64(shape, op.kind * 7919 + (uint64_t)op.a[0] * 31 + (op.kind == OP_RECORD ? 0 : 0));
            if (op.kind == OP_CLOCK) { int64_t ms = std::max<int64_t>(0, std::min<int64_t>(op.a[0], 4000000)); g_clock_ns += ms * 1000000LL; stat_add(F_CLOCK_ADV); if (ms >= 3600000) stat_add(F_LONG_IDLE); if (ms % 1000) stat_add(F_SUBSECOND); trace(ms); continue; }
            if (op.kind == OP_CLOCK_BACK) { if (!robust) continue; int64_t ms = std::max<int64_t>(0, std::min<int64_t>(op.a[0], 100000)); g_clock_ns -= ms * 1000000LL; if (g_clock_ns < 0) g_clock_ns = 0; had_back = true; stat_add(F_CLOCK_BACK); continue; }
            int64_t now_ms = g_clock_ns / 1000000LL;
            if (had_back) {   // robustness configuration after a backwards step: only memory safety and pos <= size <= 20 are claimed
                if (op.kind == OP_RECORD) { int a = (int)(((op.a[0] % NADDR) + NADDR) % NADDR); char t = type_of(op); V o = mkv(t, op.a[1]), n = mkv(t, op.a[2]); char buf[1024]; char ts[4] = {'s', t, t, 0};
                    rtosc_arg_t args[3]; args[0].s = ADDRS[a]; put_arg(args[1], o); put_arg(args[2], n);
                    rtosc_amessage(buf, sizeof buf, "/undo_change", ts, args); hist->recordEvent(buf); }
                else hist->seekHistory((int)std::max<int64_t>(INT_MIN, std::min<int64_t>(op.a[0], INT_MAX)));
                if (hist->size() > 20 || hist->getPos() > hist->size()) { snprintf(b, sizeof b, "op %d: pos=%u size=%zu breaks pos <= size <= 20", opi, hist->getPos(), hist->size()); fail("BOUNDS", b); break; }
                continue;
            }
            if (op.kind == OP_RECORD) {
                int a = (int)(((op.a[0] % NADDR) + NADDR) % NADDR); char t = type_of(op); V o = mkv(t, op.a[1]), n = mkv(t, op.a[2]);
                char buf[1024]; char ts[4] = {'s', t, t, 0}; if (strlen(ADDRS[a]) > 200) stat_add(P_LONG_ADDR); if (op.a[3] & 1) stat_add(P_OTHER_TYPE);
                rtosc_arg_t args[3]; args[0].s = ADDRS[a]; put_arg(args[1], o); put_arg(args[2], n);
                rtosc_amessage(buf, sizeof buf, "/undo_change", ts, args);
                Model::Merge mg = model.classify(ADDRS[a], now_ms);
                int cand = model.candidate(ADDRS[a]);
                if (cand >= 0) { int64_t d = now_ms - model.h[cand].t_last_ms; stat_add(d == 0 ? P_D0 : d < 1000 ? P_D01 : d < 2000 ? P_D12 : d == 2000 ? P_D2 : d < 3000 ? P_D23 : P_D3); if (d >= 0 && d <= 3000) crossed = true;
                    if (mg == Model::MUST) for (size_t q = cand + 1; q < model.pos; q++) if (now_ms - model.h[q].t_last_ms > 2999) { stat_add(P_STALE_BETWEEN); break; } }
                bool tail = model.pos < model.h.size(); bool atcap = model.pos == model.cap;
                hist->recordEvent(buf);
                Model m1 = model.recorded(ADDRS[a], o, n, now_ms, true), m0 = model.recorded(ADDRS[a], o, n, now_ms, false);
                bool ok1 = (mg != Model::MUST_NOT) && real_matches(m1), ok0 = (mg != Model::MUST) && real_matches(m0);
                if (ok1) { model = m1; stat_add(mg == Model::MUST ? P_MERGE_MUST : P_MERGE_EITHER_MERGED); if (cand >= 0 && cand != (int)model.pos - 1) stat_add(P_MERGE_NOT_NEWEST); }
                else if (ok0) { model = m0; if (mg == Model::EITHER) stat_add(P_MERGE_EITHER_SPLIT); if (atcap) { stat_add(P_EVICT); crossed = true; } }
                else {
                    const char *cls = "RECORD";
                    if (mg == Model::MUST && real_matches(m0)) cls = "MERGE-MISSED"; else if (mg == Model::MUST_NOT && real_matches(m1)) cls = "MERGE-WRONG";
                    snprintf(b, sizeof b, "op %d %s at t=%lld ms: history is pos=%u size=%zu, model expects %s (candidate entry %d last touched %lld ms ago)", opi, describe(op).c_str(), (long long)now_ms, hist->getPos(), hist->size(),
                             mg == Model::MUST ? "a merge" : mg == Model::MUST_NOT ? "a new entry" : "either", cand, cand >= 0 ? (long long)(now_ms - model.h[cand].t_last_ms) : -1LL);
                    fail(cls, b); break;
                }
                if (tail) { stat_add(P_RECORD_AFTER_UNDO); crossed = true; }
                trace(mix64(hist->getPos(), hist->size()));
            } else if (op.kind == OP_SEEK) {
                int kk = (int)std::max<int64_t>(INT_MIN, std::min<int64_t>(op.a[0], INT_MAX));
                long dest = (long)model.pos + kk; if (dest < 0) { stat_add(P_SEEK_CLAMP_LO); crossed = true; } if (dest > (long)model.h.size()) { stat_add(P_SEEK_CLAMP_HI); crossed = true; }
                if (model.pos < model.h.size() && model.h.size() == model.cap) stat_add(P_EVICT_CURSOR_LT_SIZE);
                emitted.clear(); hist->seekHistory(kk);
                std::vector<Emit> want = model.seek(kk);
                if (model.pos == 0 && !want.empty()) stat_add(P_UNDO_ALL); if (model.pos == model.h.size() && !want.empty() && kk > 0) stat_add(P_REDO_ALL);
                bool same = want.size() == emitted.size();
                for (size_t i = 0; same && i < want.size(); i++) same = want[i].addr == emitted[i].addr && want[i].v == emitted[i].v;
                if (!same) { std::string w, g; for (auto &e : want) w += e.addr + "=" + e.v.str() + " "; for (auto &e : emitted) g += e.addr + "=" + e.v.str() + " ";
                    snprintf(b, sizeof b, "op %d seek(%+d): emitted [%s] expected [%s]", opi, kk, g.c_str(), w.c_str()); fail("SEEK-MESSAGES", b); break; }
                if (hist->getPos() != model.pos || hist->size() != model.h.size()) { snprintf(b, sizeof b, "op %d seek(%+d): pos=%u size=%zu, model pos=%zu size=%zu", opi, kk, hist->getPos(), hist->size(), model.pos, model.h.size()); fail("SEEK-POSITION", b); break; }
                for (auto &e : emitted) trace(hash_str(e.addr) ^ (uint64_t)e.v.i);
            }
            if (hist->size() > 20 || hist->getPos() > hist->size()) { snprintf(b, sizeof b, "op %d: pos=%u size=%zu breaks pos <= size <= 20", opi, hist->getPos(), hist->size()); fail("BOUNDS", b); break; }
        }
        stat_add(ST_SIM_MS, (uint64_t)std::max<int64_t>(0, (g_clock_ns - t_start) / 1000000LL)); stat_add(ST_CLOCK_READS, g_clock_reads - reads0);
        delete hist;
        res.trace_hash = trace_value(); res.shape_hash = shape; res.nontrivial = crossed;
        return res;
    }
};
int main(int argc, char **argv) { UndoWorld w; return sim_main(argc, argv, w); }
