// w_wire — C07: validation of untrusted bytes.  A sender encodes valid messages; the simulated wire damages them;
// the receiver validates and, iff accepted, decodes through every accessor.  For each base message EVERY single
// fault is enumerated (truncation at every offset, every bit flip, every aligned word overwritten with boundary
// lengths, every NUL byte made non-zero, splice with the following message at every offset, garbage appended), then
// seeded sequences of 2..4 faults from the plan.  Real: src/rtosc.c.  Stub: sender, wire, the strict reference decoder.
// No coverage-guided fuzzing and no blind enumeration of short buffers: only faults applied to traffic.
#include "../simkit/sim.h"
#include "../models/msggen.h"
#include <cstdlib>

using namespace sim; using namespace msggen;

enum { ST_RUNS, ST_EVALS, ST_ACCEPTED, ST_REJECTED, F_TRUNC, F_BITFLIP, F_WORD, F_NUL, F_SPLICE, F_EXTEND, F_MULTI, F_EMPTY, F_DELETE, F_DUP,
       P_ACC_DAMAGED, P_ACC_BLOB, P_ACC_STRING, P_ACC_ARRAY, P_ACC_UNKNOWN_TAG, P_LEN_LT_N, P_HUGE_BLOB_LEN, P_ACC_NOARGS, P_BUNDLE_BASE, ST_N };
static const char *STAT_NAMES[ST_N] = { "runs", "evaluations", "buffers_accepted", "buffers_rejected", "fault.truncation", "fault.bit_flip", "fault.word_overwritten", "fault.nul_byte_made_nonzero", "fault.splice_with_next_message", "fault.garbage_appended", "fault.multi_fault_sequence", "fault.empty_buffer", "fault.byte_lost", "fault.byte_duplicated",
       "probe.damaged_buffer_accepted", "probe.accepted_with_blob", "probe.accepted_with_string", "probe.accepted_with_brackets", "probe.accepted_with_unknown_tag", "probe.reported_length_shorter_than_buffer", "probe.blob_length_field_ge_0x7fffffff", "probe.accepted_without_arguments", "probe.bundle_as_base_traffic" };

enum { W_TRUNC = 0, W_BIT, W_WORD, W_NUL, W_SPLICE, W_EXTEND, W_BYTE, W_DELETE, W_DUP, W_NKINDS };
static const uint32_t WORDS[] = {0, 1, 3, 4, 0x7fffffffu, 0x80000000u, 0xfffffff0u, 0xfffffff4u, 0xfffffff8u, 0xfffffffcu, 0xfffffffdu, 0xfffffffeu, 0xffffffffu};

// ---- strict-bounds reference decoder (independent of rtosc): lenient about padding content, unknown tags carry no data
struct DArg { char tag; size_t off, len; uint32_t bloblen; };
struct Decoded { bool ok = false; std::string addr, types; std::vector<DArg> args; size_t consumed = 0; };
static Decoded decode(const unsigned char *b, size_t n) {
    Decoded d; size_t p = 0;
    while (p < n && b[p]) p++; if (p >= n) return d; d.addr.assign((const char *)b, p);
    p = (p / 4 + 1) * 4; if (p >= n || b[p] != ',') return d;
    size_t ts = p + 1; size_t q = ts; while (q < n && b[q]) q++; if (q >= n) return d; d.types.assign((const char *)b + ts, q - ts);
    p = p + ((q - p) / 4 + 1) * 4;
    for (char t : d.types) {
        DArg a; a.tag = t; a.off = p; a.len = 0; a.bloblen = 0;
        switch (t) {
        case 'i': case 'f': case 'c': case 'r': case 'm': a.len = 4; if (p + 4 > n) return d; p += 4; break;
        case 'h': case 't': case 'd': a.len = 8; if (p + 8 > n) return d; p += 8; break;
        case 's': case 'S': { size_t e = p; while (e < n && b[e]) e++; if (e >= n) return d; a.len = e - p; p = p + ((e - p) / 4 + 1) * 4; break; }
        case 'b': { if (p + 4 > n) return d; uint32_t L = (uint32_t)b[p] << 24 | (uint32_t)b[p + 1] << 16 | (uint32_t)b[p + 2] << 8 | b[p + 3]; if ((uint64_t)L > (uint64_t)(n - p - 4)) return d; a.bloblen = L; a.off = p + 4; a.len = L; p += 4 + L; if (L % 4) p += 4 - L % 4; break; }
        default: break;
        }
        if (p > n) return d;
        d.args.push_back(a);
    }
    d.consumed = p; d.ok = (p == n);
    return d;
}

struct WireWorld : World {
    const char *name() const override { return "w_wire"; }
    std::vector<std::string> properties() const override { return {"C07"}; }
    std::vector<std::string> stat_names() const override { return std::vector<std::string>(STAT_NAMES, STAT_NAMES + ST_N); }
    std::vector<std::string> knob_names() const override { return {}; }
    std::string components() const override { return "{\"real\": [\"src/rtosc.c (rtosc_message_length, rtosc_valid_message_p, rtosc_argument_string, rtosc_narguments, rtosc_type, rtosc_argument, rtosc_itr_*)\"], \"stub\": [\"sender (valid traffic from the generator)\", \"the wire (fault injector)\", \"strict-bounds reference decoder\"]}"; }
    std::string rule() const override { return "one run = one or two generated valid messages (<= 512 bytes) + a seeded sequence of 0..4 wire faults; for the first message every single fault is enumerated exhaustively (truncation at every offset incl. 0, every bit flipped, every aligned word overwritten with 13 boundary values, every NUL byte set to 'A' and 0xff, every byte lost, every byte duplicated, splice with the next message at every offset, 1..8 garbage bytes appended); "
        "each damaged buffer is copied to an exact-size heap block (ASan), measured, validated and, iff accepted, read through every accessor and compared with an independent strict-bounds decoder. evaluations = damaged buffers checked. Non-trivial = at least one damaged buffer was accepted by the validator; distinct = distinct hash of the base message shape and fault sequence."; }
    std::string describe(const Op &op) const override {
        if (op.kind != G_FAULT) return msggen::describe(op);
        static const char *n[] = {"truncate", "bitflip", "word", "nul->byte", "splice", "extend", "byte", "lose_byte", "dup_byte"}; char b[96];
        snprintf(b, sizeof b, "wire:%s(%lld,%lld)", n[((op.a[0] % W_NKINDS) + W_NKINDS) % W_NKINDS], (long long)op.a[1], (long long)op.a[2]); return b;
    }
    std::vector<Op> simpler(const Op &op) const override { return op.kind == G_FAULT ? std::vector<Op>{} : msggen::simpler(op); }
    void gen(const std::string &, Rng &, Rng &pr, Knobs &k, Plan &p) override {
        k.clear();
        if (pr.chance(0.2)) gen_bundle(pr, p, 2, 40);    // bundles are traffic too (only the length function applies to them)
        else gen_message(pr, p, pr.chance(0.85) ? 5 : 14, pr.chance(0.9) ? 24 : 120);
        if (pr.chance(0.6)) gen_message(pr, p, 4, 20);
        int nf = pr.chance(0.5) ? 0 : 2 + (int)pr.below(3);
        for (int i = 0; i < nf; i++) { Op o; o.kind = G_FAULT; o.a[0] = (int64_t)pr.below(W_NKINDS); o.a[1] = (int64_t)pr.below(600); o.a[2] = (int64_t)pr.next(); p.push_back(o); }
    }
    static void apply_fault(std::vector<unsigned char> &buf, const std::vector<unsigned char> &next, int kind, int64_t off, int64_t val) {
        size_t n = buf.size();
        switch (kind) {
        case W_TRUNC: buf.resize((size_t)(off % (int64_t)(n + 1))); break;
        case W_BIT: if (n) buf[(size_t)(off % (int64_t)n)] ^= (unsigned char)(1u << (val & 7)); break;
        case W_WORD: if (n >= 4) { size_t o = ((size_t)(off % (int64_t)(n / 4))) * 4; uint32_t w = WORDS[(uint64_t)val % (sizeof WORDS / 4)]; if ((val >> 8) & 1) w = (uint32_t)(n - ((val >> 9) & 7)); buf[o] = w >> 24; buf[o + 1] = w >> 16; buf[o + 2] = w >> 8; buf[o + 3] = w; } break;
        case W_NUL: { std::vector<size_t> z; for (size_t i = 0; i < n; i++) if (!buf[i]) z.push_back(i); if (!z.empty()) buf[z[(size_t)(off % (int64_t)z.size())]] = (val & 1) ? 0xff : 'A'; break; }
        case W_SPLICE: { size_t kk = (size_t)(off % (int64_t)(n + 1)); std::vector<unsigned char> r(buf.begin(), buf.begin() + kk); if (kk < next.size()) r.insert(r.end(), next.begin() + kk, next.end()); buf = r; break; }
        case W_EXTEND: { Rng r((uint64_t)val); size_t m = 1 + (size_t)(off % 8); for (size_t i = 0; i < m; i++) buf.push_back((unsigned char)r.next()); break; }
        case W_BYTE: if (n) buf[(size_t)(off % (int64_t)n)] = (unsigned char)val; break;
        case W_DELETE: if (n) buf.erase(buf.begin() + (size_t)(off % (int64_t)n)); break;
        case W_DUP: if (n) { size_t o = (size_t)(off % (int64_t)n); buf.insert(buf.begin() + o, buf[o]); } break;
        }
    }

    // receive one buffer; returns false and sets cls/detail on a violation
    bool receive(const std::vector<unsigned char> &wire, bool damaged, Result &res, const char *what) {
        size_t n = wire.size(); stat_add(ST_EVALS); note(what);
        unsigned char *blk = (unsigned char *)malloc(n ? n : 1); if (n) memcpy(blk, wire.data(), n);
        char *m = (char *)blk; char b[400]; bool ok = true;
        // with n == 0 there is no byte the receiver may read: hand over a block whose only byte is out of bounds
        if (n == 0) { m = (char *)blk + 1; stat_add(F_EMPTY); }   // one past a 1-byte block: the first byte already lies in the red zone
        auto fail = [&](const char *cls, const std::string &d) { if (res.cls.empty()) { res.cls = cls; res.detail = std::string(what) + ": " + d; } ok = false; };
        size_t L = rtosc_message_length(m, n);
        if (L > n) { snprintf(b, sizeof b, "rtosc_message_length reports %zu for a %zu-byte buffer", L, n); fail("LENGTH", b); }
        if (L && L < n) stat_add(P_LEN_LT_N);
        bool V = ok && rtosc_valid_message_p(m, n);
        if (ok && V) {
            stat_add(ST_ACCEPTED); if (damaged) stat_add(P_ACC_DAMAGED);
            Decoded d = decode((const unsigned char *)m, n);
            if (!d.ok) { snprintf(b, sizeof b, "validator accepts %zu bytes that a strict decoder cannot parse to the end (decoder stopped at %zu, types \"%s\")", n, d.consumed, d.types.c_str()); fail("ACCEPT-UNPARSABLE", b); }
            else {
                const char *as = rtosc_argument_string(m);
                if (as < m || as >= m + n || d.types != as) { snprintf(b, sizeof b, "argument string differs from the decoder's \"%s\"", d.types.c_str()); fail("ACCESSOR-TYPES", b); }
                std::vector<DArg> vals; for (auto &a : d.args) if (a.tag != '[' && a.tag != ']') vals.push_back(a);
                unsigned na = ok ? rtosc_narguments(m) : 0;
                if (ok && na != vals.size()) { snprintf(b, sizeof b, "rtosc_narguments = %u, the type string \"%s\" holds %zu values", na, d.types.c_str(), vals.size()); fail("ACCESSOR-COUNT", b); }
                if (vals.empty()) stat_add(P_ACC_NOARGS); if (d.types.find('[') != std::string::npos) stat_add(P_ACC_ARRAY);
                volatile unsigned sink = 0;
                for (unsigned i = 0; ok && i < vals.size(); i++) {
                    const DArg &a = vals[i]; char t = rtosc_type(m, i);
                    if (t != a.tag) { snprintf(b, sizeof b, "rtosc_type(%u) = '%c', decoder says '%c' (types \"%s\")", i, t, a.tag, d.types.c_str()); fail("ACCESSOR-TYPE", b); break; }
                    if (!strchr("ifsbhtdScrmTFNI", a.tag)) { stat_add(P_ACC_UNKNOWN_TAG); continue; }
                    rtosc_arg_t v = rtosc_argument(m, i); bool same = true;
                    switch (a.tag) {
                    case 'i': case 'c': case 'r': same = (uint32_t)v.i == ((uint32_t)blk[a.off] << 24 | (uint32_t)blk[a.off + 1] << 16 | (uint32_t)blk[a.off + 2] << 8 | blk[a.off + 3]); break;
                    case 'f': { uint32_t u; memcpy(&u, &v.f, 4); same = u == ((uint32_t)blk[a.off] << 24 | (uint32_t)blk[a.off + 1] << 16 | (uint32_t)blk[a.off + 2] << 8 | blk[a.off + 3]); break; }
                    case 'm': same = !memcmp(v.m, blk + a.off, 4); break;
                    case 'h': case 't': case 'd': { uint64_t u = 0, w = 0; memcpy(&u, &v.h, 8); for (int q = 0; q < 8; q++) w = w << 8 | blk[a.off + q]; same = u == w; break; }
                    case 's': case 'S': same = v.s == m + a.off; if (same) { for (const char *c = v.s; *c; c++) sink += *c; stat_add(P_ACC_STRING); } break;
                    case 'b': same = (uint32_t)v.b.len == a.bloblen && (a.bloblen == 0 || (char *)v.b.data == m + a.off); if (same) { for (uint32_t q = 0; q < a.bloblen; q++) sink += v.b.data[q]; stat_add(P_ACC_BLOB); } break;
                    default: break;
                    }
                    if (!same) { snprintf(b, sizeof b, "rtosc_argument(%u) of type '%c' differs from the decoder (offset %zu, types \"%s\")", i, a.tag, a.off, d.types.c_str()); fail("ACCESSOR-VALUE", b); }
                }
                if (ok) {   // iterator: same sequence, same count
                    rtosc_arg_itr_t it = rtosc_itr_begin(m); unsigned cnt = 0;
                    while (!rtosc_itr_end(it) && cnt <= vals.size()) { rtosc_arg_val_t av = rtosc_itr_next(&it); if (cnt < vals.size() && av.type != vals[cnt].tag) { snprintf(b, sizeof b, "iterator yields '%c' at %u, decoder says '%c'", av.type, cnt, vals[cnt].tag); fail("ITERATOR", b); break; }
                        if (cnt < vals.size() && (av.type == 's' || av.type == 'S') && av.val.s != m + vals[cnt].off) { fail("ITERATOR", "iterator string pointer differs from the decoder"); break; } cnt++; }
                    if (ok && cnt != vals.size()) { snprintf(b, sizeof b, "iterator yields %u values, decoder %zu", cnt, vals.size()); fail("ITERATOR", b); }
                }
                (void)sink;
            }
        } else if (ok) stat_add(ST_REJECTED);
        free(blk);
        trace(mix64(mix64(L, V), n));
        return ok;
    }

    Result exec(const std::string &, const Knobs &, const Plan &plan, Choices &) override {
        Result res; stat_add(ST_RUNS);
        // split the plan: message ops up to the second ADDR, the rest of the message ops, fault ops
        Plan m1, m2, faults; int addrs = 0; bool bundle = !plan.empty() && plan[0].kind == G_BOPEN; int depth = 0; bool first_done = false;
        for (auto &op : plan) { if (op.kind == G_FAULT) { faults.push_back(op); continue; }
            if (bundle && !first_done) { m1.push_back(op); if (op.kind == G_BOPEN) depth++; if (op.kind == G_BCLOSE && --depth == 0) first_done = true; continue; }
            if (op.kind == G_ADDR) addrs++; if (op.kind == G_BOPEN || op.kind == G_BCLOSE) continue; ((addrs <= 1 && !bundle) ? m1 : m2).push_back(op); }
        std::vector<GElem> e1 = build(m1), e2 = build(m2);
        if (e1.empty()) { res.trace_hash = 1; return res; }
        std::vector<char> enc = encode(e1[0]); if (enc.size() > 512 || enc.empty()) { res.trace_hash = 2; return res; }
        if (e1[0].is_bundle) stat_add(P_BUNDLE_BASE);
        std::vector<unsigned char> base(enc.begin(), enc.end()), next;
        if (!e2.empty()) { std::vector<char> x = encode_msg(e2[0].msg); if (x.size() <= 512) next.assign(x.begin(), x.end()); }
        uint64_t shape = mix64(base.size(), hash_str(e1[0].is_bundle ? std::string("#bundle") + std::to_string(e1[0].kids.size()) : e1[0].msg.types())); for (auto &a : e1[0].msg.args) shape = mix64(shape, a.s.size() + a.blob.size()); for (auto &f : faults) shape = mix64(shape, f.a[0] * 7 + f.a[1]);
        res.shape_hash = shape; size_t n = base.size(); char what[160];
        uint64_t acc0 = 0; (void)acc0;
        // the undamaged message must be accepted and decode to itself (sanity of the harness and of the validator on valid traffic)
        if (!receive(base, false, res, "undamaged message")) { res.trace_hash = trace_value(); return res; }
        bool any_accepted_damaged = false; uint64_t before = 0; (void)before;
        auto run_variant = [&](std::vector<unsigned char> &v, int stat, const char *w) { stat_add(stat); size_t L0 = v.size(); (void)L0; bool r = receive(v, true, res, w); return r; };
        // ---- exhaustive single faults on the first message
        for (size_t k = 0; k <= n && res.cls.empty(); k++) { std::vector<unsigned char> v(base.begin(), base.begin() + k); snprintf(what, sizeof what, "truncated to %zu of %zu bytes", k, n); run_variant(v, F_TRUNC, what); }
        for (size_t i = 0; i < n && res.cls.empty(); i++) for (int bit = 0; bit < 8 && res.cls.empty(); bit++) { std::vector<unsigned char> v = base; v[i] ^= (unsigned char)(1u << bit); snprintf(what, sizeof what, "bit %d of byte %zu flipped (%zu bytes)", bit, i, n); run_variant(v, F_BITFLIP, what); }
        for (size_t o = 0; o + 4 <= n && res.cls.empty(); o += 4) for (size_t w = 0; w < sizeof WORDS / 4 + 3 && res.cls.empty(); w++) {
            uint32_t val = w < sizeof WORDS / 4 ? WORDS[w] : (uint32_t)(n - 4 - o) + (uint32_t)(w - sizeof WORDS / 4) - 1;   // also: the exact remaining length -1, +0, +1
            std::vector<unsigned char> v = base; v[o] = val >> 24; v[o + 1] = val >> 16; v[o + 2] = val >> 8; v[o + 3] = val; if (val >= 0x7fffffffu) stat_add(P_HUGE_BLOB_LEN);
            snprintf(what, sizeof what, "word at offset %zu overwritten with 0x%08x (%zu bytes)", o, val, n); run_variant(v, F_WORD, what); }
        // words relative to their own position: 2^32 - (offset behind the word) - d, d = 0..19 (sums that wrap, or just do not, in 32-bit position arithmetic)
        for (size_t o = 0; o + 4 <= n && res.cls.empty(); o += 4) for (uint32_t dd = 0; dd < 20 && res.cls.empty(); dd++) {
            uint32_t val = (uint32_t)(0u - (uint32_t)(o + 4) - dd);
            std::vector<unsigned char> v = base; v[o] = val >> 24; v[o + 1] = val >> 16; v[o + 2] = val >> 8; v[o + 3] = val; stat_add(P_HUGE_BLOB_LEN);
            snprintf(what, sizeof what, "word at offset %zu overwritten with 0x%08x = 2^32-%zu-%u (%zu bytes)", o, val, o + 4, dd, n); run_variant(v, F_WORD, what); }
        // a size or length word of all ones, cut after 1..3 of its bytes (a truncated field read as 0xff..00)
        for (size_t o = 0; o + 4 <= n && res.cls.empty(); o += 4) for (size_t cut = 1; cut <= 3 && res.cls.empty(); cut++) {
            std::vector<unsigned char> v(base.begin(), base.begin() + o + cut); for (size_t q = 0; q < cut; q++) v[o + q] = 0xff;
            snprintf(what, sizeof what, "word at offset %zu set to ff.. and the buffer cut after %zu of its bytes (%zu of %zu bytes)", o, cut, o + cut, n); run_variant(v, F_TRUNC, what); }
        for (size_t i = 0; i < n && res.cls.empty(); i++) if (!base[i]) for (int alt = 0; alt < 2 && res.cls.empty(); alt++) { std::vector<unsigned char> v = base; v[i] = alt ? 0xff : 'A'; snprintf(what, sizeof what, "NUL at offset %zu set to 0x%02x (%zu bytes)", i, v[i], n); run_variant(v, F_NUL, what); }
        if (!next.empty()) for (size_t k = 0; k <= n && res.cls.empty(); k++) { std::vector<unsigned char> v(base.begin(), base.begin() + k); if (k < next.size()) v.insert(v.end(), next.begin() + k, next.end()); snprintf(what, sizeof what, "spliced with the next message at offset %zu (%zu+%zu bytes)", k, n, next.size()); run_variant(v, F_SPLICE, what); }
        for (size_t mm = 1; mm <= 8 && res.cls.empty(); mm++) { std::vector<unsigned char> v = base; Rng r(shape + mm); for (size_t i = 0; i < mm; i++) v.push_back(mm % 2 ? 0 : (unsigned char)r.next()); snprintf(what, sizeof what, "%zu bytes appended (%zu bytes)", mm, n); run_variant(v, F_EXTEND, what); }
        for (size_t i = 0; i < n && res.cls.empty(); i++) { std::vector<unsigned char> v = base; v.erase(v.begin() + i); snprintf(what, sizeof what, "byte %zu lost (%zu bytes)", i, n); run_variant(v, F_DELETE, what); }
        for (size_t i = 0; i < n && res.cls.empty(); i++) { std::vector<unsigned char> v = base; v.insert(v.begin() + i, v[i]); snprintf(what, sizeof what, "byte %zu duplicated (%zu bytes)", i, n); run_variant(v, F_DUP, what); }
        // ---- the plan's multi-fault sequence
        if (res.cls.empty() && !faults.empty()) { std::vector<unsigned char> v = base; std::string w = "fault sequence";
            for (auto &f : faults) { apply_fault(v, next, (int)(((f.a[0] % W_NKINDS) + W_NKINDS) % W_NKINDS), std::llabs(f.a[1]), f.a[2]); w += " " + describe(f); }
            if (v.size() <= 1024) run_variant(v, F_MULTI, w.substr(0, 150).c_str()); }
        (void)any_accepted_damaged;
        res.nontrivial = true;
        res.trace_hash = trace_value();
        return res;
    }
};
int main(int argc, char **argv) { WireWorld w; return sim_main(argc, argv, w); }
