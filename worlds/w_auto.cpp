// w_auto — C19: automation output stays in range, MIDI-learn requests are served in order.
// Real: /repo/src/cpp/automations.cpp, ports.cpp (apropos, metadata), rtosc.c, port-sugar.h callbacks (messages are dispatched into a real App).
// Stub: UI, plugin host and MIDI device (three scripted event sources interleaved by the seeded plan), backend recorder.
#include "../simkit/sim.h"
#include "../apps/appnode.h"
#include <rtosc/automations.h>
#include <deque>
#include <new>
#include <algorithm>

using namespace sim;

enum { ST_RUNS, ST_OPS, ST_BACKEND_MSGS, F_NRPN_SPLIT, F_MIDI_UNBOUND, F_CLEAR_WHILE_WAITING, F_CLEAR_IDLE_WHILE_OTHERS_WAIT, F_OUT_OF_UNIT_RANGE, F_UNINIT_FILL,
       P_LEARN_SERVED, P_LEARN_SERVED_AFTER_CLEAR, P_LEARN_NRPN, P_BOUND_CC_DRIVES, P_BOUND_NRPN_DRIVES, P_QUEUE3, P_NEG_GAIN, P_CLAMPED_OUT, P_LOG_PARAM, P_TOGGLE_PARAM, P_INT_PARAM, P_MONO_PAIR, P_SILENT_RELEARN, P_INCOMPLETE_NRPN_WHILE_WAITING, P_LONG_ADDR, P_BIND_REFUSED, P_SLOPE, ST_N };
static const char *STAT_NAMES[ST_N] = { "runs", "ops", "backend_messages", "fault.nrpn_sequence_split_by_other_events", "fault.midi_from_unbound_controller", "fault.clear_of_waiting_slot", "fault.clear_of_idle_slot_while_others_wait", "fault.slot_value_outside_0_1", "fault.manager_memory_prefilled_nonzero",
       "probe.learn_request_served", "probe.learn_served_after_intervening_clear", "probe.learn_bound_to_nrpn", "probe.bound_cc_drives_slot", "probe.bound_nrpn_drives_slot", "probe.learn_queue_length_3", "probe.negative_gain", "probe.output_clamped_to_range",
       "probe.log_scale_parameter_driven", "probe.toggle_parameter_driven", "probe.int_parameter_driven", "probe.monotonic_pair_checked", "probe.learn_request_on_bound_or_waiting_slot", "probe.incomplete_nrpn_while_slot_waits", "probe.address_of_128_or_more_characters_bound", "probe.binding_of_a_long_address_refused", "probe.control_points_set_by_simple_slope" };

enum { K_SLOTS, K_PER, K_FILL, K_N };
enum { UI_BIND = 0, UI_CLEAR, UI_CLEARSUB, UI_GAIN, UI_OFFSET, HOST_SET, HOST_PAIR, MIDI_CC, MIDI_NRPN, UI_SLOPE };

static const char *BINDABLE[] = {"/pi", "/pi_neg", "/pf", "/pf_log", "/pf_unit", "/pt", "/po_b", "/af1", "/sub/sf", "/subs1/si", "/psub/st", "/ai2", "/odd/vol", "/odd/pc_r", "/odd/cut_i", "/odd/pi_big", "/odd/pi_imax", "/odd/pi_narrow", "/odd/a_sub_tree_with_a_name_that_is_much_longer_than_anyone_would_type_by_hand_0123456789/a_parameter_with_a_name_that_is_just_as_unreasonably_long_as_its_parent_s"};
static const int NBIND = 19;

struct MSub { bool used = false; int leaf = -1; char type = 0; double mn = 0, mx = 0; bool log = false; float gain = 100, offset = 0; int ovr = 0; /* control points set directly by simpleSlope: +1 rising, -1 not rising; 0: they follow gain and offset */ };
struct MSlot { std::vector<MSub> subs; int cc = -1, nrpn = -1; };

struct AutoWorld : World {
    const char *name() const override { return "w_auto"; }
    std::vector<std::string> properties() const override { return {"C19"}; }
    std::vector<std::string> stat_names() const override { return std::vector<std::string>(STAT_NAMES, STAT_NAMES + ST_N); }
    std::vector<std::string> knob_names() const override { return {"slots", "per_slot", "prefill"}; }
    std::string components() const override { return "{\"real\": [\"src/cpp/automations.cpp\", \"src/cpp/ports.cpp (apropos, metadata)\", \"include/rtosc/port-sugar.h callbacks (every emitted message is dispatched into a real object)\", \"src/rtosc.c\"], "
        "\"stub\": [\"UI, plugin host and MIDI device as scripted parties\", \"backend callback (recorder)\"]}"; }
    std::string rule() const override { return "one run = knobs (2..6 slots x 1..3 subs, prefill byte of the manager's memory) + one interleaved history (1..40 ops) of UI (bind/clear/clearSub/gain/offset), host (setSlot, monotonic pairs) and MIDI (CC, NRPN parts 99/98/6/38 that other events may split) events; "
        "after every op the learn positions, queue length and controller bindings of every slot and every backend message are compared with the model. Non-trivial = at least one learn request was served or one bound controller drove a slot or a fault fired; distinct = distinct hash of the op sequence."; }
    std::string describe(const Op &op) const override {
        char b[128];
        switch (op.kind) {
        case UI_BIND: snprintf(b, sizeof b, "UI:bind(slot=%lld,%s,learn=%lld)", (long long)op.a[0], BINDABLE[((op.a[1] % NBIND) + NBIND) % NBIND], (long long)op.a[2]); break;
        case UI_CLEAR: snprintf(b, sizeof b, "UI:clearSlot(%lld)", (long long)op.a[0]); break;
        case UI_CLEARSUB: snprintf(b, sizeof b, "UI:clearSlotSub(%lld,%lld)", (long long)op.a[0], (long long)op.a[1]); break;
        case UI_GAIN: snprintf(b, sizeof b, "UI:gain(%lld,%lld,%lld)", (long long)op.a[0], (long long)op.a[1], (long long)op.a[2]); break;
        case UI_SLOPE: snprintf(b, sizeof b, "UI:simpleSlope(%lld,%lld,%.3f span,at %.3f)", (long long)op.a[0], (long long)op.a[1], op.a[2] / 1000.0, op.a[3] / 1000.0); break;
        case UI_OFFSET: snprintf(b, sizeof b, "UI:offset(%lld,%lld,%lld)", (long long)op.a[0], (long long)op.a[1], (long long)op.a[2]); break;
        case HOST_SET: snprintf(b, sizeof b, "HOST:setSlot(%lld,%.3f)", (long long)op.a[0], op.a[1] / 1000.0); break;
        case HOST_PAIR: snprintf(b, sizeof b, "HOST:pair(%lld,%.3f<%.3f)", (long long)op.a[0], op.a[1] / 1000.0, op.a[2] / 1000.0); break;
        case MIDI_CC: snprintf(b, sizeof b, "MIDI:cc(ch=%lld,cc=%lld,val=%lld)", (long long)op.a[0], (long long)op.a[1], (long long)op.a[2]); break;
        default: snprintf(b, sizeof b, "MIDI:nrpn_part(%lld,val=%lld)", (long long)op.a[0], (long long)op.a[1]); break;
        }
        return b;
    }
    std::vector<Op> simpler(const Op &op) const override {
        std::vector<Op> v;
        if (op.kind == HOST_PAIR) { Op o = op; o.kind = HOST_SET; v.push_back(o); }
        if (op.kind == UI_BIND && op.a[1] % NBIND) { Op o = op; o.a[1] = 0; v.push_back(o); }
        if ((op.kind == UI_GAIN || op.kind == UI_OFFSET) && op.a[2]) { Op o = op; o.a[2] = op.kind == UI_GAIN ? 100 : 0; v.push_back(o); }
        if (op.kind == MIDI_CC && (op.a[0] || op.a[2] != 64)) { Op o = op; o.a[0] = 0; o.a[2] = 64; v.push_back(o); }
        if (op.a[0] > 0 && op.kind != MIDI_CC && op.kind != MIDI_NRPN) { Op o = op; o.a[0] = 0; v.push_back(o); }
        return v;
    }
    void gen(const std::string &, Rng &kr, Rng &pr, Knobs &k, Plan &p) override {
        k.assign(K_N, 0); k[K_SLOTS] = 2 + kr.below(5); k[K_PER] = 1 + kr.below(3); k[K_FILL] = kr.pick(std::vector<int64_t>{0xbe, 0x00, 0xff, 0x01});
        int ns = (int)k[K_SLOTS], per = (int)k[K_PER];
        int n = 1 + (int)pr.below(g_tier ? 100 : 40);
        double w_bind = 0.15 + 0.2 * pr.unit(), w_clear = 0.05 + 0.1 * pr.unit(), w_map = 0.1 * pr.unit(), w_host = 0.1 + 0.2 * pr.unit(), w_midi = 0.2 + 0.3 * pr.unit(), w_nrpn = pr.chance(0.5) ? 0.15 : 0.0;
        double tot = w_bind + w_clear + w_map + w_host + w_midi + w_nrpn;
        int ncc = 2 + (int)pr.below(4); int nrpn_next = 0; int nrpn_par = (int)pr.below(3);
        for (int i = 0; i < n; i++) {
            Op o; double u = pr.unit() * tot;
            if ((u -= w_bind) < 0) { o.kind = UI_BIND; o.a[0] = pr.below(ns); o.a[1] = pr.below(NBIND); o.a[2] = pr.chance(0.65); }
            else if ((u -= w_clear) < 0) { if (pr.chance(0.7)) { o.kind = UI_CLEAR; o.a[0] = pr.below(ns); } else { o.kind = UI_CLEARSUB; o.a[0] = pr.below(ns); o.a[1] = pr.below(per); } }
            else if ((u -= w_map) < 0) { o.kind = pr.chance(0.5) ? UI_GAIN : UI_OFFSET; o.a[0] = pr.below(ns); o.a[1] = pr.below(per); o.a[2] = o.kind == UI_GAIN ? (pr.chance(0.2) ? -(int64_t)pr.below(200) : (int64_t)pr.below(301)) : (int64_t)pr.below(201) - 100;
                if (pr.chance(0.25)) { o.kind = UI_SLOPE; o.a[2] = pr.chance(0.2) ? -(int64_t)pr.below(1500) : pr.chance(0.3) ? 1000 : (int64_t)pr.below(1501); o.a[3] = pr.chance(0.3) ? 500 : (int64_t)pr.below(1501) - 250; } }
            else if ((u -= w_host) < 0) { o.a[0] = pr.below(ns);
                auto val = [&]() -> int64_t { double s = pr.unit(); return s < 0.1 ? 0 : s < 0.2 ? 1000 : s < 0.3 ? 500 : s < 0.85 ? (int64_t)pr.below(1001) : (int64_t)pr.below(4001) - 1500; };
                if (pr.chance(0.35)) { o.kind = HOST_PAIR; o.a[1] = val(); o.a[2] = val(); if (o.a[1] > o.a[2]) std::swap(o.a[1], o.a[2]); } else { o.kind = HOST_SET; o.a[1] = val(); } }
            else if ((u -= w_midi) < 0) { o.kind = MIDI_CC; o.a[0] = pr.chance(0.8) ? 0 : pr.below(3); o.a[1] = 10 + pr.below(ncc); if (pr.chance(0.05)) o.a[1] = pr.pick(std::vector<int64_t>{0, 1, 127}); o.a[2] = pr.chance(0.2) ? pr.pick(std::vector<int64_t>{0, 127}) : (int64_t)pr.below(128); }
            else { o.kind = MIDI_NRPN; static const int seq[4] = {99, 98, 6, 38};
                if (pr.chance(0.85)) { o.a[0] = seq[nrpn_next]; nrpn_next = (nrpn_next + 1) % 4; } else o.a[0] = seq[pr.below(4)];
                o.a[1] = (o.a[0] == 99) ? 0 : (o.a[0] == 98) ? nrpn_par + (pr.chance(0.2) ? (int64_t)pr.below(3) : 0) : (int64_t)pr.below(128); }
            p.push_back(o);
        }
    }

    Result exec(const std::string &, const Knobs &k, const Plan &plan, Choices &) override {
        Result res; stat_add(ST_RUNS);
        int ns = (int)std::max<int64_t>(1, std::min<int64_t>(k.size() > K_SLOTS ? k[K_SLOTS] : 2, 8)), per = (int)std::max<int64_t>(1, std::min<int64_t>(k.size() > K_PER ? k[K_PER] : 1, 4));
        int fill = (int)(k.size() > K_FILL ? k[K_FILL] & 0xff : 0xbe);
        if (fill != 0xbe) stat_add(F_UNINIT_FILL);
        // the manager lives in memory pre-filled by the simulator: members its constructor forgets are then a knob, not noise
        void *mem = operator new(sizeof(rtosc::AutomationMgr)); memset(mem, fill, sizeof(rtosc::AutomationMgr));
        rtosc::AutomationMgr *mgr = new (mem) rtosc::AutomationMgr(ns, per, 4);
        mgr->set_ports(app::App::ports);
        app::Node node; node.check = false;
        std::vector<std::vector<char>> outbox;
        mgr->backend = [&](const char *m) { size_t n = rtosc_message_length(m, 256); outbox.emplace_back(m, m + n); stat_add(ST_BACKEND_MSGS); };
        auto &L = app::leaves();
        auto leaf_of = [&](const char *path) { for (size_t i = 0; i < L.size(); i++) if (L[i].addr == path) return (int)i; return -1; };

        std::vector<MSlot> ms(ns); for (auto &s : ms) s.subs.resize(per);
        std::deque<int> fifo;                  // slots waiting for MIDI learn, oldest first
        int nr_parhi = -1, nr_parlo = -1, nr_valhi = -1, nr_vallo = -1;   // NRPN assembly (MIDI protocol)
        int nrpn_progress = 0; bool nontrivial = false; uint64_t shape = 0;
        std::vector<bool> cleared_since_request(ns, false);
        auto fail = [&](const char *cls, const std::string &d) { if (res.cls.empty()) { res.cls = cls; res.detail = d; } };
        char b[400];

        // expected output of one used sub for slot value v; returns false if the message is wrong
        auto check_msg = [&](int opi, const MSub &s, float v, const std::vector<char> &m, double *num_out) -> bool {
            const app::Leaf &l = L[s.leaf]; const char *mm = m.data();
            if (l.addr != mm) { snprintf(b, sizeof b, "op %d: message went to %s, the bound parameter is %s", opi, mm, l.addr.c_str()); fail("ADDRESS", b); return false; }
            const char *ts = rtosc_argument_string(mm); double out;
            if (s.type == 'T') { if (strcmp(ts, "T") && strcmp(ts, "F")) { snprintf(b, sizeof b, "op %d: toggle %s driven with type '%s'", opi, mm, ts); fail("TYPE", b); return false; } out = ts[0] == 'T'; stat_add(P_TOGGLE_PARAM); }
            else {
                if (strlen(ts) != 1 || ts[0] != s.type) { snprintf(b, sizeof b, "op %d: %s is of type '%c' but was driven with '%s'", opi, mm, s.type, ts); fail("TYPE", b); return false; }
                out = s.type == 'f' ? (double)rtosc_argument(mm, 0).f : (double)rtosc_argument(mm, 0).i;
                double tol = s.log ? 1e-5 * std::max(fabs(s.mn), fabs(s.mx)) : 0;
                if (!(out >= s.mn - tol && out <= s.mx + tol)) { snprintf(b, sizeof b, "op %d: %s driven with %.9g outside its declared range [%g,%g] (slot value %g, gain %g, offset %g)", opi, mm, out, s.mn, s.mx, v, s.gain, s.offset); fail("RANGE", b); return false; }
                if (s.type == 'i' || s.type == 'c') stat_add(P_INT_PARAM); if (s.log) stat_add(P_LOG_PARAM);
                if (s.ovr == 0 && s.gain == 100 && s.offset == 0 && v >= 0 && v <= 1) {     // default mapping: linear 0..1 -> min..max
                    double e = s.log ? exp(log(s.mn) + v * (log(s.mx) - log(s.mn))) : s.mn + (double)v * (s.mx - s.mn);
                    bool ok;
                    if (s.type == 'i' || s.type == 'c') { double tolr = 1e-4 * (fabs(s.mx - s.mn) + 1) + 4e-7 * (fabs(s.mn) + fabs(s.mx) + fabs(e)); ok = fabs(out - e) <= 0.5 + tolr; }   // rounded to the nearest integer; the map runs through single-precision control points (as for floats: their resolution at the bounds' magnitude is granted)
                    else if (s.log) ok = fabs(out - e) <= 1e-5 * fabs(e) + 1e-12;
                    else ok = fabs(out - e) <= 4e-7 * (fabs(s.mn) + fabs(s.mx) + fabs(e));
                    if (!ok) { snprintf(b, sizeof b, "op %d: %s at default gain/offset, slot value %.9g -> %.9g, linear map onto [%g,%g] gives %.9g", opi, mm, v, out, s.mn, s.mx, e); fail("LINEAR", b); return false; }
                }
                if (out == s.mn || out == s.mx) stat_add(P_CLAMPED_OUT);
            }
            if (num_out) *num_out = out;
            return true;
        };
        // a slot is driven with value v: exactly one message per used sub, in sub order
        auto expect_drive = [&](int opi, int slot, float v, std::vector<double> *outs) {
            size_t idx = 0;
            for (auto &s : ms[slot].subs) if (s.used) {
                if (idx >= outbox.size()) { snprintf(b, sizeof b, "op %d: slot %d driven with %g but parameter %s received no message", opi, slot, v, L[s.leaf].addr.c_str()); fail("MISSING", b); return; }
                double o = 0; if (!check_msg(opi, s, v, outbox[idx], &o)) return; if (outs) outs->push_back(o);
                // the message must be admitted by the real port and store exactly the sent value
                if (!node.apply_raw(outbox[idx].data())) { snprintf(b, sizeof b, "op %d: message to %s is not admitted by its port", opi, outbox[idx].data()); fail("TYPE", b); return; }
                idx++;
            }
            if (idx != outbox.size()) { snprintf(b, sizeof b, "op %d: %zu extra backend message(s), first to %s", opi, outbox.size() - idx, outbox[idx].data()); fail("EXTRA", b); }
        };
        auto serve_learn = [&](int opi, bool nrpn, int id, float v) {   // an unbound controller arrived
            (void)opi;
            if (fifo.empty()) return -1;
            int s = fifo.front(); fifo.pop_front();
            if ((nrpn ? ms[s].nrpn : ms[s].cc) != -1) { snprintf(b, sizeof b, "op %d: slot %d is bound to %s %d and was never cleared, yet a learn request replaces that binding by %d: the old controller stops driving its slot", opi, s, nrpn ? "nrpn" : "cc", nrpn ? ms[s].nrpn : ms[s].cc, id); fail("REBIND", b); }
            if (nrpn) ms[s].nrpn = id; else ms[s].cc = id;
            stat_add(P_LEARN_SERVED); if (nrpn) stat_add(P_LEARN_NRPN); if (cleared_since_request[s]) stat_add(P_LEARN_SERVED_AFTER_CLEAR); nontrivial = true; (void)v;
            return s;
        };
        auto check_state = [&](int opi, const Op &op) {
            if (mgr->learn_queue_len != (int)fifo.size()) { snprintf(b, sizeof b, "after op %d %s: learn queue length is %d, %zu slot(s) are waiting", opi, describe(op).c_str(), mgr->learn_queue_len, fifo.size()); fail("LEARN-QUEUE", b); return; }
            for (int i = 0; i < ns; i++) {
                int pos = -1; for (size_t q = 0; q < fifo.size(); q++) if (fifo[q] == i) pos = (int)q + 1;
                if (mgr->slots[i].learning != pos) { snprintf(b, sizeof b, "after op %d %s: slot %d has learn position %d, it should be %d (queue of %zu)", opi, describe(op).c_str(), i, mgr->slots[i].learning, pos, fifo.size()); fail("LEARN-ORDER", b); return; }
                if (mgr->slots[i].midi_cc != ms[i].cc || mgr->slots[i].midi_nrpn != ms[i].nrpn) { snprintf(b, sizeof b, "after op %d %s: slot %d is bound to cc %d / nrpn %d, it should be cc %d / nrpn %d", opi, describe(op).c_str(), i, mgr->slots[i].midi_cc, mgr->slots[i].midi_nrpn, ms[i].cc, ms[i].nrpn); fail("BINDING", b); return; }
            }
        };

        int opi = 0;
        for (auto &op : plan) {
            opi++; stat_add(ST_OPS); outbox.clear();
            shape = mix64(shape, op.kind * 1000003 + (uint64_t)op.a[0] * 131 + (uint64_t)op.a[1] * 17 + (uint64_t)op.a[2]);
            int slot = (int)(((op.a[0] % ns) + ns) % ns);
            if (op.kind != MIDI_NRPN && nrpn_progress > 0 && nrpn_progress < 4) stat_add(F_NRPN_SPLIT);
            switch (op.kind) {
            case UI_BIND: {
                const char *path = BINDABLE[((op.a[1] % NBIND) + NBIND) % NBIND]; bool learn = op.a[2] & 1;
                int free_sub = -1; for (int j = 0; j < per; j++) if (!ms[slot].subs[j].used) { free_sub = j; break; }
                mgr->createBinding(slot, path, learn);
                // an address the manager cannot hold may be refused whole (then nothing is bound and nothing may ever be sent for it)
                if (free_sub >= 0 && strlen(path) >= 128 && !mgr->slots[slot].automations[free_sub].used) { stat_add(P_BIND_REFUSED); break; }
                if (strlen(path) >= 128) stat_add(P_LONG_ADDR);
                if (free_sub >= 0) {
                    MSub &s = ms[slot].subs[free_sub]; s.used = true; s.leaf = leaf_of(path); const app::Leaf &l = L[s.leaf];
                    s.type = l.kind == app::K_PARAM_F ? 'f' : l.kind == app::K_TOGGLE ? 'T' : l.kind == app::K_PARAM_C ? 'c' : 'i';
                    if (s.type == 'T') { s.mn = 0; s.mx = 1; } else if (s.type == 'f') { s.mn = (float)atof(l.mn); s.mx = (float)atof(l.mx); } else { s.mn = atof(l.mn); s.mx = atof(l.mx); }   // integer bounds are exact (not every int is a float)
                    s.log = l.log_scale; s.gain = 100; s.offset = 0; s.ovr = 0;
                    if (learn) {
                        bool waiting = std::find(fifo.begin(), fifo.end(), slot) != fifo.end(); bool bound = ms[slot].cc != -1 || ms[slot].nrpn != -1;
                        if (!waiting && !bound) { fifo.push_back(slot); cleared_since_request[slot] = false; if (fifo.size() >= 3) stat_add(P_QUEUE3); }
                        else { stat_add(P_SILENT_RELEARN);     // the statement is silent: follow what the manager did, as long as it is one of {ignored, appended}
                            if (!waiting && mgr->slots[slot].learning == (int)fifo.size() + 1) { fifo.push_back(slot); cleared_since_request[slot] = false; } }
                    }
                }
                break; }
            case UI_CLEAR: {
                auto it = std::find(fifo.begin(), fifo.end(), slot);
                if (it != fifo.end()) { fifo.erase(it); stat_add(F_CLEAR_WHILE_WAITING); } else if (!fifo.empty()) stat_add(F_CLEAR_IDLE_WHILE_OTHERS_WAIT);
                for (int q : fifo) cleared_since_request[q] = true;
                ms[slot].cc = ms[slot].nrpn = -1; for (auto &s : ms[slot].subs) s = MSub();
                mgr->clearSlot(slot); break; }
            case UI_CLEARSUB: { int sub = (int)(((op.a[1] % per) + per) % per); ms[slot].subs[sub] = MSub(); mgr->clearSlotSub(slot, sub); break; }
            case UI_GAIN: case UI_OFFSET: {
                int sub = (int)(((op.a[1] % per) + per) % per); float val = (float)std::max<int64_t>(-400, std::min<int64_t>(op.a[2], 400));
                if (op.kind == UI_GAIN) { mgr->setSlotSubGain(slot, sub, val); ms[slot].subs[sub].gain = val; if (val < 0) stat_add(P_NEG_GAIN); } else { mgr->setSlotSubOffset(slot, sub, val); ms[slot].subs[sub].offset = val; } ms[slot].subs[sub].ovr = 0;   /* (updateMapping below puts the control points back under gain and offset) */
                mgr->updateMapping(slot, sub); break; }
            case UI_SLOPE: {   // the other way to shape a sub-automation: control points from a slope and an offset in parameter units (gain and offset stay as they are)
                int sub = (int)(((op.a[1] % per) + per) % per); MSub &m = ms[slot].subs[sub]; double span = m.used ? m.mx - m.mn : 1.0, lo = m.used ? m.mn : 0.0;
                float slope = (float)(span * (double)std::max<int64_t>(-1500, std::min<int64_t>(op.a[2], 1500)) / 1000.0), off = (float)(lo + span * (double)std::max<int64_t>(-250, std::min<int64_t>(op.a[3], 1250)) / 1000.0);
                mgr->simpleSlope(slot, sub, slope, off); if (m.used) { m.ovr = slope > 0 ? 1 : -1; stat_add(P_SLOPE); } break; }
            case HOST_SET: { float v = op.a[1] / 1000.0f; if (v < 0 || v > 1) stat_add(F_OUT_OF_UNIT_RANGE); mgr->setSlot(slot, v); expect_drive(opi, slot, v, nullptr); break; }
            case HOST_PAIR: {
                float v1 = op.a[1] / 1000.0f, v2 = op.a[2] / 1000.0f; std::vector<double> o1, o2;
                mgr->setSlot(slot, v1); expect_drive(opi, slot, v1, &o1); outbox.clear();
                mgr->setSlot(slot, v2); expect_drive(opi, slot, v2, &o2);
                if (res.cls.empty() && v1 <= v2 && o1.size() == o2.size()) { size_t q = 0;
                    for (auto &s : ms[slot].subs) if (s.used) { if (s.ovr ? s.ovr > 0 : s.gain > 0) { stat_add(P_MONO_PAIR); if (o2[q] < o1[q]) { snprintf(b, sizeof b, "op %d: slot %d, %s: value fell from %.9g to %.9g when the slot value rose from %g to %g (gain %g)", opi, slot, L[s.leaf].addr.c_str(), o1[q], o2[q], v1, v2, s.gain); fail("MONOTONIC", b); } } q++; } }
                break; }
            case MIDI_CC: {
                int ch = (int)(((op.a[0] % 16) + 16) % 16), cc = (int)(((op.a[1] % 128) + 128) % 128), val = (int)(((op.a[2] % 128) + 128) % 128);
                if (cc == 6 || cc == 38 || cc == 98 || cc == 99) cc = 7;    // those are the NRPN op's business
                int id = ch * 128 + cc; std::vector<int> driven;
                for (int i = 0; i < ns; i++) if (ms[i].cc == id) driven.push_back(i);
                if (driven.empty()) { stat_add(F_MIDI_UNBOUND); int s = serve_learn(opi, false, id, val / 127.0f); if (s >= 0) driven.push_back(s); } else { stat_add(P_BOUND_CC_DRIVES); nontrivial = true; }
                mgr->handleMidi(ch, cc, val);
                // exactly the driven slots emit, in slot order
                { std::vector<std::vector<char>> all = outbox; size_t off = 0;
                  for (int s : driven) { size_t cnt = 0; for (auto &u : ms[s].subs) if (u.used) cnt++; outbox.assign(all.begin() + std::min(off, all.size()), all.begin() + std::min(off + cnt, all.size())); expect_drive(opi, s, val / 127.0f, nullptr); off += cnt; }
                  if (res.cls.empty() && off < all.size()) { snprintf(b, sizeof b, "op %d %s: %zu message(s) from slots the controller is not bound to, first to %s", opi, describe(op).c_str(), all.size() - off, all[off].data()); fail("CROSS-DRIVE", b); } }
                break; }
            case MIDI_NRPN: {
                int type = (int)op.a[0]; if (type != 99 && type != 98 && type != 6 && type != 38) type = 99; int val = (int)(((op.a[1] % 128) + 128) % 128);
                if (type == 99) { nr_parhi = val; nr_valhi = nr_vallo = -1; nrpn_progress = 1; } else if (type == 98) { nr_parlo = val; nr_valhi = nr_vallo = -1; nrpn_progress = 2; }
                else if (type == 6) { if (nr_parhi >= 0 && nr_parlo >= 0) nr_valhi = val; nrpn_progress = 3; } else { if (nr_parhi >= 0 && nr_parlo >= 0) nr_vallo = val; nrpn_progress = 4; }
                bool complete = nr_parhi >= 0 && nr_parlo >= 0 && nr_valhi >= 0 && nr_vallo >= 0; std::vector<int> driven; float v = 0;
                if (complete) { int id = (nr_parhi << 7) + nr_parlo; int value = (nr_valhi << 7) + nr_vallo; v = value / 16383.0f;
                    for (int i = 0; i < ns; i++) if (ms[i].nrpn == id) driven.push_back(i);
                    if (driven.empty()) { stat_add(F_MIDI_UNBOUND); int s = serve_learn(opi, true, id, v); if (s >= 0) { driven.push_back(s); v = -1; } } else { stat_add(P_BOUND_NRPN_DRIVES); nontrivial = true; } }
                else if (!fifo.empty()) stat_add(P_INCOMPLETE_NRPN_WHILE_WAITING);
                mgr->handleMidi(0, type, val);
                { std::vector<std::vector<char>> all = outbox; size_t off = 0;
                  for (int s : driven) { size_t cnt = 0; for (auto &u : ms[s].subs) if (u.used) cnt++; outbox.assign(all.begin() + std::min(off, all.size()), all.begin() + std::min(off + cnt, all.size()));
                      // the slot value used for a freshly learned NRPN is not specified: only address, type and range are checked (v outside [0,1] skips the linear clause)
                      expect_drive(opi, s, v < 0 ? 2.0f : v, nullptr); off += cnt; }
                  if (res.cls.empty() && off < all.size()) { snprintf(b, sizeof b, "op %d %s: %zu message(s) although no slot is bound to this controller (%s), first to %s", opi, describe(op).c_str(), all.size() - off, complete ? "complete NRPN" : "incomplete NRPN sequence", all[off].data()); fail("CROSS-DRIVE", b); } }
                break; }
            }
            if (!res.cls.empty()) break;
            check_state(opi, op);
            if (!res.cls.empty()) break;
            trace(mix64(opi, outbox.size())); for (int i = 0; i < ns; i++) trace(mix64(mgr->slots[i].learning, mgr->slots[i].midi_cc));
        }
        mgr->~AutomationMgr(); operator delete(mem);
        res.trace_hash = trace_value(); res.shape_hash = shape; res.nontrivial = nontrivial;
        return res;
    }
};
int main(int argc, char **argv) { AutoWorld w; return sim_main(argc, argv, w); }
