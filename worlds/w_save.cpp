// w_save — C12 (savefiles restore the saved state, are minimal, bad files are rejected) and C13 (loading does not
// depend on line order).  The savefile is the only durable state: user sets -> save -> crash -> restart (fresh
// default instance) -> load, with file faults attached to the save/load ops.
// Real: savefile.cpp, default-value.cpp, ports-runtime.cpp, ports.cpp (walk, dispatch), pretty-format.c, arg-val-*.c,
// rtosc.c, port-sugar.h callbacks.  Stub: user, disk, process lifecycle.
#include "../simkit/sim.h"
#include "../apps/save_apps.h"
#include <rtosc/savefile.h>
#include <set>
#include <algorithm>
#include <cmath>
#include <cfloat>
#include <climits>

using namespace sim; using namespace sapp;

enum { ST_RUNS, ST_SETS, ST_CYCLES, ST_LOADS, F_CRASH, F_LOST, F_TORN, F_FLIP, F_HEADER, F_APPNAME, F_GARBAGE, F_UNKNOWN_PORT, F_PERMUTED, F_DEP_LINE_DELETED,
       P_UNTOUCHED, P_LINES3, P_NEG_VALUE, P_FLOAT_LINE, P_TOGGLE_LINE, P_STRING_SPECIAL, P_ARRAY_LINE, P_PRESET_NONZERO, P_SUBTREE_LINE, P_PTR_SUBTREE_LINE, P_PRUNED, P_OPTION_LINE, P_PERM_ALL, P_PERM_SAMPLED, P_DEP_ORDER_MATTERED, P_TORN_ACCEPTED, P_NAME_WITH_BLANK, P_NEAR_MISS_PORT, P_AUTOSAVE, P_CHAR_ZERO, P_JOINED, ST_N };
static const char *STAT_NAMES[ST_N] = { "runs", "sets", "save_crash_restart_load_cycles", "evaluations", "fault.crash_restart", "fault.lost_write", "fault.torn_write", "fault.flipped_byte", "fault.foreign_header", "fault.other_application", "fault.unparsable_line", "fault.unknown_port_line", "fault.lines_permuted", "fault.depended_on_line_deleted",
       "probe.untouched_application_saved", "probe.savefile_with_3_or_more_lines", "probe.negative_value_saved", "probe.float_saved", "probe.toggle_saved", "probe.string_with_special_characters_saved", "probe.array_saved", "probe.non_default_preset_saved",
       "probe.subtree_parameter_saved", "probe.pointer_subtree_parameter_saved", "probe.disabled_subtree_pruned", "probe.option_saved", "probe.all_permutations_enumerated", "probe.permutations_sampled", "probe.file_with_dependency_between_lines", "probe.torn_file_accepted_partially", "probe.application_name_with_a_blank", "probe.unknown_port_named_like_a_port_plus_suffix", "probe.autosave_without_restart", "probe.char_parameter_zero_saved", "probe.order_loaded_with_all_messages_on_one_line" };

enum { OP_SET = 0, OP_CYCLE, OP_FILL };
enum { FL_NONE = 0, FL_LOST, FL_TORN, FL_FLIP, FL_HEADER, FL_APP, FL_GARBAGE, FL_UNKNOWN, FL_N };

static std::string g_appname;   // the name the application saves and loads under in this run (a knob: the plain name, or one with a blank in it)
struct Inst { const AppDesc *d; void *obj; Inst(const AppDesc &dd) : d(&dd), obj(dd.make()) {} ~Inst() { d->destroy(obj); } Inst(const Inst &) = delete; };
struct Loc : rtosc::RtData { char buf[512]; Loc() { memset(buf, 0, sizeof buf); loc = buf; loc_size = sizeof buf; } };

static std::vector<Val> snapshot(Inst &in) { std::vector<Val> v; for (auto &p : *in.d->params) for (int k = 0; k < p.elems; k++) v.push_back(p.get(in.obj, k)); return v; }
static std::vector<bool> reach_mask(Inst &in) { std::vector<bool> v; for (auto &p : *in.d->params) for (int k = 0; k < p.elems; k++) v.push_back(p.reachable(in.obj)); return v; }
static std::vector<std::string> elem_names(const AppDesc &d) { std::vector<std::string> v; for (auto &p : *d.params) for (int k = 0; k < p.elems; k++) v.push_back(p.elems > 1 ? p.addr + "[" + std::to_string(k) + "]" : p.addr); return v; }
// a message = a line starting with '/' plus its continuation lines (the printer breaks long values and strings with newlines)
static std::vector<std::string> message_lines(const std::string &text) {
    std::vector<std::string> l; size_t a = 0; int n = 0;
    while (a <= text.size()) { size_t e = text.find('\n', a); if (e == std::string::npos) e = text.size(); std::string line = text.substr(a, e - a);
        if (n >= 2) { if (!line.empty() && line[0] == '/') l.push_back(line); else if (!l.empty()) l.back() += "\n" + line; else if (!line.empty()) l.push_back(line); }
        n++; a = e + 1; }
    return l; }
static std::string header_of(const std::string &text) { size_t a = text.find('\n'); if (a == std::string::npos) return text; size_t b = text.find('\n', a + 1); return b == std::string::npos ? text : text.substr(0, b + 1); }

struct SaveWorld : World {
    const char *name() const override { return "w_save"; }
    std::vector<std::string> properties() const override { return {"C12", "C13"}; }
    std::vector<std::string> stat_names() const override { return std::vector<std::string>(STAT_NAMES, STAT_NAMES + ST_N); }
    std::vector<std::string> knob_names() const override { return {"application"}; }
    std::string components() const override { return "{\"real\": [\"src/cpp/savefile.cpp\", \"src/cpp/default-value.cpp\", \"src/cpp/ports-runtime.cpp\", \"src/cpp/ports.cpp (walk_ports, port_is_enabled, dispatch, canonicalize/map_arg_vals)\", \"src/cpp/pretty-format.c\", \"src/cpp/arg-val-*.c\", \"src/rtosc.c\", \"include/rtosc/port-sugar.h callbacks\"], "
        "\"stub\": [\"user issuing parameter messages\", \"disk (one file that survives the crash)\", \"process lifecycle (crash = the object is destroyed, restart = a default-initialised one)\"]}"; }
    std::string rule() const override { return "one run = one of three hand-written applications (flat: every parameter kind; synth: preset-dependent defaults, enabled-by / enumerated / pointer sub-trees, a declared dependency; deps: enumerated units whose dependants are declared before their providers, chained default dependencies) + a history of parameter sets interleaved with save->crash->restart->load cycles, each cycle with one file fault (none, lost write, torn write at byte k, flipped bit, foreign header, other application, unparsable line, unknown-port line). "
        "C13 runs additionally load every permutation of the message lines (all for <= 6 lines, 200 seeded beyond) and of the file with each depended-on line deleted. evaluations = loads performed. Non-trivial = a savefile with at least one message line was loaded; distinct = distinct hash of the op sequence."; }
    std::string describe(const Op &op) const override {
        char b[200];
        if (op.kind == OP_FILL) { snprintf(b, sizeof b, "fill(#%lld,from=%lld,start=%lld,step=%lld)", (long long)op.a[0], (long long)op.a[1], (long long)op.a[2], (long long)op.a[3]); return b; }
        if (op.kind == OP_SET) { snprintf(b, sizeof b, "set(#%lld[%lld],%lld%s%s)", (long long)op.a[0], (long long)op.a[1], (long long)op.a[2], op.s.empty() ? "" : ",", op.s.c_str()); return b; }
        static const char *f[] = {"none", "lost_write", "torn", "flip", "foreign_header", "other_app", "garbage_line", "unknown_port"};
        if (op.a[3] & 1) return "autosave";
        snprintf(b, sizeof b, "save|crash|restart|load(fault=%s,%lld,%lld)", f[((op.a[0] % FL_N) + FL_N) % FL_N], (long long)op.a[1], (long long)op.a[2]); return b;
    }
    std::vector<Op> simpler(const Op &op) const override {
        std::vector<Op> v; if (op.kind == OP_SET && op.s.size() > 1) { Op o = op; o.s = op.s.substr(0, op.s.size() / 2); v.push_back(o); }
        if (op.kind == OP_SET && op.a[2] > 3) { Op o = op; o.a[2] = 1; v.push_back(o); }
        return v;
    }
    void gen(const std::string &prop, Rng &kr, Rng &pr, Knobs &k, Plan &p) override {
        k.assign(2, 0); k[0] = kr.chance(0.04) ? 3 : prop == "C13" ? (kr.chance(0.5) ? 2 : kr.below(2)) : kr.below(3); k[1] = kr.chance(0.06); const AppDesc &d = app_desc((int)k[0]); auto &P = *d.params;
        size_t focus0 = pr.below(P.size()), focusn = 3 + pr.below(8);
        // half of the runs work on one leaf's neighbourhood instead: the parameters of its own directory and of every directory above it
        // (the toggles and selectors that enable, reset or select defaults for it live there)
        std::vector<int> hood; if (pr.chance(0.5)) { const std::string &fa = P[pr.below(P.size())].addr; std::string fdir = fa.substr(0, fa.rfind('/') + 1);
            for (size_t q = 0; q < P.size(); q++) { std::string qd = P[q].addr.substr(0, P[q].addr.rfind('/') + 1); if (fdir.compare(0, qd.size(), qd) == 0) hood.push_back((int)q); } }
        bool allow_char_zero = pr.chance(0.5);   // (char parameters holding 0 were the trigger of a finding repaired since)
        int n = 1 + (int)pr.below(prop == "C13" ? 18 : (g_tier ? 60 : 24)); bool faults = prop == "C12" && pr.chance(0.5);
        for (int i = 0; i < n; i++) {
            Op o;
            if (pr.chance(0.15)) { // fill an array with a constant run or an arithmetic sequence (the printer compresses those into ranges)
                std::vector<int> arrs; for (size_t q = 0; q < P.size(); q++) if (P[q].elems >= 3 && (P[q].type == 'i' || P[q].type == 'f')) arrs.push_back((int)q);
                if (!arrs.empty()) { o.kind = OP_FILL; o.a[0] = arrs[pr.below(arrs.size())]; o.a[1] = pr.below(12); o.a[2] = (int64_t)pr.below(9) - 4; o.a[3] = pr.chance(0.4) ? 0 : pr.chance(0.5) ? 1 : (int64_t)pr.below(5) - 2; p.push_back(o); if (pr.chance(0.5)) { Op o2 = o; o2.a[1] = pr.below(12); o2.a[2] = (int64_t)pr.below(9) - 4; o2.a[3] = pr.chance(0.5) ? 1 : (int64_t)pr.below(5) - 2; p.push_back(o2); } continue; } }   // often two fills of the same array: a run followed by a sequence
            if (pr.chance(0.8)) { o.kind = OP_SET; int pi = pr.chance(0.75) ? (hood.empty() ? (int)((focus0 + pr.below(focusn)) % P.size()) : hood[pr.below(hood.size())]) : (int)pr.below(P.size()); /* most sets hit a block of related parameters */ const Param &pp = P[pi]; o.a[0] = pi; o.a[1] = pr.below(pp.elems);
                switch (pp.type) {
                case 'i': case 'c': { double s = pr.unit(); double lo = std::max(pp.lo, -2147483648.0), hi = std::min(pp.hi, 2147483647.0);
                    o.a[2] = s < 0.6 ? (int64_t)(lo + floor(pr.unit() * (std::min(hi, lo + 400) - lo + 1))) : s < 0.8 ? pr.pick(std::vector<int64_t>{(int64_t)lo, (int64_t)hi, (int64_t)lo - 1, (int64_t)hi + 1, 0, -1}) : (int64_t)(lo + floor(pr.unit() * (hi - lo + 1)));
                    if (pp.type == 'c') { o.a[2] = std::max<int64_t>(0, std::min<int64_t>(o.a[2], 127)); if (o.a[2] == 0 && !allow_char_zero) o.a[2] = 1; } break; }
                case 'f': { double s = pr.unit(); float f = s < 0.5 ? (float)(pp.lo + (pp.hi - pp.lo) * pr.unit()) : s < 0.7 ? (float)((int)pr.below(81) - 40) / 8.0f : s < 0.85 ? pr.pick(std::vector<float>{(float)pp.lo, (float)pp.hi, 0.1f, -0.1f, 1e-6f, 0.333333343f}) : (float)(pp.lo - 1 + (pp.hi - pp.lo + 2) * pr.unit());
                    if (f == 0) f = 0; uint32_t u; memcpy(&u, &f, 4); o.a[2] = u; break; }
                case 'T': o.a[2] = pr.chance(0.6); break;
                case 'o': o.a[2] = pr.below((size_t)pp.hi + 1 > pp.opts.size() && pr.chance(0.4) ? (size_t)pp.hi + 1 : pp.opts.size()); o.a[3] = pr.chance(0.5); break;   // a declared range may reach beyond the symbols
                case 's': { int len = (int)pr.below(pp.slen + 4); static const char cs[] = "abcXYZ019 _-\"'%\\/:#\n\t[]"; bool special = pr.chance(0.4); for (int q = 0; q < len; q++) o.s += special ? cs[pr.below(sizeof cs - 1)] : (char)('a' + pr.below(26)); break; }
                }
            } else { o.kind = OP_CYCLE; o.a[0] = faults && pr.chance(0.6) ? 1 + (int64_t)pr.below(FL_N - 1) : 0; o.a[1] = (int64_t)pr.below(100000); o.a[2] = (int64_t)pr.below(1u << 30); if (!o.a[0] && prop != "C13" && pr.chance(0.3)) o.a[3] = 1; /* autosave, no crash */ }
            p.push_back(o);
        }
        Op c; c.kind = OP_CYCLE; c.a[0] = 0; c.a[2] = (int64_t)pr.below(1u << 30); p.push_back(c);
    }

    static void do_set(Inst &in, const Op &op) {
        auto &P = *in.d->params; const Param &pp = P[(size_t)(((op.a[0] % (int64_t)P.size()) + P.size()) % P.size())]; int k = (int)(((op.a[1] % pp.elems) + pp.elems) % pp.elems);
        std::string addr = pp.addr; if (pp.elems > 1) addr += std::to_string(k);
        char buf[512]; size_t n = 0;
        switch (pp.type) {
        case 'i': n = rtosc_message(buf, sizeof buf, addr.c_str(), "i", (int)std::max<int64_t>(INT_MIN, std::min<int64_t>(op.a[2], INT_MAX))); break;
        case 'c': n = rtosc_message(buf, sizeof buf, addr.c_str(), "c", (int)std::max<int64_t>(0, std::min<int64_t>(op.a[2], 127))); break;
        case 'f': { float f; uint32_t u = (uint32_t)op.a[2]; memcpy(&f, &u, 4); if (std::isnan(f) || std::isinf(f)) f = 0.25f; if (f == 0) f = 0; n = rtosc_message(buf, sizeof buf, addr.c_str(), "f", f); break; }
        case 'T': n = rtosc_message(buf, sizeof buf, addr.c_str(), (op.a[2] & 1) ? "T" : "F"); break;
        case 'o': { int64_t span = std::max<int64_t>((int64_t)pp.opts.size(), (int64_t)pp.hi + 1); int idx = (int)(((op.a[2] % span) + span) % span); n = (op.a[3] & 1) && idx < (int)pp.opts.size() ? rtosc_message(buf, sizeof buf, addr.c_str(), "S", pp.opts[idx].c_str()) : rtosc_message(buf, sizeof buf, addr.c_str(), "i", idx); break; }
        case 's': n = rtosc_message(buf, sizeof buf, addr.c_str(), "s", op.s.substr(0, 200).c_str()); break;
        }
        if (!n) return; Loc d; d.obj = in.obj; in.d->ports->dispatch(buf, d, true);
    }
    // the stack below the save call holds a known non-zero pattern, so that a read of never-written stack bytes does not depend on earlier calls
    static void __attribute__((noinline)) dirty_stack() { volatile char buf[1048576]; memset((void *)buf, 0xA5, sizeof buf); asm volatile("" ::: "memory"); }
    static std::string save(Inst &in) { dirty_stack(); std::set<std::string> written; return rtosc::save_to_file(*in.d->ports, in.obj, g_appname.c_str(), rtosc_version{1, 2, 3}, written, {}); }
    static int load(Inst &in, const std::string &text) { stat_add(ST_LOADS); return rtosc::load_from_file(text.c_str(), *in.d->ports, in.obj, g_appname.c_str(), rtosc_version{1, 2, 3}); }

    Result exec(const std::string &prop, const Knobs &k, const Plan &plan, Choices &) override {
        Result res; stat_add(ST_RUNS); bool c13 = prop == "C13";
        const AppDesc &d = app_desc(k.empty() ? 0 : (int)k[0]); auto &P = *d.params; std::vector<std::string> names = elem_names(d);
        g_appname = d.name; if (k.size() > 1 && k[1]) { g_appname += " mk 2"; stat_add(P_NAME_WITH_BLANK); }
        Inst *cur = new Inst(d); std::string disk; std::vector<Val> disk_state; std::vector<bool> disk_mask; bool disk_valid = false;
        uint64_t shape = mix64(7, k.empty() ? 0 : k[0]); bool nontrivial = false; int opi = 0; char b[700];
        auto fail = [&](const char *cls, const std::string &dd) { if (res.cls.empty()) { res.cls = cls; res.detail = dd; } };
        bool touched = false;
        for (auto &op : plan) {
            opi++; shape = mix64(shape, op.kind * 8191 + (uint64_t)op.a[0] * 131 + (uint64_t)op.a[1] + hash_str(op.s));
            if (op.kind == OP_SET) { stat_add(ST_SETS); std::vector<Val> before = snapshot(*cur); do_set(*cur, op); if (!(before == snapshot(*cur))) touched = true; continue; }
            if (op.kind == OP_FILL) { const Param &pp = P[(size_t)(((op.a[0] % (int64_t)P.size()) + P.size()) % P.size())]; if (pp.elems < 2 || (pp.type != 'i' && pp.type != 'f')) continue; std::vector<Val> before = snapshot(*cur);
                for (int q = (int)(((op.a[1] % pp.elems) + pp.elems) % pp.elems); q < pp.elems; q++) { Op s1; s1.kind = OP_SET; s1.a[0] = op.a[0]; s1.a[1] = q; int64_t v = op.a[2] + op.a[3] * q; if (pp.type == 'f') { float f = (float)v / 2.0f; if (f == 0) f = 0; uint32_t u; memcpy(&u, &f, 4); s1.a[2] = u; } else s1.a[2] = v; do_set(*cur, s1); stat_add(ST_SETS); }
                if (!(before == snapshot(*cur))) touched = true; continue; }
            // ---------------- save | crash | restart | load ----------------
            stat_add(ST_CYCLES); stat_add(F_CRASH);
            int fl = c13 ? FL_NONE : (int)(((op.a[0] % FL_N) + FL_N) % FL_N);
            note("saving"); std::string text = save(*cur);
            std::vector<Val> want = snapshot(*cur); std::vector<bool> mask = reach_mask(*cur);
            std::vector<std::string> lines = message_lines(text);
            // (a char parameter holding 0 used to be printed as a raw NUL inside its literal, which ended the text: repaired, counted as a probe)
            for (auto &pp : P) if (pp.type == 'c' && pp.reachable(cur->obj) && pp.get(cur->obj, 0).i == 0 && !(pp.get(cur->obj, 0) == pp.dflt(cur->obj, 0))) stat_add(P_CHAR_ZERO);
            // ---- the file itself: minimal, well-formed header (checked on every save, whatever happens to the file next)
            {
                std::set<std::string> addrs; for (auto &l : lines) addrs.insert(l.substr(0, l.find(' ')));
                for (auto &pp : P) { bool reach = pp.reachable(cur->obj), differs = false; for (int q = 0; q < pp.elems; q++) if (!(pp.get(cur->obj, q) == pp.dflt(cur->obj, q))) differs = true;
                    bool present = addrs.count(pp.addr) > 0;
                    if (reach && differs && !present) { snprintf(b, sizeof b, "op %d: %s differs from its default (%s vs %s) but has no line in the savefile:\n%s", opi, pp.addr.c_str(), pp.get(cur->obj, 0).str().c_str(), pp.dflt(cur->obj, 0).str().c_str(), text.substr(0, 400).c_str()); fail("SAVE-MISSING", b); }
                    if (present && !(reach && differs)) { snprintf(b, sizeof b, "op %d: %s equals its default (%s) %s but the savefile has a line for it:\n%s", opi, pp.addr.c_str(), pp.dflt(cur->obj, 0).str().c_str(), reach ? "" : "(and lies in a disabled sub-tree)", text.substr(0, 400).c_str()); fail("SAVE-NOT-MINIMAL", b); }
                    if (present) { if (pp.type == 'f') stat_add(P_FLOAT_LINE); if (pp.type == 'T') stat_add(P_TOGGLE_LINE); if (pp.type == 'o') stat_add(P_OPTION_LINE); if (pp.elems > 1) stat_add(P_ARRAY_LINE); if (pp.addr.find('/', 1) != std::string::npos) stat_add((pp.addr.compare(0, 4, "/fx/") && pp.addr.compare(0, 6, "/bank/")) ? P_SUBTREE_LINE : P_PTR_SUBTREE_LINE);
                        if ((pp.type == 'i' && pp.get(cur->obj, 0).i < 0) || (pp.type == 'f' && pp.get(cur->obj, 0).f < 0)) stat_add(P_NEG_VALUE); if (pp.type == 's' && pp.get(cur->obj, 0).s.find_first_of("\"'%\\\n") != std::string::npos) stat_add(P_STRING_SPECIAL);
                        if (pp.addr == "/preset") stat_add(P_PRESET_NONZERO); }
                    if (!reach && differs) stat_add(P_PRUNED);
                    addrs.erase(pp.addr); }
                if (res.cls.empty() && !addrs.empty()) { snprintf(b, sizeof b, "op %d: savefile has a line for %s, which is no parameter of the application", opi, addrs.begin()->c_str()); fail("SAVE-FOREIGN-LINE", b); }
                if (res.cls.empty() && !touched && !lines.empty()) { snprintf(b, sizeof b, "op %d: untouched application saved %zu message line(s): %s", opi, lines.size(), lines[0].c_str()); fail("SAVE-NOT-MINIMAL", b); }
                if (!touched) stat_add(P_UNTOUCHED); if (lines.size() >= 3) stat_add(P_LINES3);
            }
            if (!res.cls.empty()) break;
            // an autosave: the application writes the file and lives on (the next save is made by the same object after more changes)
            if (op.a[3] & 1) { stat_add(P_AUTOSAVE); disk = text; disk_state = want; disk_mask = mask; disk_valid = true; trace(hash_str(text)); continue; }
            // ---- the write reaches the disk (or not)
            std::string file = text; bool expect_reject = false, relaxed = false;
            switch (fl) {
            case FL_NONE: disk = text; disk_state = want; disk_mask = mask; disk_valid = true; break;
            case FL_LOST: stat_add(F_LOST); file = disk; break;                                   // the old file survives
            case FL_TORN: stat_add(F_TORN); file = text.substr(0, (size_t)(op.a[1] % (int64_t)(text.size() + 1))); relaxed = true; break;
            case FL_FLIP: { stat_add(F_FLIP);   // one flipped bit, in the header lines or in the address of a message line: what the statement speaks about
                std::vector<size_t> pos; size_t h = header_of(text).size(); for (size_t i = 0; i < h && i < text.size(); i++) pos.push_back(i);
                for (size_t i = h; i < text.size(); i++) if (text[i] == '/' && (i == 0 || text[i - 1] == '\n')) for (size_t j = i; j < text.size() && text[j] != ' ' && text[j] != '\n'; j++) pos.push_back(j);
                if (!pos.empty()) { size_t at = pos[(size_t)(op.a[1] % (int64_t)pos.size())]; file[at] = (char)(file[at] ^ (1 << (op.a[2] & 7))); if (!file[at]) file[at] = ' '; } relaxed = true; break; }
            case FL_HEADER: stat_add(F_HEADER); file = "% NOT OSC v9.9.9 savefile\n" + text.substr(text.find('\n') + 1); expect_reject = true; break;
            case FL_APP: stat_add(F_APPNAME); { size_t a = text.find('\n') + 1, e = text.find('\n', a); std::string own = g_appname; static const char *suffix[] = {"", "-pro", "2", "x"};
                std::string other = (op.a[1] % 5 == 0) ? std::string("otherapp") : (op.a[1] % 5 == 4) ? own.substr(0, own.size() - 1) : own + suffix[op.a[1] % 5];   // also names that start with, or are a prefix of, the loader's own
                file = text.substr(0, a) + "% " + other + " v1.2.3" + (e == std::string::npos ? "" : text.substr(e)); } expect_reject = true; break;
            case FL_GARBAGE: stat_add(F_GARBAGE); file = header_of(text); if (file.back() != '\n') file += "\n"; { size_t at = lines.empty() ? 0 : (size_t)(op.a[1] % (int64_t)(lines.size() + 1)); for (size_t i = 0; i < lines.size(); i++) { if (i == at) file += "/i_pos $$$ not a value\n"; file += lines[i] + "\n"; } if (at >= lines.size()) file += "/i_pos $$$ not a value\n"; } expect_reject = true; break;
            case FL_UNKNOWN: { stat_add(F_UNKNOWN_PORT); std::string bad = "/no_such_port 1";
                // half of the time the unknown port is an existing scalar port's address with something appended (a table looked up by hash must not take it for that port)
                if (op.a[1] & 1) { std::vector<const Param *> c; for (auto &pp : *d.params) if (pp.elems == 1 && (pp.type == 'i' || pp.type == 'T' || pp.type == 'f' || pp.type == 'o')) c.push_back(&pp);
                    if (!c.empty()) { const Param &pp = *c[(size_t)((op.a[1] >> 1) % (int64_t)c.size())]; static const char *sfx[] = {"x", "2", "_old", "bet", "0", "_", "zz", "abcd", "y1", "s"}; std::string ba = pp.addr + sfx[(op.a[2] >> 3) % 10];
                        for (auto &q : *d.params) if (q.addr == ba || (q.elems > 1 && ba.compare(0, q.addr.size(), q.addr) == 0 && ba.find_first_not_of("0123456789", q.addr.size()) == std::string::npos)) ba = pp.addr + "_no_such";   // (not by accident the name of another port)
                        bad = ba + (pp.type == 'i' || pp.type == 'o' ? " 1" : pp.type == 'f' ? " 0.5" : " true"); stat_add(P_NEAR_MISS_PORT); } }
                file = text + (lines.empty() && text.back() == '\n' ? "" : "\n") + bad; expect_reject = true; break; }
            }
            // ---- crash: the process dies, only the file survives; restart: a default-initialised instance loads it
            delete cur; cur = new Inst(d); touched = false;
            snprintf(b, sizeof b, "loading after %s", describe(op).c_str()); note(b);
            if (getenv("VERIF_DUMP")) fprintf(stdout, "---- file to load (%zu bytes):\n%s\n----\n", file.size(), file.c_str()), fflush(stdout);
            int rc = load(*cur, file);
            std::vector<Val> got = snapshot(*cur);
            if (fl == FL_NONE || fl == FL_LOST) {
                const std::vector<Val> &exp = fl == FL_NONE ? want : disk_state; const std::vector<bool> &m = fl == FL_NONE ? mask : disk_mask; std::string src = fl == FL_NONE ? text : disk;
                if (fl == FL_LOST && !disk_valid) { if (rc >= 0) { snprintf(b, sizeof b, "op %d: loading an empty file returned %d", opi, rc); fail("REJECT", b); } }
                else {
                    size_t nl = message_lines(src).size(); if (nl) nontrivial = true;
                    if (rc != (int)nl) { snprintf(b, sizeof b, "op %d: load returned %d for a savefile with %zu message line(s):\n%s", opi, rc, nl, src.substr(0, 500).c_str()); fail("LOAD-COUNT", b); }
                    for (size_t i = 0; i < exp.size() && res.cls.empty(); i++) if (m[i] && !(exp[i] == got[i])) { snprintf(b, sizeof b, "op %d: %s was %s when saved, is %s after crash + restart + load (load returned %d):\n%s", opi, names[i].c_str(), exp[i].str().c_str(), got[i].str().c_str(), rc, src.substr(0, 500).c_str()); fail("RESTORE", b); }
                    if (rc == (int)nl) for (size_t i = 0; i < got.size(); i++) if (!(got[i] == snapshot(*cur)[i])) {}
                    touched = nl > 0;
                }
            } else if (expect_reject) {
                if (rc >= 0) { snprintf(b, sizeof b, "op %d: %s was accepted (load returned %d):\n%s", opi, describe(op).c_str(), rc, file.substr(0, 400).c_str()); fail("REJECT", b); }
                touched = true;
            } else if (relaxed) {
                size_t nl = lines.size() + 1; if (rc > (int)nl) { snprintf(b, sizeof b, "op %d: damaged file with at most %zu lines: load returned %d", opi, nl, rc); fail("LOAD-COUNT", b); } if (rc > 0) stat_add(P_TORN_ACCEPTED); touched = true;
            }
            if (!res.cls.empty()) break;
            // a damaged file may have left the instance in a state no parameter message can produce (e.g. an unknown option symbol): start over
            if (relaxed) { delete cur; cur = new Inst(d); touched = false; }
            trace(mix64(rc, hash_str(file)));
            // ---- C13: the order of the lines must not matter
            if (c13 && lines.size() >= 2) {
                std::string head = header_of(text); if (head.back() != '\n') head += "\n";
                auto load_order = [&](const std::vector<std::string> &ls, const std::vector<int> &ord, std::vector<Val> &out, bool join = false) { std::string f = head; for (size_t i = 0; i < ord.size(); i++) f += ls[ord[i]] + (i + 1 < ord.size() ? (join ? " " : "\n") : ""); Inst t(d); int r = load(t, f); out = snapshot(t); return r; };
                auto sweep = [&](const std::vector<std::string> &ls, const char *what) {
                    std::vector<int> ord(ls.size()); for (size_t i = 0; i < ord.size(); i++) ord[i] = (int)i;
                    std::vector<Val> ref; int rref = load_order(ls, ord, ref); bool first = true; int njoin = 0; bool differs_possible = false; (void)differs_possible;
                    auto one = [&](const std::vector<int> &o) { std::vector<Val> v; stat_add(F_PERMUTED); int r = load_order(ls, o, v);
                        // every third order is also loaded with its messages on one line (the format separates messages by white space, not by line ends): same result
                        if (rref >= 0 && r == rref && v == ref && ++njoin % 3 == 0) { bool cont = false; for (auto &l : ls) if (l.find('\n') != std::string::npos || l.find('\\') != std::string::npos) cont = true;
                            if (!cont) { std::vector<Val> vj; stat_add(P_JOINED); int rj = load_order(ls, o, vj, true); if (rj != rref || !(vj == ref)) { r = rj; v = vj; } } }
                        if (rref < 0 && r < 0) return true;   // a file that is rejected is rejected in every order; what a rejected load leaves behind is not specified
                        if (r != rref || !(v == ref)) { std::string os; for (int x : o) os += ls[x] + " | "; size_t di = 0; while (di < v.size() && v[di] == ref[di]) di++;
                            snprintf(b, sizeof b, "op %d (%s): lines in the order [%s] load to %d message(s)%s%s%s, in file order to %d", opi, what, os.substr(0, 380).c_str(), r, di < v.size() ? " and " : "", di < v.size() ? (names[di] + "=" + v[di].str() + " instead of " + ref[di].str()).c_str() : "", "", rref); fail("ORDER", b); return false; } return true; };
                    if (ls.size() <= 6) { stat_add(P_PERM_ALL); do { if (first) { first = false; continue; } if (!one(ord)) return; } while (std::next_permutation(ord.begin(), ord.end())); }
                    else { stat_add(P_PERM_SAMPLED); Rng r((uint64_t)op.a[2] + ls.size()); for (int t = 0; t < 200; t++) { for (size_t i = ord.size(); i > 1; i--) std::swap(ord[i - 1], ord[r.below(i)]); if (!one(ord)) return; } }
                };
                note("permuting lines"); sweep(lines, "all lines present");
                static const char *providers[] = {"/preset", "/Poscenabled", "/Pvoices", "/Pfx", "/Pbank", "/osc2_on", "/mode", "/units0/s", "/units1/s", "/units0/bank", "/units0/kind", "/units0/gain", "/units0/width", "/units0/enabled", "/units0/unison", "/units0/type", "/units0/lfo_shape", "/units1/bank", "/units1/kind", "/units1/type", "/units1/lfo_shape", "/units1/enabled", "/units1/unison"}; bool dep = false;
                for (size_t i = 0; i < lines.size() && res.cls.empty(); i++) { std::string a = lines[i].substr(0, lines[i].find(' ')); bool prov = false; for (auto pv : providers) if (a == pv) prov = true; if (!prov) continue; dep = true;
                    std::vector<std::string> ls = lines; ls.erase(ls.begin() + i); if (ls.size() >= 2) { stat_add(F_DEP_LINE_DELETED); sweep(ls, ("line " + a + " deleted").c_str()); } }
                if (dep) stat_add(P_DEP_ORDER_MATTERED);
                if (!res.cls.empty()) break;
            }
        }
        delete cur;
        res.trace_hash = trace_value(); res.shape_hash = shape; res.nontrivial = nontrivial;
        return res;
    }
};
int main(int argc, char **argv) { SaveWorld w; return sim_main(argc, argv, w); }
