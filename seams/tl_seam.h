// Seam for /repo/src/cpp/thread-link.cpp, force-included with -include.
// It spends the include guards of everything the file includes, then replaces
// std::atomic and memcpy by simulator-owned versions.  Nothing in /repo changes.
#pragma once
#include <atomic>
#include <cstring>
#include <cassert>
#include <cstdio>
#include <cstdarg>
#include <cstddef>
#include <rtosc/rtosc.h>

namespace simhook {
// kind: 0 load, 1 store, 2 rmw.  mo: 0 relaxed, 1 acquire/consume, 2 release, 3 acq_rel, 4 seq_cst
void atomic_pre(const void *obj, int kind, int mo);   // yield point (before the access)
void atomic_post(const void *obj, int kind, int mo);  // happens-before bookkeeping (atomic with the access)
void *copy(void *dst, const void *src, size_t n);     // chunked copy with yields in between
size_t ring_length(ring_t *r);                        // tracked read of the ring bytes, then the real function
inline int mo_of(std::memory_order m) {
    switch (m) { case std::memory_order_relaxed: return 0; case std::memory_order_consume: case std::memory_order_acquire: return 1;
                 case std::memory_order_release: return 2; case std::memory_order_acq_rel: return 3; default: return 4; }
}
}

namespace std {
template <class T> struct sim_atomic {
    T v;
    sim_atomic() noexcept = default;
    constexpr sim_atomic(T x) noexcept : v(x) {}
    sim_atomic(const sim_atomic &) = delete;
    sim_atomic &operator=(const sim_atomic &) = delete;
    T load(memory_order m = memory_order_seq_cst) const noexcept { int mo = simhook::mo_of(m); simhook::atomic_pre(this, 0, mo); T x = v; simhook::atomic_post(this, 0, mo); return x; }
    void store(T x, memory_order m = memory_order_seq_cst) noexcept { int mo = simhook::mo_of(m); simhook::atomic_pre(this, 1, mo); v = x; simhook::atomic_post(this, 1, mo); }
    T exchange(T x, memory_order m = memory_order_seq_cst) noexcept { int mo = simhook::mo_of(m); simhook::atomic_pre(this, 2, mo); T o = v; v = x; simhook::atomic_post(this, 2, mo); return o; }
    T fetch_add(T x, memory_order m = memory_order_seq_cst) noexcept { int mo = simhook::mo_of(m); simhook::atomic_pre(this, 2, mo); T o = v; v = o + x; simhook::atomic_post(this, 2, mo); return o; }
    T fetch_sub(T x, memory_order m = memory_order_seq_cst) noexcept { int mo = simhook::mo_of(m); simhook::atomic_pre(this, 2, mo); T o = v; v = o - x; simhook::atomic_post(this, 2, mo); return o; }
    bool compare_exchange_strong(T &e, T d, memory_order m = memory_order_seq_cst, memory_order = memory_order_seq_cst) noexcept {
        int mo = simhook::mo_of(m); simhook::atomic_pre(this, 2, mo); bool ok = (v == e); if (ok) v = d; else e = v; simhook::atomic_post(this, ok ? 2 : 0, mo); return ok; }
    bool compare_exchange_weak(T &e, T d, memory_order m = memory_order_seq_cst, memory_order f = memory_order_seq_cst) noexcept { return compare_exchange_strong(e, d, m, f); }
    operator T() const noexcept { return load(); }
    T operator=(T x) noexcept { store(x); return x; }
    T operator++() noexcept { return fetch_add(1) + 1; }
    T operator++(int) noexcept { return fetch_add(1); }
    T operator--() noexcept { return fetch_sub(1) - 1; }
    T operator--(int) noexcept { return fetch_sub(1); }
    T operator+=(T x) noexcept { return fetch_add(x) + x; }
    T operator-=(T x) noexcept { return fetch_sub(x) - x; }
    bool is_lock_free() const noexcept { return true; }
};
inline void *sim_memcpy(void *d, const void *s, size_t n) { return simhook::copy(d, s, n); }
inline void *sim_memmove(void *d, const void *s, size_t n) { return simhook::copy(d, s, n); }
}
using std::sim_memcpy;
using std::sim_memmove;
using std::sim_atomic;
inline size_t sim_ring_length(ring_t *r) { return simhook::ring_length(r); }

#define atomic sim_atomic
#define memcpy sim_memcpy
#define memmove sim_memmove
#define rtosc_message_ring_length sim_ring_length
