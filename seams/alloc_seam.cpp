// Allocator and mutex seam (plain build only; AddressSanitizer owns the allocator otherwise).
// The executable's own definitions of the malloc family and of pthread_mutex_lock take precedence over libc's
// for every caller, including libstdc++'s operator new/delete and the rtosc objects compiled from /repo.
// A call made while the simulated realtime thread is inside an RtSection is recorded (kind + return addresses);
// the monitor itself never allocates inside a section.
#include <cstddef>
#include <cstdint>
#include <cstring>
#include <cerrno>
#include <dlfcn.h>
#include <execinfo.h>
#include <pthread.h>
#include "alloc_seam.h"

extern "C" {
void *__libc_malloc(size_t); void __libc_free(void *); void *__libc_calloc(size_t, size_t); void *__libc_realloc(void *, size_t); void *__libc_memalign(size_t, size_t);
}
namespace rtmon {
int depth = 0; uint64_t allocs_in = 0, frees_in = 0, locks_in = 0, allocs_out = 0, frees_out = 0, locks_out = 0;
int first_kind = 0; void *first_bt[16]; int first_bt_n = 0; size_t first_size = 0;
static bool in_hook = false;
static void record(int kind, size_t sz) {
    if (first_kind || in_hook) return;
    in_hook = true; first_kind = kind; first_size = sz; first_bt_n = backtrace(first_bt, 16); in_hook = false;
}
void reset() { depth = 0; allocs_in = frees_in = locks_in = 0; first_kind = 0; first_bt_n = 0; }
void warm_up();   // the first backtrace() loads libgcc and allocates: do it outside any section
}
using namespace rtmon;
extern "C" {
void *malloc(size_t n) { if (depth > 0) { allocs_in++; record(1, n); } else allocs_out++; return __libc_malloc(n); }
void free(void *p) { if (p) { if (depth > 0) { frees_in++; record(2, 0); } else frees_out++; } __libc_free(p); }
void *calloc(size_t a, size_t b) { if (depth > 0) { allocs_in++; record(1, a * b); } else allocs_out++; return __libc_calloc(a, b); }
void *realloc(void *p, size_t n) { if (depth > 0) { allocs_in++; record(1, n); } else allocs_out++; return __libc_realloc(p, n); }
void *memalign(size_t al, size_t n) { if (depth > 0) { allocs_in++; record(1, n); } else allocs_out++; return __libc_memalign(al, n); }
void *aligned_alloc(size_t al, size_t n) { if (depth > 0) { allocs_in++; record(1, n); } else allocs_out++; return __libc_memalign(al, n); }
int posix_memalign(void **out, size_t al, size_t n) { if (depth > 0) { allocs_in++; record(1, n); } else allocs_out++; void *p = __libc_memalign(al, n); if (!p) return ENOMEM; *out = p; return 0; }

typedef int (*lock_fn)(pthread_mutex_t *);
static lock_fn real_lock = nullptr, real_trylock = nullptr;
}
namespace rtmon { void warm_up() { void *b[4]; backtrace(b, 4);   // the first backtrace() loads libgcc and allocates: do it outside any section
    if (!real_lock) real_lock = (lock_fn)dlsym(RTLD_NEXT, "pthread_mutex_lock"); if (!real_trylock) real_trylock = (lock_fn)dlsym(RTLD_NEXT, "pthread_mutex_trylock"); } }
extern "C" {
int pthread_mutex_lock(pthread_mutex_t *m) {
    if (!real_lock) real_lock = (lock_fn)dlsym(RTLD_NEXT, "pthread_mutex_lock");
    if (depth > 0) { locks_in++; record(3, 0); } else locks_out++;
    return real_lock(m);
}
int pthread_mutex_trylock(pthread_mutex_t *m) {
    if (!real_trylock) real_trylock = (lock_fn)dlsym(RTLD_NEXT, "pthread_mutex_trylock");
    if (depth > 0) { locks_in++; record(3, 0); } else locks_out++;
    return real_trylock(m);
}
}
