// Wall-clock seam: the executable's own definition of time() takes precedence over libc's for every
// caller, including the rtosc objects compiled from /repo (UndoHistory::recordEvent, rtosc-time.c).
// The simulated clock is advanced only by plan ops.
#include <ctime>
#include <cstdint>
namespace sim { int64_t g_clock_ns = 0; uint64_t g_clock_reads = 0; }
extern "C" time_t time(time_t *out) {
    sim::g_clock_reads++;
    int64_t ns = sim::g_clock_ns;
    time_t t = (time_t)(ns >= 0 ? ns / 1000000000LL : -((-ns + 999999999LL) / 1000000000LL));
    if (out) *out = t;
    return t;
}
