#pragma once
#include <cstdint>
#include <cstddef>
namespace rtmon {
extern int depth; extern uint64_t allocs_in, frees_in, locks_in, allocs_out, frees_out, locks_out;
extern int first_kind; extern void *first_bt[16]; extern int first_bt_n; extern size_t first_size;
void reset(); void warm_up();
struct RtSection { RtSection() { depth++; } ~RtSection() { depth--; } };
}
