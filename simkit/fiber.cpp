#include "fiber.h"
#include <cstdlib>
#include <cstring>
#include <cstdio>

#if defined(__SANITIZE_ADDRESS__)
#include <sanitizer/common_interface_defs.h>
#include <sanitizer/asan_interface.h>
#define SIM_ASAN 1
#else
#define SIM_ASAN 0
#endif

namespace sim {

Sched *Sched::active = nullptr;
static const size_t STACK = 256 * 1024;
static char *g_stack_pool[Sched::MAXT];

Sched::Sched() {}
Sched::~Sched() { if (active == this) active = nullptr; }

int Sched::spawn(std::function<void()> f) {
    if (ntasks >= MAXT) abort();
    int id = ntasks++;
    Task &t = tasks[id];
    if (!g_stack_pool[id]) g_stack_pool[id] = (char *)aligned_alloc(4096, STACK);
    t.stack = g_stack_pool[id];
#if SIM_ASAN
    ASAN_UNPOISON_MEMORY_REGION(t.stack, STACK);   // a previous run may have abandoned a fiber on this stack
#endif
    t.fn = std::move(f); t.done = false; t.stall = 0; t.fake = nullptr;
    getcontext(&t.ctx);
    t.ctx.uc_stack.ss_sp = t.stack; t.ctx.uc_stack.ss_size = STACK; t.ctx.uc_link = nullptr;
    uintptr_t self = (uintptr_t)this;
    makecontext(&t.ctx, (void (*)())trampoline, 2, (unsigned)(self & 0xffffffffu), (unsigned)(self >> 32));
    return id;
}

void Sched::finish_entry(int self) {
#if SIM_ASAN
    const void *ob = nullptr; size_t os = 0;
    __sanitizer_finish_switch_fiber(self >= 0 ? tasks[self].fake : main_fake, &ob, &os);
    if (!main_bottom && ob) { main_bottom = ob; main_size = os; }   // first switch away from main tells us main's stack
#else
    (void)self;
#endif
}

void Sched::switch_to(int from, int to) {
    if (from == to) return;
    switches++;
    ucontext_t *fc = from >= 0 ? &tasks[from].ctx : &main_ctx;
    ucontext_t *tc = to >= 0 ? &tasks[to].ctx : &main_ctx;
#if SIM_ASAN
    void **fake = from >= 0 ? (tasks[from].done ? nullptr : &tasks[from].fake) : &main_fake;
    if (to >= 0) __sanitizer_start_switch_fiber(fake, tasks[to].stack, STACK);
    else __sanitizer_start_switch_fiber(fake, main_bottom, main_size);
#endif
    cur = to;
    swapcontext(fc, tc);
    // resumed in context `from`
    finish_entry(from);
}

void Sched::trampoline(unsigned lo, unsigned hi) {
    Sched *s = (Sched *)(((uintptr_t)hi << 32) | lo);
    int self = s->cur;
    s->finish_entry(self);
    s->tasks[self].fn();
    s->tasks[self].done = true;
    int nxt = s->pick_next(Y_API);
    s->switch_to(self, nxt);     // never returns
    abort();
}

// options are numbered: 0 = keep the current task if it is runnable, then the other runnable tasks in id order
int Sched::pick_next(int kind) {
    for (;;) {
        int opts[MAXT], n = 0; bool any_stalled = false;
        if (cur >= 0 && !tasks[cur].done && tasks[cur].stall == 0) opts[n++] = cur;
        for (int i = 0; i < ntasks; i++) {
            if (i == cur && n && opts[0] == cur) continue;
            if (tasks[i].done) continue;
            if (tasks[i].stall > 0) { any_stalled = true; continue; }
            opts[n++] = i;
        }
        if (n == 0) {
            if (!any_stalled) return -1;
            for (int i = 0; i < ntasks; i++) if (tasks[i].stall > 0) tasks[i].stall--;   // idle: time passes
            continue;
        }
        for (int i = 0; i < ntasks; i++) if (tasks[i].stall > 0) tasks[i].stall--;
        if (n == 1) return opts[0];
        uint32_t proposal = 0;
        if (!ch->replay) {
            Rng &r = ch->rng; bool cur_first = (opts[0] == cur);
            switch (strategy) {
            case S_UNIFORM: proposal = (uint32_t)r.below(n); break;
            case S_STICKY50: case S_STICKY80: case S_STICKY95: {
                double p = strategy == S_STICKY50 ? 0.5 : strategy == S_STICKY80 ? 0.8 : 0.95;
                if (cur_first && r.chance(p)) proposal = 0; else proposal = cur_first ? 1 + (uint32_t)r.below(n - 1) : (uint32_t)r.below(n);
                break; }
            case S_PCT1: case S_PCT2: case S_PCT3: {
                if (!pct_init) { pct_init = true; pct_n = strategy - S_PCT1 + 1;
                    for (int i = 0; i < MAXT; i++) tasks[i].prio = 100 + (int)r.below(1000);
                    for (int i = 0; i < pct_n; i++) pct_points[i] = r.below(600); }
                for (int i = 0; i < pct_n; i++) if (pct_points[i] == steps && cur >= 0) tasks[cur].prio = i;   // demote the running task
                int best = 0; for (int i = 1; i < n; i++) if (tasks[opts[i]].prio > tasks[opts[best]].prio) best = i;
                proposal = best; break; }
            case S_PUBLISH: {
                bool at = (kind == Y_STORE || kind == Y_RMW || kind == Y_AFTER_STORE);
                if (at && r.chance(0.5)) proposal = cur_first ? 1 + (uint32_t)r.below(n - 1) : (uint32_t)r.below(n); else proposal = 0;
                break; }
            }
        }
        uint32_t v = ch->decide(n, proposal);
        return opts[v];
    }
}

void Sched::yield(int kind) {
    if (cur < 0) return;
    steps++; yields_by_kind[kind & 7]++;
    inter_hash = mix64(inter_hash, (uint64_t)cur * 8 + kind);
    if (steps > max_steps) { budget_hit = true; int self = cur; switch_to(self, -1); return; }   // abandon: main never resumes us
    int self = cur;
    int nxt = pick_next(kind);
    if (nxt < 0) nxt = self;
    if (nxt != self) switch_to(self, nxt);
}

void Sched::stall(int k) {
    if (cur < 0) return;
    tasks[cur].stall = k;
    yield(Y_STALL);
}

void Sched::run() {
    active = this; cur = -1;
    int first = pick_next(Y_API);
    if (first >= 0) switch_to(-1, first);
    cur = -1; active = nullptr;
}

// ------------------------------------------------------------------ HB
void HB::reset() { memset(task, 0, sizeof task); for (int i = 0; i < T; i++) task[i].c[i] = 1; sync.clear(); bytes.clear(); first_race.clear(); races = 0; tracked_reads = tracked_writes = 0; }
static inline void join(HB::VC &a, const HB::VC &b) { for (int i = 0; i < HB::T; i++) if (b.c[i] > a.c[i]) a.c[i] = b.c[i]; }
void HB::on_load(int t, const void *obj, int mo) {
    if (t < 0) return;
    if (mo == 1 || mo >= 3) { auto it = sync.find(obj); if (it != sync.end()) join(task[t], it->second); }
}
void HB::on_store(int t, const void *obj, int mo) {
    if (t < 0) return;
    if (mo >= 2) { sync[obj] = task[t]; task[t].c[t]++; }
    else { VC z; memset(&z, 0, sizeof z); sync[obj] = z; }     // a relaxed store heads no release sequence
}
void HB::on_rmw(int t, const void *obj, int mo) {
    if (t < 0) return;
    VC prev; memset(&prev, 0, sizeof prev); auto it = sync.find(obj); if (it != sync.end()) prev = it->second;
    if (mo == 1 || mo >= 3) join(task[t], prev);
    VC nv = prev;                                  // an RMW continues the release sequence
    if (mo >= 2) { join(nv, task[t]); task[t].c[t]++; }
    sync[obj] = nv;
}
void HB::on_read(int t, const void *p, size_t n, uint64_t step) {
    if (t < 0) return;
    tracked_reads += n;
    for (size_t i = 0; i < n; i++) {
        Sh &s = bytes[(uintptr_t)p + i];
        if (s.wc && s.wt != t && s.wc > task[t].c[(int)s.wt]) {
            races++; if (first_race.empty()) { char b[160]; snprintf(b, sizeof b, "read by task %d at step %llu of byte %zu of a %zu-byte access races with write by task %d", t, (unsigned long long)step, i, n, (int)s.wt); first_race = b; }
        }
        s.r[t] = task[t].c[t];
    }
}
void HB::on_write(int t, const void *p, size_t n, uint64_t step) {
    if (t < 0) return;
    tracked_writes += n;
    for (size_t i = 0; i < n; i++) {
        Sh &s = bytes[(uintptr_t)p + i];
        bool race = (s.wc && s.wt != t && s.wc > task[t].c[(int)s.wt]);
        int other = s.wt;
        for (int u = 0; u < T && !race; u++) if (u != t && s.r[u] > task[t].c[u]) { race = true; other = u; }
        if (race) { races++; if (first_race.empty()) { char b[160]; snprintf(b, sizeof b, "write by task %d at step %llu of byte %zu of a %zu-byte access races with access by task %d", t, (unsigned long long)step, i, n, other); first_race = b; } }
        s.wt = (int8_t)t; s.wc = task[t].c[t];
    }
}

} // namespace sim
