// simkit driver: rng, json, batch workers, isolation, gates, minimiser, replay.
#include "sim.h"
#include <cstdio>
#include <cstdlib>
#include <cstring>
#include <cerrno>
#include <ctime>
#include <csignal>
#include <unistd.h>
#include <fcntl.h>
#include <poll.h>
#include <sys/mman.h>
#include <sys/wait.h>
#include <sys/stat.h>
#include <algorithm>
#include <set>
#include <sstream>
#include <fstream>

// AddressSanitizer findings are classified, not trusted blindly: exit code 77.
extern "C" __attribute__((used, visibility("default"))) const char *__asan_default_options() {
    return "exitcode=77:malloc_context_size=5:quarantine_size_mb=8:thread_local_quarantine_size_kb=64:detect_leaks=0:abort_on_error=0:handle_abort=0:allocator_may_return_null=1:detect_stack_use_after_return=0";
}

namespace sim {

// ------------------------------------------------------------------ rng
uint64_t splitmix64(uint64_t &x) {
    uint64_t z = (x += 0x9E3779B97F4A7C15ull);
    z = (z ^ (z >> 30)) * 0xBF58476D1CE4E5B9ull;
    z = (z ^ (z >> 27)) * 0x94D049BB133111EBull;
    return z ^ (z >> 31);
}
void Rng::reseed(uint64_t seed) { uint64_t x = seed; for (auto &v : s) v = splitmix64(x); }
static inline uint64_t rotl(uint64_t x, int k) { return (x << k) | (x >> (64 - k)); }
uint64_t Rng::next() {
    const uint64_t r = rotl(s[1] * 5, 7) * 9, t = s[1] << 17;
    s[2] ^= s[0]; s[3] ^= s[1]; s[1] ^= s[2]; s[0] ^= s[3]; s[2] ^= t; s[3] = rotl(s[3], 45);
    return r;
}
uint64_t hash_bytes(const void *p, size_t n, uint64_t h) {
    const unsigned char *c = (const unsigned char *)p;
    for (size_t i = 0; i < n; i++) { h ^= c[i]; h *= 1099511628211ull; }
    return h;
}
uint64_t substream(uint64_t run_seed, const char *label) {
    uint64_t x = run_seed ^ hash_bytes(label, strlen(label));
    return splitmix64(x);
}
uint64_t run_seed_of(uint64_t batch_seed, uint64_t index) {
    uint64_t x = batch_seed * 0x9E3779B97F4A7C15ull + index;
    return splitmix64(x);
}

// ------------------------------------------------------------------ choices
uint32_t Choices::decide(uint32_t n, uint32_t proposal) {
    uint32_t v;
    if (replay) { v = pos < in.size() ? in[pos] : 0; pos++; if (v >= n) v = 0; }
    else { v = proposal < n ? proposal : 0; }
    if (log && log_n && *log_n < log_cap) log[(*log_n)++] = v;
    return v;
}

// ------------------------------------------------------------------ json
std::string json_escape(const std::string &s) {
    std::string o;
    for (unsigned char c : s) {
        if (c == '"') o += "\\\""; else if (c == '\\') o += "\\\\";
        else if (c == '\n') o += "\\n"; else if (c == '\t') o += "\\t"; else if (c == '\r') o += "\\r";
        else if (c < 0x20 || c >= 0x7f) { char b[8]; snprintf(b, sizeof b, "\\u%04x", c); o += b; }
        else o += (char)c;
    }
    return o;
}
namespace {
struct JP {
    const std::string &t; size_t p = 0; bool ok = true;
    explicit JP(const std::string &s) : t(s) {}
    void ws() { while (p < t.size() && (t[p] == ' ' || t[p] == '\n' || t[p] == '\t' || t[p] == '\r')) p++; }
    bool val(J &j) {
        ws(); if (p >= t.size()) return false;
        char c = t[p];
        if (c == '{') { j.t = J::OBJ; p++; ws(); if (p < t.size() && t[p] == '}') { p++; return true; }
            for (;;) { J k; ws(); if (!str(k.s)) return false; ws(); if (p >= t.size() || t[p] != ':') return false; p++;
                J v; if (!val(v)) return false; j.o.emplace_back(k.s, v); ws();
                if (p < t.size() && t[p] == ',') { p++; continue; } if (p < t.size() && t[p] == '}') { p++; return true; } return false; } }
        if (c == '[') { j.t = J::ARR; p++; ws(); if (p < t.size() && t[p] == ']') { p++; return true; }
            for (;;) { J v; if (!val(v)) return false; j.a.push_back(v); ws();
                if (p < t.size() && t[p] == ',') { p++; continue; } if (p < t.size() && t[p] == ']') { p++; return true; } return false; } }
        if (c == '"') { j.t = J::STR; return str(j.s); }
        if (!t.compare(p, 4, "true")) { j.t = J::BOOL; j.n = 1; p += 4; return true; }
        if (!t.compare(p, 5, "false")) { j.t = J::BOOL; j.n = 0; p += 5; return true; }
        if (!t.compare(p, 4, "null")) { j.t = J::NUL; p += 4; return true; }
        j.t = J::NUM; size_t q = p; if (t[q] == '-') q++; while (q < t.size() && isdigit((unsigned char)t[q])) q++;
        if (q == p) return false; j.n = strtoll(t.substr(p, q - p).c_str(), nullptr, 10);
        // skip a fraction/exponent if any (we only write integers)
        while (q < t.size() && (isdigit((unsigned char)t[q]) || t[q] == '.' || t[q] == 'e' || t[q] == 'E' || t[q] == '+' || t[q] == '-')) q++;
        p = q; return true;
    }
    bool str(std::string &o) {
        if (p >= t.size() || t[p] != '"') return false; p++;
        while (p < t.size() && t[p] != '"') {
            if (t[p] == '\\' && p + 1 < t.size()) { char e = t[p + 1]; p += 2;
                if (e == 'n') o += '\n'; else if (e == 't') o += '\t'; else if (e == 'r') o += '\r';
                else if (e == 'u' && p + 4 <= t.size()) { o += (char)strtol(t.substr(p, 4).c_str(), nullptr, 16); p += 4; }
                else o += e; }
            else o += t[p++];
        }
        if (p >= t.size()) return false; p++; return true;
    }
};
}
bool json_parse(const std::string &text, J &out) { JP p(text); return p.val(out); }

// ------------------------------------------------------------------ shared memory
static const int NSTAT = 256, MAXW = 64;
static const uint32_t CH_CAP = 1u << 17;
static const uint64_t BM_BITS = 1ull << 27;
struct WorkerShm { volatile uint64_t cur, started, done_runs, viol, budget, nontrivial, steps; uint64_t counters[NSTAT]; };
struct RunShm { uint64_t trace_hash; uint32_t nchoices; char note[240]; uint32_t choices[CH_CAP]; };
struct Shm {
    volatile int stop;
    WorkerShm w[MAXW];
    RunShm r[MAXW + 1];            // slot MAXW: isolated executions
    char samples[6][6000];
    uint8_t bm[3][BM_BITS / 8];     // 0: nontrivial (plan shape, interleaving); 1: all shapes; 2: model states
};
int g_tier = 0;
static Shm *g_shm = nullptr;
static int g_slot = MAXW;           // which RunShm/WorkerShm this process writes
static uint64_t g_local_trace = 0;
static uint64_t g_local_counters[NSTAT];
static std::vector<bool> g_stat_is_max;

void trace(uint64_t v) {
    if (g_shm) g_shm->r[g_slot].trace_hash = mix64(g_shm->r[g_slot].trace_hash, v);
    else g_local_trace = mix64(g_local_trace, v);
}
uint64_t trace_value() { return g_shm ? g_shm->r[g_slot].trace_hash : g_local_trace; }
static void trace_reset() { if (g_shm) { g_shm->r[g_slot].trace_hash = 0; g_shm->r[g_slot].nchoices = 0; g_shm->r[g_slot].note[0] = 0; } g_local_trace = 0; }
void note(const char *s) { if (g_shm) { strncpy(g_shm->r[g_slot].note, s, 239); g_shm->r[g_slot].note[239] = 0; } }
void stat_add(int idx, uint64_t n) {
    if (idx < 0 || idx >= NSTAT) return;
    if (g_shm && g_slot < MAXW) g_shm->w[g_slot].counters[idx] += n; else g_local_counters[idx] += n;
}
void stat_max(int idx, uint64_t v) {
    if (idx < 0 || idx >= NSTAT) return;
    uint64_t &c = (g_shm && g_slot < MAXW) ? g_shm->w[g_slot].counters[idx] : g_local_counters[idx];
    if (v > c) c = v;
}
static void bm_mark(int which, uint64_t h) {
    if (!g_shm) return; uint64_t b = h % BM_BITS; g_shm->bm[which][b >> 3] |= (uint8_t)(1u << (b & 7));
}
static uint64_t bm_count(int which) {
    uint64_t c = 0; const uint64_t *p = (const uint64_t *)g_shm->bm[which];
    for (uint64_t i = 0; i < BM_BITS / 64; i++) c += __builtin_popcountll(p[i]);
    return c;
}

static double now_s() { struct timespec ts; clock_gettime(CLOCK_MONOTONIC, &ts); return ts.tv_sec + ts.tv_nsec * 1e-9; } // evidence/watchdog only

// ------------------------------------------------------------------ run helpers
struct Triple { Knobs k; Plan p; std::vector<uint32_t> c; };

static void setup_choices(Choices &c, const std::vector<uint32_t> *replay, uint64_t sched_seed) {
    c.replay = replay != nullptr; if (replay) c.in = *replay; c.pos = 0;
    c.rng.reseed(sched_seed);
    if (g_shm) { c.log = g_shm->r[g_slot].choices; c.log_n = &g_shm->r[g_slot].nchoices; c.log_cap = CH_CAP; *c.log_n = 0; }
}

struct Iso { std::string cls, detail, taint; uint64_t hash = 0; std::vector<uint32_t> choices; bool crashed = false; };
static std::string g_errdir = "/dev/null";
static int g_iso_count = 0;

static std::string read_file(const std::string &p) { std::ifstream f(p); std::stringstream ss; ss << f.rdbuf(); return ss.str(); }

// execute one run in a forked child so that a memory error or hang in the code under test is an observation
static Iso run_isolated(World &w, const std::string &prop, const Knobs &k, const Plan &p,
                        const std::vector<uint32_t> *replay, uint64_t sched_seed) {
    Iso out; g_iso_count++;
    int fd[2]; if (pipe(fd)) { out.cls = "INFRA"; return out; }
    std::string errf = g_errdir == "/dev/null" ? "/dev/null" : g_errdir + "/iso.err";
    fflush(stdout); fflush(stderr);
    pid_t pid = fork();
    if (pid == 0) {
        close(fd[0]); g_slot = MAXW;
        int e = open(errf.c_str(), O_WRONLY | O_CREAT | O_TRUNC, 0644); if (e >= 0) { dup2(e, 2); close(e); }
        trace_reset(); Choices c; setup_choices(c, replay, sched_seed);
        Result r = w.exec(prop, k, p, c);
        std::string s = r.cls + "\x1f" + r.taint + "\x1f" + r.detail + "\x1f" + std::to_string(r.trace_hash) + "\x1f";
        size_t off = 0; while (off < s.size()) { ssize_t n = write(fd[1], s.data() + off, s.size() - off); if (n <= 0) break; off += n; }
        _exit(0);
    }
    close(fd[1]);
    std::string buf; char tmp[4096]; double t0 = now_s(); bool hang = false;
    for (;;) {
        struct pollfd pf = {fd[0], POLLIN, 0};
        int pr = poll(&pf, 1, 500);
        if (pr > 0) { ssize_t n = read(fd[0], tmp, sizeof tmp); if (n <= 0) break; buf.append(tmp, n); }
        else if (now_s() - t0 > 12) { hang = true; kill(pid, SIGKILL); break; }
    }
    close(fd[0]);
    int st = 0; waitpid(pid, &st, 0);
    out.choices.assign(g_shm->r[MAXW].choices, g_shm->r[MAXW].choices + g_shm->r[MAXW].nchoices);
    if (hang) { out.cls = "HANG"; out.detail = "run did not terminate within 12 s wall (a normal run takes milliseconds)"; if (g_shm->r[MAXW].note[0]) { std::string nt = g_shm->r[MAXW].note; out.detail = std::string("[while: ") + nt + "] " + out.detail; size_t tp = nt.find("taint="); if (tp != std::string::npos) { size_t e = nt.find(' ', tp); out.taint = nt.substr(tp + 6, e == std::string::npos ? std::string::npos : e - tp - 6); } } out.hash = g_shm->r[MAXW].trace_hash; out.crashed = true; return out; }
    if (WIFEXITED(st) && WEXITSTATUS(st) == 0) {
        std::vector<std::string> f; size_t a = 0;
        for (size_t i = 0; i < buf.size(); i++) if (buf[i] == '\x1f') { f.push_back(buf.substr(a, i - a)); a = i + 1; }
        if (f.size() >= 4) { out.cls = f[0]; out.taint = f[1]; out.detail = f[2]; out.hash = strtoull(f[3].c_str(), nullptr, 10); }
        else { out.cls = "INFRA"; out.detail = "short result from isolated run"; }
        return out;
    }
    out.crashed = true; out.hash = g_shm->r[MAXW].trace_hash;
    if (WIFEXITED(st) && WEXITSTATUS(st) == 77) out.cls = "MEMORY";
    else if (WIFSIGNALED(st)) out.cls = "CRASH-SIG" + std::to_string(WTERMSIG(st));
    else out.cls = "CRASH-EXIT" + std::to_string(WEXITSTATUS(st));
    if (errf != "/dev/null") {
        std::string e = read_file(errf); size_t s = e.find("ERROR: AddressSanitizer");
        if (s != std::string::npos) { size_t nl = e.find('\n', s); out.detail = e.substr(s, std::min<size_t>(nl - s, 160));
            size_t f0 = e.find("    #0 ", s), f3 = f0; for (int i = 0; i < 4 && f3 != std::string::npos; i++) f3 = e.find('\n', f3 + 1);
            if (f0 != std::string::npos && f3 != std::string::npos) out.detail += " | " + e.substr(f0, f3 - f0); }
    }
    if (out.detail.empty()) out.detail = out.cls;
    if (g_shm->r[MAXW].note[0]) { std::string nt = g_shm->r[MAXW].note; out.detail = std::string("[while: ") + nt + "] " + out.detail;
        size_t tp = nt.find("taint="); if (tp != std::string::npos) { size_t e = nt.find(' ', tp); out.taint = nt.substr(tp + 6, e == std::string::npos ? std::string::npos : e - tp - 6); } }
    return out;
}

static std::string plan_text(World &w, const Plan &p, size_t maxops = 400) {
    std::string s; size_t n = 0;
    for (auto &op : p) { if (n++ >= maxops) { s += " ..."; break; } if (!s.empty()) s += " ; "; s += w.describe(op); }
    return s;
}
static std::string knobs_text(World &w, const Knobs &k) {
    auto names = w.knob_names(); std::string s;
    for (size_t i = 0; i < k.size(); i++) { if (i) s += " "; s += (i < names.size() ? names[i] : "k" + std::to_string(i)) + "=" + std::to_string(k[i]); }
    return s;
}

static std::string replay_json(World &w, const std::string &prop, uint64_t run_seed, const Triple &t, const Iso &r, size_t orig_ops) {
    std::ostringstream o;
    o << "{\n \"world\": \"" << w.name() << "\",\n \"property\": \"" << prop << "\",\n \"run_seed\": \"" << run_seed << "\",\n";
    o << " \"class\": \"" << json_escape(r.cls) << "\",\n \"taint\": \"" << json_escape(r.taint) << "\",\n \"hash\": \"" << r.hash << "\",\n";
    o << " \"detail\": \"" << json_escape(r.detail) << "\",\n \"original_ops\": " << orig_ops << ",\n";
    o << " \"knobs_text\": \"" << json_escape(knobs_text(w, t.k)) << "\",\n \"plan_text\": \"" << json_escape(plan_text(w, t.p)) << "\",\n";
    o << " \"knobs\": ["; for (size_t i = 0; i < t.k.size(); i++) o << (i ? "," : "") << t.k[i]; o << "],\n \"plan\": [\n";
    for (size_t i = 0; i < t.p.size(); i++) { auto &op = t.p[i];
        o << "  {\"p\":" << op.party << ",\"k\":" << op.kind << ",\"a\":[" << op.a[0] << "," << op.a[1] << "," << op.a[2] << "," << op.a[3] << "],\"s\":\"" << json_escape(op.s) << "\"}" << (i + 1 < t.p.size() ? ",\n" : "\n"); }
    o << " ],\n \"choices\": ["; for (size_t i = 0; i < t.c.size(); i++) o << (i ? "," : "") << t.c[i]; o << "]\n}\n";
    return o.str();
}
static bool replay_load(const std::string &path, std::string &world, std::string &prop, Triple &t, std::string &cls, uint64_t &hash) {
    J j; if (!json_parse(read_file(path), j) || j.t != J::OBJ) return false;
    world = j.str("world"); prop = j.str("property"); cls = j.str("class"); hash = strtoull(j.str("hash").c_str(), nullptr, 10);
    if (auto *k = j.get("knobs")) for (auto &v : k->a) t.k.push_back(v.n);
    if (auto *p = j.get("plan")) for (auto &e : p->a) { Op op; op.party = (int)e.num("p"); op.kind = (int)e.num("k"); op.s = e.str("s");
        if (auto *a = e.get("a")) for (size_t i = 0; i < 4 && i < a->a.size(); i++) op.a[i] = a->a[i].n; t.p.push_back(op); }
    if (auto *c = j.get("choices")) for (auto &v : c->a) t.c.push_back((uint32_t)v.n);
    return true;
}

// ------------------------------------------------------------------ minimiser
struct Shrinker {
    World &w; std::string prop, cls, taint; int execs = 0, budget = 2500; double t0, tmax = 25;
    Triple best; Iso best_r;
    bool out_of_budget() { return execs >= budget || now_s() - t0 > tmax; }
    bool test(const Triple &t) {
        if (out_of_budget()) return false;
        execs++;
        Iso r = run_isolated(w, prop, t.k, t.p, &t.c, 0);
        if (r.cls == cls && r.taint == taint) { best = t; best.c = t.c; best_r = r; return true; }
        return false;
    }
    void shrink_choices() {
        // all-default schedule
        { Triple t = best; t.c.clear(); if (!best.c.empty() && test(t)) return; }
        // truncate
        for (size_t cut = best.c.size() / 2; cut >= 1 && !out_of_budget(); ) {
            if (best.c.size() <= cut) { cut /= 2; continue; }
            Triple t = best; t.c.resize(best.c.size() - cut);
            if (!test(t)) cut /= 2;
        }
        while (!best.c.empty() && best.c.back() == 0) best.c.pop_back();
        // zero blocks of non-default decisions, then single ones
        for (size_t blk = std::max<size_t>(1, best.c.size() / 4); blk >= 1 && !out_of_budget(); blk /= 2) {
            for (size_t i = 0; i < best.c.size() && !out_of_budget(); i += blk) {
                bool any = false; Triple t = best;
                for (size_t j = i; j < i + blk && j < t.c.size(); j++) if (t.c[j]) { t.c[j] = 0; any = true; }
                if (any) test(t);
            }
            if (blk == 1) break;
        }
        while (!best.c.empty() && best.c.back() == 0) best.c.pop_back();
    }
    void ddmin_plan() {
        size_t n = 2;
        while (best.p.size() >= 1 && !out_of_budget()) {
            size_t len = best.p.size(); if (n > len) n = len; if (n == 0) break;
            size_t chunk = (len + n - 1) / n; bool reduced = false;
            for (size_t i = 0; i < len && !out_of_budget(); i += chunk) {       // remove one chunk (complement test)
                Triple t = best; t.p.erase(t.p.begin() + i, t.p.begin() + std::min(len, i + chunk));
                if (test(t)) { reduced = true; n = std::max<size_t>(n - 1, 2); break; }
                // the recorded choices may be mis-aligned after a removal: also try with the default schedule
                if (!t.c.empty()) { t.c.clear(); if (test(t)) { reduced = true; n = std::max<size_t>(n - 1, 2); break; } }
            }
            if (!reduced) { if (chunk <= 1) break; n = std::min(len, n * 2); }
        }
    }
    void merge_ops() {
        for (size_t i = 0; i + 1 < best.p.size() && !out_of_budget(); ) { Op m; if (w.merge(best.p[i], best.p[i + 1], m)) { Triple t = best; t.p[i] = m; t.p.erase(t.p.begin() + i + 1); if (test(t)) continue; } i++; }
    }
    void shrink_args() {
        for (int round = 0; round < 3 && !out_of_budget(); round++) {
            bool any = false;
            for (size_t i = 0; i < best.p.size() && !out_of_budget(); i++) {
                auto cands = w.simpler(best.p[i]);
                for (auto &c : cands) { Triple t = best; t.p[i] = c; if (test(t)) { any = true; break; } if (out_of_budget()) break; }
            }
            for (auto &k : w.simpler_knobs(best.k)) { Triple t = best; t.k = k; if (test(t)) { any = true; break; } if (out_of_budget()) break; }
            if (!any) break;
        }
    }
    void run() {
        t0 = now_s();
        for (int it = 0; it < 4 && !out_of_budget(); it++) {
            size_t before = best.p.size() * 100000 + best.c.size();
            ddmin_plan(); merge_ops(); shrink_choices(); shrink_args();
            if (best.p.size() * 100000 + best.c.size() == before) break;
        }
    }
};

// ------------------------------------------------------------------ batch
struct RawViol { uint64_t idx; std::string cls, taint; };

static void worker_loop(World &w, const std::string &prop, uint64_t seed, uint64_t N, int W, int me, uint64_t first, int outfd, double tlimit, uint64_t *hashes, uint64_t hash_n) {
    g_slot = me; std::map<std::string, int> reported; double t0 = now_s();
    WorkerShm &ws = g_shm->w[me];
    for (uint64_t i = first; i < N; i += W) {
        if (g_shm->stop) break;
        if (tlimit > 0 && (i / W) % 64 == 0 && now_s() - t0 > tlimit) break;
        ws.cur = i; ws.started = 1;
        uint64_t rs = run_seed_of(seed, i);
        Rng kr(substream(rs, "knobs")), pr(substream(rs, "plan"));
        Knobs k; Plan p; w.gen(prop, kr, pr, k, p);
        trace_reset(); Choices c; setup_choices(c, nullptr, substream(rs, "sched"));
        Result r = w.exec(prop, k, p, c);
        ws.done_runs++; ws.steps += g_shm->r[me].nchoices;
        if (r.budget) ws.budget++;
        bm_mark(1, r.shape_hash);
        if (r.nontrivial) { ws.nontrivial++; bm_mark(0, r.shape_hash); }
        if (hashes && i < hash_n) hashes[i] = r.trace_hash ^ hash_str(r.cls);
        if (me == 0 && i / W < 6) {
            std::string s = "run " + std::to_string(i) + " seed " + std::to_string(rs) + " | " + knobs_text(w, k) + " | " + plan_text(w, p, 40) +
                            " | choices=" + std::to_string(g_shm->r[me].nchoices) + " result=" + (r.cls.empty() ? "ok" : r.cls);
            snprintf(g_shm->samples[i / W], sizeof g_shm->samples[0], "%s", s.c_str());
        }
        if (!r.cls.empty()) {
            ws.viol++;
            std::string key = r.cls + "|" + r.taint;
            if (reported[key]++ < 6) {
                std::string line = "V " + std::to_string(i) + " " + r.cls + " " + (r.taint.empty() ? "-" : r.taint) + "\n";
                if (write(outfd, line.data(), line.size()) < 0) {}
            }
        }
    }
    ws.started = 2;
    if (write(outfd, "D\n", 2) < 0) {}
}

static std::string arg(int argc, char **argv, const char *name, const char *dflt) {
    for (int i = 1; i + 1 < argc; i++) if (!strcmp(argv[i], name)) return argv[i + 1];
    return dflt;
}
static bool flag(int argc, char **argv, const char *name) { for (int i = 1; i < argc; i++) if (!strcmp(argv[i], name)) return true; return false; }

static int do_replay(World &w, const std::string &path, bool quiet, const std::string &xcls = "", const std::string &xhash = "") {
    std::string world, prop, cls; uint64_t hash; Triple t;
    if (!replay_load(path, world, prop, t, cls, hash)) { fprintf(stderr, "cannot parse replay file %s\n", path.c_str()); return 2; }
    if (world != w.name()) { fprintf(stderr, "replay file is for world %s, this is %s\n", world.c_str(), w.name()); return 2; }
    Iso r = run_isolated(w, prop, t.k, t.p, &t.c, 0);
    if (!quiet) {
        printf("REPLAY world=%s property=%s class=%s hash=%llu expected_class=%s expected_hash=%llu\n", world.c_str(), prop.c_str(),
               r.cls.empty() ? "OK" : r.cls.c_str(), (unsigned long long)r.hash, cls.c_str(), (unsigned long long)hash);
        printf("  knobs: %s\n  plan: %s\n  choices: %zu\n", knobs_text(w, t.k).c_str(), plan_text(w, t.p).c_str(), t.c.size());
        if (!r.cls.empty()) printf("  detail: %s\n  taint: %s\n", r.detail.c_str(), r.taint.c_str());
    }
    if (r.cls == "INFRA") return 2;
    if (!xcls.empty() && (r.cls != xcls || std::to_string(r.hash) != xhash)) { printf("REPLAY-RESULT mismatch class=%s hash=%llu\n", r.cls.c_str(), (unsigned long long)r.hash); return 4; }
    if (!r.cls.empty()) { printf("REPLAY-RESULT class=%s taint=%s hash=%llu\n", r.cls.c_str(), r.taint.empty() ? "-" : r.taint.c_str(), (unsigned long long)r.hash); return 1; }
    printf("REPLAY-RESULT class=OK taint=- hash=%llu\n", (unsigned long long)r.hash);
    return 0;
}

int sim_main(int argc, char **argv, World &w) {
    g_shm = (Shm *)mmap(nullptr, sizeof(Shm), PROT_READ | PROT_WRITE, MAP_SHARED | MAP_ANONYMOUS | MAP_NORESERVE, -1, 0);
    if (g_shm == MAP_FAILED) { perror("mmap"); return 2; }
    g_errdir = arg(argc, argv, "--errdir", "/dev/null");
    g_tier = arg(argc, argv, "--tier", "quick") == "thorough" ? 1 : 0;
    std::string rp = arg(argc, argv, "--replay", "");
    if (!rp.empty()) return do_replay(w, rp, false, arg(argc, argv, "--expect-class", ""), arg(argc, argv, "--expect-hash", ""));

    std::string prop = arg(argc, argv, "--prop", w.properties()[0].c_str());
    uint64_t seed = strtoull(arg(argc, argv, "--seed", "1").c_str(), nullptr, 10);
    uint64_t N = strtoull(arg(argc, argv, "--runs", "1000").c_str(), nullptr, 10);
    int W = atoi(arg(argc, argv, "--workers", "16").c_str()); if (W < 1) W = 1; if (W > MAXW) W = MAXW;
    double tlimit = atof(arg(argc, argv, "--seconds", "0").c_str());
    std::string out = arg(argc, argv, "--out", "");
    std::string rdir = arg(argc, argv, "--replaydir", ".");
    std::string hashfile = arg(argc, argv, "--dump-hashes", "");
    int max_groups = atoi(arg(argc, argv, "--max-report", "6").c_str());
    bool no_shrink = flag(argc, argv, "--no-shrink");
    if (flag(argc, argv, "--describe")) {   // print the first runs' plans and exit
        for (uint64_t i = 0; i < N; i++) { uint64_t rs = run_seed_of(seed, i); Rng kr(substream(rs, "knobs")), pr(substream(rs, "plan")); Knobs k; Plan p; w.gen(prop, kr, pr, k, p);
            printf("run %llu seed %llu | %s | %s\n", (unsigned long long)i, (unsigned long long)rs, knobs_text(w, k).c_str(), plan_text(w, p).c_str()); }
        return 0;
    }
    auto snames = w.stat_names();
    uint64_t hash_n = hashfile.empty() ? 0 : std::min<uint64_t>(N, 4000000);
    uint64_t *hashes = hash_n ? (uint64_t *)mmap(nullptr, hash_n * 8, PROT_READ | PROT_WRITE, MAP_SHARED | MAP_ANONYMOUS, -1, 0) : nullptr;

    double t0 = now_s();
    struct WP { pid_t pid; int fd; std::string buf; bool done; bool killed; } wp[MAXW];
    auto spawn = [&](int me, uint64_t first) {
        int fd[2]; if (pipe(fd)) { perror("pipe"); exit(2); }
        fflush(stdout); fflush(stderr);
        pid_t pid = fork();
        if (pid == 0) { close(fd[0]);
            std::string ef = g_errdir == "/dev/null" ? "/dev/null" : g_errdir + "/worker" + std::to_string(me) + ".err";
            int e = open(ef.c_str(), O_WRONLY | O_CREAT | O_TRUNC, 0644); if (e >= 0) { dup2(e, 2); close(e); }
            worker_loop(w, prop, seed, N, W, me, first, fd[1], tlimit, hashes, hash_n); _exit(0); }
        close(fd[1]); wp[me].pid = pid; wp[me].fd = fd[0]; wp[me].buf.clear(); wp[me].done = false; wp[me].killed = false;
    };
    for (int i = 0; i < W; i++) spawn(i, i);
    std::vector<RawViol> raw; std::map<std::string, int> tainted_seen; int infra = 0; std::vector<std::string> infra_msgs;
    int live = W; double last_progress[MAXW]; uint64_t last_cur[MAXW]; for (int i = 0; i < W; i++) { last_progress[i] = now_s(); last_cur[i] = ~0ull; }
    while (live > 0) {
        struct pollfd pf[MAXW]; int map[MAXW], n = 0;
        for (int i = 0; i < W; i++) if (wp[i].fd >= 0) { pf[n].fd = wp[i].fd; pf[n].events = POLLIN; pf[n].revents = 0; map[n++] = i; }
        poll(pf, n, 200);
        for (int q = 0; q < n; q++) {
            int i = map[q];
            if (pf[q].revents & (POLLIN | POLLHUP)) {
                char tmp[4096]; ssize_t r = read(wp[i].fd, tmp, sizeof tmp);
                if (r > 0) wp[i].buf.append(tmp, r);
                size_t nl;
                while ((nl = wp[i].buf.find('\n')) != std::string::npos) {
                    std::string line = wp[i].buf.substr(0, nl); wp[i].buf.erase(0, nl + 1);
                    if (line == "D") wp[i].done = true;
                    else if (line[0] == 'V') { std::istringstream is(line.substr(2)); RawViol v; is >> v.idx >> v.cls >> v.taint; if (v.taint == "-") v.taint = ""; if (v.taint.empty() || ++tainted_seen[v.cls + "|" + v.taint] <= 40) raw.push_back(v); }
                }
                if (r <= 0) {   // EOF: worker finished or died
                    close(wp[i].fd); wp[i].fd = -1; int st = 0; waitpid(wp[i].pid, &st, 0);
                    if (wp[i].done) { live--; }
                    else {      // died inside run cur: that is an observation about the code under test
                        uint64_t idx = g_shm->w[i].cur; RawViol v; v.idx = idx;
                        v.cls = wp[i].killed ? "HANG" : (WIFEXITED(st) && WEXITSTATUS(st) == 77) ? "MEMORY" : WIFSIGNALED(st) ? "CRASH-SIG" + std::to_string(WTERMSIG(st)) : "CRASH-EXIT" + std::to_string(WEXITSTATUS(st));
                        { std::string nt = g_shm->r[i].note; size_t tp = nt.find("taint="); if (tp != std::string::npos) { size_t e = nt.find(' ', tp); v.taint = nt.substr(tp + 6, e == std::string::npos ? std::string::npos : e - tp - 6); } }
                        raw.push_back(v); g_shm->w[i].viol++;
                        if (idx + W < N && !g_shm->stop) spawn(i, idx + W); else live--;
                    }
                }
            }
        }
        // watchdog: a worker stuck in one run for 60 s wall is killed (reported as HANG for that run)
        for (int i = 0; i < W; i++) if (wp[i].fd >= 0) {
            uint64_t c = g_shm->w[i].cur; if (c != last_cur[i]) { last_cur[i] = c; last_progress[i] = now_s(); }
            else if (now_s() - last_progress[i] > 20 && g_shm->w[i].started == 1) { wp[i].killed = true; kill(wp[i].pid, SIGKILL); last_progress[i] = now_s(); }
        }
        size_t untainted = 0; for (auto &v : raw) if (v.taint.empty()) untainted++;
        if (untainted >= 48) g_shm->stop = 1;   // reports that carry a taint (candidates for known findings) never end the batch; they are thinned out below
    }
    double t_batch = now_s() - t0;

    // ---- aggregate
    uint64_t runs = 0, viol = 0, budget = 0, nontrivial = 0, steps = 0; std::vector<uint64_t> cnt(snames.size(), 0);
    for (int i = 0; i < W; i++) { auto &ws = g_shm->w[i]; runs += ws.done_runs; viol += ws.viol; budget += ws.budget; nontrivial += ws.nontrivial; steps += ws.steps;
        for (size_t s = 0; s < snames.size() && s < (size_t)NSTAT; s++) { if (snames[s].rfind("max.", 0) == 0) cnt[s] = std::max<uint64_t>(cnt[s], ws.counters[s]); else cnt[s] += ws.counters[s]; } }

    // ---- triage violations: group, gate 1, minimise, gate 2
    std::sort(raw.begin(), raw.end(), [](const RawViol &a, const RawViol &b) { return a.idx < b.idx; });
    std::map<std::string, std::vector<RawViol>> groups; std::vector<std::string> order;
    for (auto &v : raw) { std::string key = v.cls + "|" + v.taint; if (!groups.count(key)) order.push_back(key); groups[key].push_back(v); }
    struct Rep { std::string cls, taint, detail, path, plan; uint64_t idx, run_seed, hash; size_t orig_ops, min_ops, min_choices; int execs; uint64_t count; };
    std::vector<Rep> reps;
    mkdir(rdir.c_str(), 0755);
    int handled = 0;
    for (auto &key : order) {
        if (handled >= max_groups) break; handled++;
        auto &g = groups[key]; RawViol v = g[0];
        uint64_t rs = run_seed_of(seed, v.idx);
        Rng kr(substream(rs, "knobs")), pr(substream(rs, "plan")); Triple t; w.gen(prop, kr, pr, t.k, t.p);
        Iso r1 = run_isolated(w, prop, t.k, t.p, nullptr, substream(rs, "sched"));
        // memory corruption in the code under test may show as a different class in a differently laid out process: a violation both times is
        // still a violation (the isolated class is reported); only "violation in the batch, fine in isolation" is a determinism failure of the harness
        if (r1.cls.empty() && v.cls == "CRASH-SIG9") { fprintf(stderr, "NOTE: a worker was killed from outside (SIGKILL, e.g. by the OOM killer) during run %llu; re-executed in isolation: the property held\n", (unsigned long long)v.idx); continue; }
        if (r1.cls.empty() || r1.cls == "INFRA") { infra++; infra_msgs.push_back("NONDETERMINISM run " + std::to_string(v.idx) + ": batch said " + v.cls + "/" + v.taint + ", isolated re-execution said " + (r1.cls.empty() ? "OK" : r1.cls) + "/" + r1.taint); continue; }
        t.c = r1.choices;
        Iso r2 = run_isolated(w, prop, t.k, t.p, &t.c, 0);   // gate 1: replay from the captured triple
        if (r2.cls != r1.cls || r2.hash != r1.hash) { infra++; infra_msgs.push_back("NONDETERMINISM run " + std::to_string(v.idx) + ": replay from captured choices gave " + r2.cls + " hash " + std::to_string(r2.hash) + " vs " + std::to_string(r1.hash)); continue; }
        Shrinker sh{w, prop, r1.cls, r1.taint}; sh.best = t; sh.best_r = r2; size_t orig = t.p.size();
        if (!no_shrink) sh.run();
        Iso rf = run_isolated(w, prop, sh.best.k, sh.best.p, &sh.best.c, 0);
        if (rf.cls != r1.cls) { infra++; infra_msgs.push_back("minimised triple does not reproduce"); continue; }
        char fn[512]; snprintf(fn, sizeof fn, "%s/%s-%s%s%s-%llu.json", rdir.c_str(), prop.c_str(), rf.cls.c_str(), rf.taint.empty() ? "" : "-", rf.taint.c_str(), (unsigned long long)rs);
        for (char *c = fn + rdir.size() + 1; *c; c++) if (*c == ':' || *c == ' ' || *c == ',') *c = '_';
        { std::ofstream f(fn); f << replay_json(w, prop, rs, sh.best, rf, orig); }
        // gate 2: fresh process
        fflush(stdout);
        pid_t pid = fork();
        if (pid == 0) { int dn = open("/dev/null", O_WRONLY); dup2(dn, 1); dup2(dn, 2);
            char gh[64]; snprintf(gh, sizeof gh, "%llu", (unsigned long long)rf.hash);
            execl("/proc/self/exe", argv[0], "--replay", fn, "--expect-class", rf.cls.c_str(), "--expect-hash", gh, "--errdir", g_errdir.c_str(), (char *)nullptr); _exit(3); }
        int st = 0; waitpid(pid, &st, 0);
        if (!(WIFEXITED(st) && WEXITSTATUS(st) == 1)) { infra++; infra_msgs.push_back(std::string("fresh-process replay of ") + fn + " did not reproduce (status " + std::to_string(st) + ")"); continue; }
        Rep rep{rf.cls, rf.taint, rf.detail, fn, plan_text(w, sh.best.p, 60), v.idx, rs, rf.hash, orig, sh.best.p.size(), sh.best.c.size(), sh.execs, (uint64_t)g.size()};
        reps.push_back(rep);
    }
    double wall = now_s() - t0;

    // ---- summary
    std::ostringstream o;
    o << "{\n \"world\": \"" << w.name() << "\", \"property\": \"" << prop << "\", \"seed\": " << seed << ", \"runs_requested\": " << N << ", \"workers\": " << W << ",\n";
    o << " \"runs\": " << runs << ", \"violating_runs\": " << viol << ", \"budget_runs\": " << budget << ", \"nontrivial_runs\": " << nontrivial << ", \"decisions\": " << steps << ",\n";
    o << " \"distinct_nontrivial\": " << bm_count(0) << ", \"distinct_shapes\": " << bm_count(1) << ",\n";
    o << " \"batch_wall_s\": " << t_batch << ", \"wall_s\": " << wall << ", \"isolated_execs\": " << g_iso_count << ",\n";
    o << " \"components\": " << w.components() << ",\n \"rule\": \"" << json_escape(w.rule()) << "\",\n";
    o << " \"counters\": {"; for (size_t s = 0; s < snames.size(); s++) o << (s ? ", " : "") << "\"" << snames[s] << "\": " << cnt[s]; o << "},\n";
    o << " \"samples\": ["; bool first = true; for (int i = 0; i < 6; i++) if (g_shm->samples[i][0]) { o << (first ? "" : ",") << "\n  \"" << json_escape(g_shm->samples[i]) << "\""; first = false; } o << "\n ],\n";
    o << " \"violations\": ["; for (size_t i = 0; i < reps.size(); i++) { auto &r = reps[i];
        o << (i ? "," : "") << "\n  {\"class\": \"" << json_escape(r.cls) << "\", \"taint\": \"" << json_escape(r.taint) << "\", \"detail\": \"" << json_escape(r.detail) << "\", \"replay\": \"" << json_escape(r.path)
          << "\", \"run_index\": " << r.idx << ", \"run_seed\": \"" << r.run_seed << "\", \"hash\": \"" << r.hash << "\", \"original_ops\": " << r.orig_ops << ", \"minimised_ops\": " << r.min_ops << ", \"minimised_choices\": " << r.min_choices
          << ", \"shrink_execs\": " << r.execs << ", \"reported_runs_in_group\": " << r.count << ", \"plan\": \"" << json_escape(r.plan) << "\"}"; }
    o << "\n ],\n \"unprocessed_groups\": " << (order.size() > (size_t)handled ? order.size() - handled : 0) << ",\n";
    o << " \"infra_errors\": ["; for (size_t i = 0; i < infra_msgs.size(); i++) o << (i ? "," : "") << "\"" << json_escape(infra_msgs[i]) << "\""; o << "]\n}\n";
    if (!out.empty()) { std::ofstream f(out); f << o.str(); } else fputs(o.str().c_str(), stdout);
    if (hashes) { std::ofstream f(hashfile); for (uint64_t i = 0; i < hash_n; i++) f << i << " " << hashes[i] << "\n"; }
    fprintf(stderr, "[%s/%s] runs=%llu viol_runs=%llu groups=%zu reported=%zu infra=%d wall=%.1fs (%.0f runs/s)\n", w.name(), prop.c_str(), (unsigned long long)runs,
            (unsigned long long)viol, order.size(), reps.size(), infra, wall, runs / std::max(0.001, t_batch));
    for (auto &m : infra_msgs) fprintf(stderr, "INFRA: %s\n", m.c_str());
    if (infra) return 2;
    return reps.empty() ? 0 : 1;
}

} // namespace sim
