// Cooperative fibers + seeded scheduler + happens-before tracker.
#pragma once
#include "sim.h"
#include <ucontext.h>
#include <unordered_map>

namespace sim {

enum YieldKind { Y_LOAD = 1, Y_STORE = 2, Y_RMW = 3, Y_COPY = 4, Y_API = 5, Y_STALL = 6, Y_AFTER_STORE = 7 };
enum Strategy { S_UNIFORM = 0, S_STICKY50, S_STICKY80, S_STICKY95, S_PCT1, S_PCT2, S_PCT3, S_PUBLISH, S_COUNT };

struct Sched {
    static const int MAXT = 4;
    static Sched *active;                 // non-null only while run() is in progress
    Choices *ch = nullptr;
    int strategy = S_UNIFORM;
    uint64_t max_steps = 20000, steps = 0, switches = 0, inter_hash = 0;
    bool budget_hit = false;

    int spawn(std::function<void()> f);
    void run();                           // call from the main context; returns when all tasks ended or budget hit
    void yield(int kind);                 // call from a task
    void stall(int k);                    // current task is not schedulable for the next k decisions
    int current() const { return cur; }
    bool in_task() const { return cur >= 0; }
    uint64_t yields_by_kind[8] = {0,0,0,0,0,0,0,0};

    Sched(); ~Sched();
  private:
    struct Task { ucontext_t ctx; std::function<void()> fn; char *stack = nullptr; bool done = false; int stall = 0; void *fake = nullptr; int prio = 0; };
    Task tasks[MAXT]; int ntasks = 0; int cur = -1;
    ucontext_t main_ctx; void *main_fake = nullptr; const void *main_bottom = nullptr; size_t main_size = 0;
    bool pct_init = false; uint64_t pct_points[3]; int pct_n = 0; bool last_was_store = false;
    int pick_next(int kind);              // -1: nothing left
    void switch_to(int from, int to);     // from/to: task id or -1 (main)
    static void trampoline(unsigned lo, unsigned hi);
    void finish_entry(int self);
};

// FastTrack-style happens-before tracking over SC interleavings (DRF-SC argument, DESIGN 3.6)
struct HB {
    static const int T = Sched::MAXT;
    struct VC { uint32_t c[T]; };
    VC task[T];
    std::unordered_map<const void *, VC> sync;
    struct Sh { int8_t wt; uint32_t wc; uint32_t r[T]; };
    std::unordered_map<uintptr_t, Sh> bytes;
    std::string first_race; uint64_t races = 0, tracked_reads = 0, tracked_writes = 0;
    void reset();
    // mo: 0 relaxed, 1 consume/acquire, 2 release, 3 acq_rel, 4 seq_cst
    void on_load(int t, const void *obj, int mo);
    void on_store(int t, const void *obj, int mo);
    void on_rmw(int t, const void *obj, int mo);
    void on_read(int t, const void *p, size_t n, uint64_t step);
    void on_write(int t, const void *p, size_t n, uint64_t step);
};

} // namespace sim
