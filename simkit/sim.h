// simkit — deterministic simulation kernel for the rtosc worlds.
// One integer (run seed) decides every knob, plan op and scheduling choice.
#pragma once
#include <cstdint>
#include <cstddef>
#include <string>
#include <vector>
#include <map>
#include <functional>

namespace sim {

// ---------------------------------------------------------------- rng
uint64_t splitmix64(uint64_t &x);
struct Rng {
    uint64_t s[4];
    explicit Rng(uint64_t seed = 1) { reseed(seed); }
    void reseed(uint64_t seed);
    uint64_t next();
    // uniform in [0,n)  (n>0)
    uint64_t below(uint64_t n) { return n ? next() % n : 0; }
    // uniform in [lo,hi]
    int64_t range(int64_t lo, int64_t hi) { return lo + (int64_t)below((uint64_t)(hi - lo + 1)); }
    bool chance(double p) { return (next() >> 11) * (1.0 / 9007199254740992.0) < p; }
    double unit() { return (next() >> 11) * (1.0 / 9007199254740992.0); }
    template<class T> const T &pick(const std::vector<T> &v) { return v[below(v.size())]; }
};
// labelled sub-stream of a run seed
uint64_t substream(uint64_t run_seed, const char *label);
uint64_t run_seed_of(uint64_t batch_seed, uint64_t index);

// ---------------------------------------------------------------- hashing
inline uint64_t mix64(uint64_t h, uint64_t v) {
    h ^= v + 0x9E3779B97F4A7C15ull + (h << 6) + (h >> 2);
    h *= 0xff51afd7ed558ccdull; h ^= h >> 33;
    return h;
}
uint64_t hash_bytes(const void *p, size_t n, uint64_t h = 1469598103934665603ull);
inline uint64_t hash_str(const std::string &s, uint64_t h = 1469598103934665603ull) { return hash_bytes(s.data(), s.size(), h); }

// ---------------------------------------------------------------- plan
struct Op {
    int party = 0;           // which party/task performs it
    int kind = 0;            // world-specific op kind
    int64_t a[4] = {0,0,0,0};// world-specific arguments (interpreted modulo what is enabled)
    std::string s;           // optional text payload
};
typedef std::vector<Op> Plan;
typedef std::vector<int64_t> Knobs;

// ---------------------------------------------------------------- choices
// The sequence of scheduler decisions of one run.  In exploration they are
// drawn (through a strategy) from the sched stream and recorded; in replay they
// are read back.  An exhausted or out-of-range entry means 0 ("default":
// continue the current task / take the first option), so every prefix or
// mutilation of a choice list is still a valid deterministic schedule.
struct Choices {
    bool replay = false;
    std::vector<uint32_t> in;     // replay input
    size_t pos = 0;
    uint32_t *log = nullptr;      // recording buffer (may live in shared memory)
    uint32_t *log_n = nullptr;
    uint32_t log_cap = 0;
    Rng rng;                      // sched stream (exploration only)
    // decide among n options; `proposal` is what the exploring strategy wants
    uint32_t decide(uint32_t n, uint32_t proposal);
};

// ---------------------------------------------------------------- result
struct Result {
    std::string cls;       // "" = property held on this run; otherwise violation class (oracle clause id)
    std::string detail;    // human readable
    std::string taint;     // known-finding trigger tags observed by the model in this run ("" = none)
    uint64_t trace_hash = 0;
    uint64_t shape_hash = 0; // hash of (plan shape, interleaving) for the distinct count
    bool nontrivial = false;
    bool budget = false;   // hit the step cap (not a violation)
};

// running trace hash & shared counters (live in shared memory in batch mode)
void trace(uint64_t v);                 // mix an event into the run's trace hash
uint64_t trace_value();
void note(const char *what);            // what the run is doing right now (survives a crash of the run; shown in the report)
void stat_add(int idx, uint64_t n = 1); // per-world counter
void stat_max(int idx, uint64_t v);

// ---------------------------------------------------------------- world
struct World {
    virtual ~World() {}
    virtual const char *name() const = 0;
    virtual std::vector<std::string> properties() const = 0;      // ids this world can decide
    virtual std::vector<std::string> stat_names() const = 0;      // counters; names starting with "fault." are fault kinds, "probe." reach probes
    virtual std::vector<std::string> knob_names() const = 0;
    virtual std::string components() const = 0;                    // JSON object text: which parts are real / stub
    virtual std::string rule() const = 0;                          // evidence rule text
    // generate knobs and plan for a run (two independent streams)
    virtual void gen(const std::string &prop, Rng &knobs_rng, Rng &plan_rng, Knobs &k, Plan &p) = 0;
    // execute one run; must be a pure function of (prop, knobs, plan, choices) and the code under test
    virtual Result exec(const std::string &prop, const Knobs &k, const Plan &p, Choices &c) = 0;
    virtual std::string describe(const Op &op) const = 0;          // one op as text
    // candidate simplifications of one op, simplest first (for the shrinker)
    virtual std::vector<Op> simpler(const Op &op) const { (void)op; return {}; }
    virtual std::vector<Knobs> simpler_knobs(const Knobs &k) const { (void)k; return {}; }
    virtual bool merge(const Op &a, const Op &b, Op &out) const { (void)a; (void)b; (void)out; return false; }   // two adjacent ops that one op can stand for (e.g. two clock advances)
    virtual double sim_seconds_stat() const { return -1; }          // index of a counter holding simulated ms, or -1
};

extern int g_tier;   // 0 quick, 1 thorough (worlds draw longer plans in the thorough tier)
int sim_main(int argc, char **argv, World &w);

// ---------------------------------------------------------------- mini json
struct J {
    enum T { NUL, NUM, STR, ARR, OBJ, BOOL } t = NUL;
    long long n = 0; bool neg0 = false; std::string s;
    std::vector<J> a; std::vector<std::pair<std::string, J>> o;
    const J *get(const char *k) const { for (auto &kv : o) if (kv.first == k) return &kv.second; return nullptr; }
    long long num(const char *k, long long d = 0) const { auto *j = get(k); return j && j->t == NUM ? j->n : d; }
    std::string str(const char *k, const std::string &d = "") const { auto *j = get(k); return j && j->t == STR ? j->s : d; }
};
bool json_parse(const std::string &text, J &out);
std::string json_escape(const std::string &s);

} // namespace sim
