// Plan-driven construction of OSC messages and bundles (shared by w_cap and w_wire).
// Plan ops:  ADDR(len, seed) starts a message; ARG(tag, value/len, seed) appends an argument or a bracket;
//            CTOR(which) chooses the constructor; BOPEN(timetag)/BCLOSE group elements into a (nested) bundle.
// Ops are interpreted leniently so that any sub-sequence of a plan is still a valid plan.
#pragma once
#include "../simkit/sim.h"
#include <rtosc/rtosc.h>
#include <rtosc/arg-val.h>
#include <string>
#include <vector>
#include <cstring>

namespace msggen {

enum { G_ADDR = 0, G_ARG, G_CTOR, G_BOPEN, G_BCLOSE, G_FAULT /* world specific */ };
static const char TAGS[] = "ifsbhtdScrmTFNI[]";

struct GArg { char tag; rtosc_arg_t v; std::string s; std::vector<uint8_t> blob; bool null_blob = false; int rep = 1; };   // rep: the argument stands for rep equal arguments (an arg-val list may spell them as one range)
struct GMsg { std::string addr; std::vector<GArg> args; int ctor = 1;
    std::string types() const { std::string t; for (auto &a : args) for (int q = 0; q < a.rep; q++) t += a.tag; return t; } };
struct GElem { bool is_bundle = false; GMsg msg; uint64_t tt = 0; std::vector<GElem> kids; };

inline bool carries_value(char t) { return strchr("ifsbhtdScrm", t) != nullptr; }

inline std::string printable(uint64_t seed, size_t n, bool addr) {
    sim::Rng r(seed * 2654435761u + 17); std::string s;
    static const char cs[] = "abcdefghijklmnopqrstuvwxyzABCDEFGHIJKLMNOPQRSTUVWXYZ0123456789_-.+!~ ";
    for (size_t i = 0; i < n; i++) s += addr ? cs[r.below(64)] : cs[r.below(sizeof cs - 1)];
    return s;
}

inline GArg make_arg(char tag, int64_t val, uint64_t seed) {
    GArg a; a.tag = tag; memset(&a.v, 0, sizeof a.v); sim::Rng r(seed ^ 0x5bd1e995);
    switch (tag) {
    case 'i': case 'c': case 'r': a.v.i = (int32_t)val; break;
    case 'f': { uint32_t u = (uint32_t)val; memcpy(&a.v.f, &u, 4); break; }
    case 'h': a.v.h = val; break;
    case 't': a.v.t = (uint64_t)val; break;
    case 'd': { uint64_t u = (uint64_t)val * 0x9E3779B97F4A7C15ull ^ seed; if (seed % 3 == 0) u = (uint64_t)val; memcpy(&a.v.d, &u, 8); break; }
    case 'm': for (int i = 0; i < 4; i++) a.v.m[i] = (uint8_t)(val >> (8 * i)); break;
    case 's': case 'S': { size_t n = (size_t)std::max<int64_t>(0, std::min<int64_t>(val, 600)); a.s = printable(seed, n, false); break; }
    case 'b': { size_t n = (size_t)std::max<int64_t>(0, std::min<int64_t>(val, 600)); a.blob.resize(n); for (auto &b : a.blob) b = (uint8_t)r.next(); a.null_blob = (n == 0 && (seed & 1)) || (n > 0 && seed % 7 == 0); break; }   // NULL data also with a length: the writer then leaves the payload zeroed
    default: break;
    }
    return a;
}

// interpret a plan into a list of top-level elements
inline std::vector<GElem> build(const sim::Plan &plan, size_t from = 0, size_t to = (size_t)-1) {
    std::vector<GElem> top; std::vector<GElem *> stack; GMsg *cur = nullptr;
    auto container = [&]() -> std::vector<GElem> & { return stack.empty() ? top : stack.back()->kids; };
    std::vector<std::vector<int>> path;   // not needed; pointers into vectors are unstable, so rebuild by indices
    // simple two-pass approach: build a tree with index paths
    struct Node { bool b; GMsg m; uint64_t tt; std::vector<int> kids; int parent; };
    std::vector<Node> nodes; int open = -1; int curmsg = -1; std::vector<int> roots;
    for (size_t i = from; i < plan.size() && i < to; i++) {
        const sim::Op &op = plan[i];
        switch (op.kind) {
        case G_BOPEN: { int depth = 0; for (int p = open; p >= 0; p = nodes[p].parent) depth++; if (depth >= 4) break;
            Node n; n.b = true; n.tt = (uint64_t)op.a[0]; n.parent = open; nodes.push_back(n); int id = (int)nodes.size() - 1; if (open >= 0) nodes[open].kids.push_back(id); else roots.push_back(id); open = id; curmsg = -1; break; }
        case G_BCLOSE: if (open >= 0) open = nodes[open].parent; curmsg = -1; break;
        case G_ADDR: { if (open >= 0 && nodes[open].kids.size() >= 14) break;   /* (8 until round h: a builder may treat more elements than some small number differently) */
            Node n; n.b = false; n.tt = 0; n.parent = open; size_t len = (size_t)std::max<int64_t>(1, std::min<int64_t>(op.a[0], 64)); n.m.addr = "/" + printable((uint64_t)op.a[1], len - 1, true);
            nodes.push_back(n); int id = (int)nodes.size() - 1; if (open >= 0) nodes[open].kids.push_back(id); else roots.push_back(id); curmsg = id; break; }
        case G_ARG: if (curmsg >= 0 && nodes[curmsg].m.args.size() < 40) { char tag = (char)op.a[0]; if (!strchr(TAGS, tag) || !tag) tag = 'i'; GArg ga = make_arg(tag, op.a[1], (uint64_t)op.a[2]); if (strchr("ifhdc", tag) && op.a[3] >= 2) ga.rep = (int)std::min<int64_t>(op.a[3], 9); nodes[curmsg].m.args.push_back(ga); } break;
        case G_CTOR: if (curmsg >= 0) nodes[curmsg].m.ctor = (int)(((op.a[0] % 3) + 3) % 3); break;
        default: break;
        }
    }
    std::function<GElem(int)> conv = [&](int id) { GElem e; e.is_bundle = nodes[id].b; e.msg = nodes[id].m; e.tt = nodes[id].tt; for (int k : nodes[id].kids) e.kids.push_back(conv(k)); return e; };
    for (int r : roots) top.push_back(conv(r));
    (void)cur; (void)container; (void)path; (void)stack;
    return top;
}

struct ArgPack { std::string types; std::vector<rtosc_arg_t> args; };
inline ArgPack pack(const GMsg &m) {
    ArgPack p; p.types = m.types();
    for (auto &a : m.args) if (carries_value(a.tag)) for (int q = 0; q < a.rep; q++) { rtosc_arg_t v = a.v;
        if (a.tag == 's' || a.tag == 'S') v.s = a.s.c_str();
        if (a.tag == 'b') { v.b.len = (int32_t)a.blob.size(); v.b.data = a.null_blob ? nullptr : (uint8_t *)(a.blob.empty() ? (const uint8_t *)"" : a.blob.data()); }
        p.args.push_back(v); }
    return p;
}
// reference encoding through the array constructor into a generous buffer
inline std::vector<char> encode_msg(const GMsg &m) {
    ArgPack p = pack(m); std::vector<char> buf(64 * 1024);
    size_t n = rtosc_amessage(buf.data(), buf.size(), m.addr.c_str(), p.types.c_str(), p.args.data()); buf.resize(n); return buf;
}
inline std::vector<char> encode(const GElem &e);
inline std::vector<char> encode_bundle(const GElem &e) {
    std::vector<std::vector<char>> kids; for (auto &k : e.kids) kids.push_back(encode(k));
    std::vector<char> buf(256 * 1024); const char *p[16] = {0}; for (size_t i = 0; i < kids.size() && i < 16; i++) p[i] = kids[i].data();
    size_t n = rtosc_bundle(buf.data(), buf.size(), e.tt, (int)std::min<size_t>(kids.size(), 16), p[0], p[1], p[2], p[3], p[4], p[5], p[6], p[7], p[8], p[9], p[10], p[11], p[12], p[13], p[14], p[15]); buf.resize(n); return buf;
}
inline std::vector<char> encode(const GElem &e) { return e.is_bundle ? encode_bundle(e) : encode_msg(e.msg); }

// random plan for one message
inline void gen_message(sim::Rng &r, sim::Plan &p, int max_args, int max_len) {
    sim::Op a; a.kind = G_ADDR; a.a[0] = 1 + (int64_t)r.below(r.chance(0.8) ? 12 : 64); a.a[1] = (int64_t)r.below(1000000); p.push_back(a);
    if (r.chance(0.6)) { sim::Op c; c.kind = G_CTOR; c.a[0] = (int64_t)r.below(3); p.push_back(c); }
    int n = (int)r.below(max_args + 1); int depth = 0;
    for (int i = 0; i < n; i++) {
        sim::Op o; o.kind = G_ARG; char tag = TAGS[r.below(sizeof TAGS - 1)];
        if (tag == ']' && depth == 0) tag = '['; if (tag == '[') depth++; if (tag == ']') depth--;
        o.a[0] = tag; o.a[2] = (int64_t)r.below(1u << 30); if (strchr("ifhdc", tag) && r.chance(0.1)) o.a[3] = 2 + (int64_t)r.below(6);
        switch (tag) {
        case 'i': case 'c': case 'r': case 'f': case 'm': o.a[1] = r.chance(0.2) ? r.pick(std::vector<int64_t>{0, -1, 0x7fffffff, (int64_t)(int32_t)0x80000000, 0x7fc00001, 0xff800000LL}) : (int64_t)(int32_t)r.next(); break;
        case 'h': case 't': case 'd': o.a[1] = r.chance(0.2) ? r.pick(std::vector<int64_t>{0, 1, -1, INT64_MAX, INT64_MIN}) : (int64_t)r.next(); break;
        case 's': case 'S': case 'b': o.a[1] = r.chance(0.75) ? (int64_t)r.below(13) : (int64_t)r.below(max_len); break;
        default: break;
        }
        p.push_back(o);
    }
    while (depth-- > 0) { sim::Op o; o.kind = G_ARG; o.a[0] = ']'; p.push_back(o); }
}
inline void gen_bundle(sim::Rng &r, sim::Plan &p, int depth, int max_len) {
    sim::Op o; o.kind = G_BOPEN; o.a[0] = r.chance(0.3) ? r.pick(std::vector<int64_t>{0, 1, -1, INT64_MAX}) : (int64_t)r.next(); p.push_back(o);
    int n = depth == 0 ? (r.chance(0.15) ? 9 + (int)r.below(6) : (int)r.below(9)) : (int)r.below(4);   /* some bundles with more elements than any small fixed array inside the builder */
    for (int i = 0; i < n; i++) { if (depth < 4 && r.chance(0.25)) gen_bundle(r, p, depth + 1, max_len); else gen_message(r, p, 5, max_len / 4); }
    sim::Op c; c.kind = G_BCLOSE; p.push_back(c);
}
inline std::string describe(const sim::Op &op) {
    char b[96];
    switch (op.kind) {
    case G_ADDR: snprintf(b, sizeof b, "addr(len=%lld,#%lld)", (long long)op.a[0], (long long)op.a[1]); break;
    case G_ARG: if (op.a[3] >= 2 && strchr("ifhdc", (char)op.a[0])) { snprintf(b, sizeof b, "arg(%lldx%c,%lld)", (long long)op.a[3], (char)op.a[0], (long long)op.a[1]); break; } if (strchr("sSb", (char)op.a[0])) snprintf(b, sizeof b, "arg(%c,len=%lld)", (char)op.a[0], (long long)op.a[1]); else if (carries_value((char)op.a[0])) snprintf(b, sizeof b, "arg(%c,%lld)", (char)op.a[0], (long long)op.a[1]); else snprintf(b, sizeof b, "arg(%c)", (char)op.a[0]); break;
    case G_CTOR: snprintf(b, sizeof b, "ctor(%s)", op.a[0] % 3 == 0 ? "varargs" : op.a[0] % 3 == 1 ? "array" : "argvals"); break;
    case G_BOPEN: snprintf(b, sizeof b, "bundle{tt=%lld", (long long)op.a[0]); break;
    case G_BCLOSE: snprintf(b, sizeof b, "}"); break;
    default: snprintf(b, sizeof b, "op%d(%lld,%lld,%lld)", op.kind, (long long)op.a[0], (long long)op.a[1], (long long)op.a[2]); break;
    }
    return b;
}
inline std::vector<sim::Op> simpler(const sim::Op &op) {
    std::vector<sim::Op> v;
    if (op.kind == G_ARG && strchr("sSb", (char)op.a[0]) && op.a[1] > 0) { for (int64_t n : {(int64_t)0, op.a[1] / 2, op.a[1] - 1}) if (n != op.a[1]) { sim::Op o = op; o.a[1] = n; v.push_back(o); } }
    else if (op.kind == G_ARG && carries_value((char)op.a[0]) && op.a[1]) { sim::Op o = op; o.a[1] = 0; v.push_back(o); }
    if (op.kind == G_ARG && (char)op.a[0] != 'i' && carries_value((char)op.a[0])) { sim::Op o = op; o.a[0] = 'i'; v.push_back(o); }
    if (op.kind == G_ADDR && op.a[0] > 1) { sim::Op o = op; o.a[0] = 1; v.push_back(o); o.a[0] = op.a[0] / 2; v.push_back(o); }
    return v;
}

} // namespace msggen
