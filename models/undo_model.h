// Reference model of the undo history, written from the text of property C15.
#pragma once
#include <string>
#include <vector>
#include <cstring>
#include <cstdint>

namespace undo_model {

struct V { char t = 'i'; int32_t i = 0; float f = 0;
    bool operator==(const V &o) const { return t == o.t && ((t == 'f' || t == 'd') ? !memcmp(&f, &o.f, 4) : i == o.i); }
    std::string str() const { char b[48]; if (t == 'f' || t == 'd') snprintf(b, sizeof b, "%g", f); else snprintf(b, sizeof b, "%d", i); return b; } };
struct Entry { std::string addr; V oldv, newv; int64_t t_last_ms; };
struct Emit { std::string addr; V v; };

struct Model {
    std::vector<Entry> h; size_t pos = 0; size_t cap = 20;
    enum Merge { MUST, MUST_NOT, EITHER };
    // the newest applied entry for the same address
    int candidate(const std::string &addr) const { for (int i = (int)pos - 1; i >= 0; i--) if (h[i].addr == addr) return i; return -1; }
    // "events for the same address recorded within two seconds merge": decided on true elapsed time; a clock with
    // one-second granularity cannot tell between 2 s and 3 s, so either outcome is accepted there
    Merge classify(const std::string &addr, int64_t now_ms) const {
        int c = candidate(addr); if (c < 0) return MUST_NOT;
        int64_t d = now_ms - h[c].t_last_ms;
        if (d < 0) return EITHER;            // clock stepped backwards (robustness configuration only)
        if (d <= 2000) return MUST; if (d >= 3000) return MUST_NOT; return EITHER;
    }
    Model recorded(const std::string &addr, V o, V n, int64_t now_ms, bool merge) const {
        Model m = *this; m.h.resize(m.pos);                                  // recording after an undo discards the undone tail
        int c = m.candidate(addr);
        if (merge && c >= 0) { m.h[c].newv = n; m.h[c].t_last_ms = now_ms; }    // first old value, last new value
        else { m.h.push_back({addr, o, n, now_ms}); m.pos++; if (m.h.size() > cap) { m.h.erase(m.h.begin()); m.pos--; } }
        return m;
    }
    std::vector<Emit> seek(int k) {
        std::vector<Emit> out; long dest = (long)pos + k; if (dest < 0) dest = 0; if (dest > (long)h.size()) dest = (long)h.size();
        while ((long)pos > dest) { pos--; out.push_back({h[pos].addr, h[pos].oldv}); }   // newest first, old values
        while ((long)pos < dest) { out.push_back({h[pos].addr, h[pos].newv}); pos++; }   // oldest first, new values
        return out;
    }
    bool same(const Model &o) const {
        if (pos != o.pos || h.size() != o.h.size()) return false;
        for (size_t i = 0; i < h.size(); i++) if (h[i].addr != o.h[i].addr || !(h[i].oldv == o.h[i].oldv) || !(h[i].newv == o.h[i].newv)) return false;
        return true;
    }
};

} // namespace undo_model
