// AppNode — a real object + its real macro-generated port tree + a reference model + a recorder.
// The model is written from the text of property C14, with declared ranges repeated by hand
// (not read from the port metadata), so that it is independent of the macros under test.
#pragma once
#include <rtosc/ports.h>
#include <rtosc/port-sugar.h>
#include <rtosc/rtosc.h>
#include <string>
#include <vector>
#include <cstring>
#include <cmath>
#include <climits>
#include <cfloat>
#include <functional>

namespace app {

enum Opt4 { O_ALPHA = 0, O_BETA, O_GAMMA, O_DELTA };

struct Sub {
    int si; float sf; bool st; char sc; float saf[2];
    Sub() { memset(this, 0, sizeof *this); }
    static const rtosc::Ports ports;
};
struct Sub2 { int a_rather_long_parameter_name; int x; Sub2() : a_rather_long_parameter_name(0), x(0) {} static const rtosc::Ports ports; };
struct Deep { int a_parameter_with_a_name_that_is_just_as_unreasonably_long_as_its_parent_s; Deep() : a_parameter_with_a_name_that_is_just_as_unreasonably_long_as_its_parent_s(0) {} static const rtosc::Ports ports; };
struct Odd { int pi_min, pi_max; float pf_min, pf_max; int ai_min[3]; float af_max[3]; int po_max; int po_pre; int ao_pre[3]; float volume; int vol; char pc_r, pc_r2; short ps16; signed char pc200; short as16[3]; int cut_i, pi_big, pi_imax, pi_narrow; Deep a_sub_tree_with_a_name_that_is_much_longer_than_anyone_would_type_by_hand_0123456789; Odd() { memset((void *)this, 0, sizeof *this); pc_r2 = 1; cut_i = 20; pi_narrow = 2000000000; } static const rtosc::Ports ports; };
// a table put together from two tables with rtosc::MergePorts (the later table has ports whose names begin earlier ports' names, and one true duplicate)
struct Mrg { float volume; int vol; bool mute; char mu; int dup; static const rtosc::Ports first, second; static const rtosc::MergePorts ports; };
struct App {
    char pc; int pi; int pi_nb; int pi_neg; int pi_frac;
    float pf; float pf_log; float pf_nb; float pf_unit;
    bool pt; int po; int po_b; Opt4 po_e; int po_gap; int po_ooo; int pi7; float af24[24]; bool at12[12]; int ao11[11]; float pf_sp; int pi_sp; int po_sp;
    char ps[16]; char ps4[4];
    float af[4]; int ai[5]; int aw[3]; bool at[3]; int ao[3];
    Odd odd;
    Sub sub; Sub subs[3]; Sub *psub; Sub subs12[12]; Sub2 sub2s[12];
    Sub psub_store;
    Mrg mrg;
    App() { memset((void *)this, 0, sizeof *this); psub = &psub_store; pi_neg = -20; pf_log = 1.0f; odd.pc_r2 = 1; odd.cut_i = 20; odd.pi_narrow = 2000000000; }   // every field starts inside its declared range
    static const rtosc::Ports ports;
};

#define rObject Sub
inline const rtosc::Ports Sub::ports = {
    rParamI(si, rLinear(-5, 5), "sub int"),
    rParamF(sf, rLinear(0, 10), "sub float"),
    rToggle(st, "sub toggle"),
    rParam(sc, "sub char"),
    rArrayF(saf, 2, rLinear(-2, 2), "sub float array"),
};
#undef rObject
#define rObject Deep
inline const rtosc::Ports Deep::ports = {
    rParamI(a_parameter_with_a_name_that_is_just_as_unreasonably_long_as_its_parent_s, rLinear(0, 100), "leaf of an address longer than 128 characters"),
};
#undef rObject
#define rObject Odd
inline const rtosc::Ports Odd::ports = {
    rParamI(cut_i, rLog(20, 20000), "int param with a logarithmic scale"),
    rParamI(pi_big, rLinear(0, 16777219), "int param whose upper bound is no float"),
    rParamI(pi_imax, rLinear(0, 2147483647), "int param up to INT_MAX"),
    rParamI(pi_narrow, rLinear(2000000000, 2000000100), "int param whose range is narrower than a float's resolution there"),
    rRecur(a_sub_tree_with_a_name_that_is_much_longer_than_anyone_would_type_by_hand_0123456789, "sub tree with a very long name"),
    rParamI(pi_min, rMap(min, 0), "int param with a lower bound only"),
    rParamI(pi_max, rMap(max, 10), "int param with an upper bound only"),
    rParamF(pf_min, rMap(min, -0.5), "float param with a lower bound only"),
    rParamF(pf_max, rMap(max, 1.5), "float param with an upper bound only"),
    rArrayI(ai_min, 3, rMap(min, 0), "int array with a lower bound only"),
    rArrayF(af_max, 3, rMap(max, 1.5), "float array with an upper bound only"),
    rOption(po_max, rOptions(alpha, beta, gamma), rMap(max, 2), "option with an upper bound only"),
    rOption(po_pre, rOptions(saw, sawtooth, sq, square, s), "option whose earlier symbols are prefixes of later ones"),
    rArrayOption(ao_pre, 3, rOptions(tri, triangle, t), rLinear(0, 2), "option array with prefix symbols"),
    rParam(pc_r, rLinear(0, 64), "char param that declares a range of its own"),
    rParam(pc_r2, rLinear(1, 100), "char param whose declared range starts above 0"),
    rParamI(ps16, rLinear(0, 40000), "short storage, upper bound beyond what a short holds"),
    rParam(pc200, rLinear(0, 200), "signed char storage, upper bound beyond what it holds"),
    rArrayI(as16, 3, rLinear(-40000, 40000), "short array, bounds beyond what a short holds"),
    rParamF(volume, rLinear(0, 1000), "declared before a port whose name it starts with, other type and range"),
    rParamI(vol, rLinear(0, 100), "a port whose name is the beginning of an earlier sibling's name"),
};
#undef rObject
#define rObject Sub2
inline const rtosc::Ports Sub2::ports = {
    rParamI(a_rather_long_parameter_name, rLinear(-9, 9), "long name, table without enumerations"),
    rParamI(x, rLinear(-9, 9), "short name"),
};
#undef rObject
#define rObject Mrg
inline const rtosc::Ports Mrg::first = {
    rParamF(volume, rLinear(0, 10), "float param of the first table"),
    rToggle(mute, "toggle of the first table"),
    rParamI(dup, rLinear(0, 5), "declared in both tables (the first one counts)"),
};
inline const rtosc::Ports Mrg::second = {
    rParamI(vol, rLinear(0, 100), "int param of the second table whose name begins the first table's volume"),
    rParam(mu, rLinear(0, 64), "char param of the second table whose name begins the first table's mute"),
    rParamI(dup, rLinear(0, 5), "declared in both tables"),
};
inline const rtosc::MergePorts Mrg::ports = {&Mrg::first, &Mrg::second};
#undef rObject
#define rObject App
inline const rtosc::Ports App::ports = {
    rParam(pc, "char param"),
    rParamI(pi, rLinear(-100, 1000), "int param"),
    rParamI(pi_nb, "int param without bounds"),
    rParamI(pi_neg, rLinear(-50, -10), "int param negative range"),
    rParamI(pi_frac, rLinear(-1.5, 2.5), "int param fractional bounds"),
    rParamF(pf, rLinear(-1.5, 2.5), "float param"),
    rParamF(pf_log, rLog(0.01, 100.0), "float param log scale"),
    rParamF(pf_nb, "float param without bounds"),
    rParamF(pf_unit, rLinear(0, 1), "float param unit range"),
    rToggle(pt, "toggle"),
    rOption(po, rOptions(alpha, beta, gamma, delta), "option without bounds"),
    rOption(po_b, rOptions(alpha, beta, gamma, delta), rLinear(0, 3), "option with bounds"),
    rOption(po_e, rOptions(alpha, beta, gamma, delta), rLinear(0, 3), "enum-typed option"),
    rOption(po_gap, rOpt(0, zero) rOpt(1, one) rOpt(4, four) rOpt(9, nine), rLinear(0, 9), "option with gaps in its numbering"),
    rOption(po_ooo, rOpt(2, two) rOpt(0, zero) rOpt(1, one), "option listed out of numeric order"),
    rParamI(pi7, rLinear(0, 127), "int param with the MIDI range"),
    rArrayF(af24, 24, rLinear(-1, 1), "float array with two-digit indices"),
    rArrayT(at12, 12, "toggle array with two-digit indices"),
    rArrayOption(ao11, 11, rOptions(xx, yy, zz), rLinear(0, 2), "option array with two-digit indices"),
    rRecurs(subs12, 12, "sub tree array with two-digit indices"),
    rRecurs(sub2s, 12, "sub trees whose table has no enumeration"),
    rParamF(pf_sp, rSpecial(disabled), rShort("sp"), rCentered, rLinear(-3, 3), "float param whose range follows other metadata"),
    rParamI(pi_sp, rSpecial(random), rLinear(-7, 7), rShort("isp"), "int param whose range follows a valueless-looking entry"),
    rOption(po_sp, rSpecial(none), rOptions(alpha, beta, gamma), rLinear(0, 2), "option whose map follows other metadata"),
    rString(ps, 16, "string"),
    rString(ps4, 4, "short string"),
    rArrayF(af, 4, rLinear(-1, 1), "float array"),
    rArrayI(ai, 5, rLinear(-20, 100), "int array"),
    rArrayI(aw, 3, rLinear(-1000, 1000), "int array with a range wider than a char"),
    rArrayT(at, 3, "toggle array"),
    rArrayOption(ao, 3, rOptions(xx, yy, zz), rLinear(0, 2), "option array"),
    rRecur(odd, "ports with one bound only, option symbols that are prefixes of each other"),
    rRecur(sub, "sub tree"),
    rRecurs(subs, 3, "sub tree array"),
    rRecurp(psub, "sub tree pointer"),
    rRecur(mrg, "table merged from two tables"),
};
#undef rObject

// ------------------------------------------------------------------ values
struct Val {
    char t = 0;        // 'i' int-like, 'f' float, 'T' bool, 's' string
    int i = 0; float f = 0; std::string s;
    bool operator==(const Val &o) const {
        if (t != o.t) return false;
        if (t == 'f') return memcmp(&f, &o.f, 4) == 0;
        if (t == 's') return s == o.s;
        return i == o.i;
    }
    std::string str() const { char b[64]; if (t == 'f') snprintf(b, sizeof b, "%a(%g)", f, f); else if (t == 's') return "\"" + s + "\""; else snprintf(b, sizeof b, "%d", i); return b; }
};

enum Kind { K_PARAM_C, K_PARAM_I, K_PARAM_F, K_TOGGLE, K_OPTION, K_STRING, K_ARR_I };
struct Leaf {
    std::string addr; Kind kind;
    bool has_min, has_max; const char *mn, *mx;       // declared bounds, as written in the declaration
    std::vector<std::string> opts; int slen;
    std::function<Val(App &)> get;
    bool log_scale = false;
    std::vector<int> optidx;                          // index each option symbol denotes (empty: its position)
    long smin = INT_MIN, smax = INT_MAX;              // what the storage type can represent (incoming values outside are not generated: the statement does not cover them)
    char type() const { return kind == K_PARAM_C ? 'c' : kind == K_PARAM_F ? 'f' : kind == K_TOGGLE ? 'T' : kind == K_STRING ? 's' : 'i'; }
    bool numeric_or_option() const { return kind != K_TOGGLE && kind != K_STRING; }
};

inline Val vi(int x) { Val v; v.t = 'i'; v.i = x; return v; }
inline Val vf(float x) { Val v; v.t = 'f'; v.f = x; return v; }
inline Val vb(bool x) { Val v; v.t = 'T'; v.i = x; return v; }
inline Val vs(const char *x) { Val v; v.t = 's'; v.s = x; return v; }

inline void add_sub_leaves(std::vector<Leaf> &L, const std::string &pre, std::function<Sub *(App &)> sel) {
    L.push_back({pre + "si", K_PARAM_I, true, true, "-5", "5", {}, 0, [sel](App &a) { return vi(sel(a)->si); }});
    L.push_back({pre + "sf", K_PARAM_F, true, true, "0", "10", {}, 0, [sel](App &a) { return vf(sel(a)->sf); }});
    L.push_back({pre + "st", K_TOGGLE, false, false, "", "", {}, 0, [sel](App &a) { return vb(sel(a)->st); }});
    L.push_back({pre + "sc", K_PARAM_C, true, true, "0", "127", {}, 0, [sel](App &a) { return vi(sel(a)->sc); }});
    for (int i = 0; i < 2; i++) L.push_back({pre + "saf" + std::to_string(i), K_PARAM_F, true, true, "-2", "2", {}, 0, [sel, i](App &a) { return vf(sel(a)->saf[i]); }});
}

inline const std::vector<Leaf> &leaves() {
    static std::vector<Leaf> L;
    if (!L.empty()) return L;
    std::vector<std::string> o4 = {"alpha", "beta", "gamma", "delta"}, o3 = {"xx", "yy", "zz"};
    L.push_back({"/pc", K_PARAM_C, true, true, "0", "127", {}, 0, [](App &a) { return vi(a.pc); }});
    L.push_back({"/pi", K_PARAM_I, true, true, "-100", "1000", {}, 0, [](App &a) { return vi(a.pi); }});
    L.push_back({"/pi_nb", K_PARAM_I, false, false, "", "", {}, 0, [](App &a) { return vi(a.pi_nb); }});
    L.push_back({"/pi_neg", K_PARAM_I, true, true, "-50", "-10", {}, 0, [](App &a) { return vi(a.pi_neg); }});
    L.push_back({"/pi_frac", K_PARAM_I, true, true, "-1.5", "2.5", {}, 0, [](App &a) { return vi(a.pi_frac); }});
    L.push_back({"/pf", K_PARAM_F, true, true, "-1.5", "2.5", {}, 0, [](App &a) { return vf(a.pf); }});
    { Leaf l{"/pf_log", K_PARAM_F, true, true, "0.01", "100.0", {}, 0, [](App &a) { return vf(a.pf_log); }}; l.log_scale = true; L.push_back(l); }
    L.push_back({"/pf_nb", K_PARAM_F, false, false, "", "", {}, 0, [](App &a) { return vf(a.pf_nb); }});
    L.push_back({"/pf_unit", K_PARAM_F, true, true, "0", "1", {}, 0, [](App &a) { return vf(a.pf_unit); }});
    L.push_back({"/pt", K_TOGGLE, false, false, "", "", {}, 0, [](App &a) { return vb(a.pt); }});
    L.push_back({"/po", K_OPTION, false, false, "", "", o4, 0, [](App &a) { return vi(a.po); }});
    L.push_back({"/po_b", K_OPTION, true, true, "0", "3", o4, 0, [](App &a) { return vi(a.po_b); }});
    L.push_back({"/po_e", K_OPTION, true, true, "0", "3", o4, 0, [](App &a) { return vi((int)a.po_e); }});
    L.push_back({"/ps", K_STRING, false, false, "", "", {}, 16, [](App &a) { return vs(a.ps); }});
    L.push_back({"/ps4", K_STRING, false, false, "", "", {}, 4, [](App &a) { return vs(a.ps4); }});
    for (int i = 0; i < 4; i++) L.push_back({"/af" + std::to_string(i), K_PARAM_F, true, true, "-1", "1", {}, 0, [i](App &a) { return vf(a.af[i]); }});
    for (int i = 0; i < 5; i++) L.push_back({"/ai" + std::to_string(i), K_ARR_I, true, true, "-20", "100", {}, 0, [i](App &a) { return vi(a.ai[i]); }});
    for (int i = 0; i < 3; i++) L.push_back({"/aw" + std::to_string(i), K_ARR_I, true, true, "-1000", "1000", {}, 0, [i](App &a) { return vi(a.aw[i]); }});
    for (int i = 0; i < 3; i++) L.push_back({"/at" + std::to_string(i), K_TOGGLE, false, false, "", "", {}, 0, [i](App &a) { return vb(a.at[i]); }});
    for (int i = 0; i < 3; i++) L.push_back({"/ao" + std::to_string(i), K_OPTION, true, true, "0", "2", o3, 0, [i](App &a) { return vi(a.ao[i]); }});
    add_sub_leaves(L, "/sub/", [](App &a) { return &a.sub; });
    for (int i = 0; i < 3; i++) add_sub_leaves(L, "/subs" + std::to_string(i) + "/", [i](App &a) { return &a.subs[i]; });
    add_sub_leaves(L, "/psub/", [](App &a) { return a.psub; });
    // (appended last so that leaf indices in older replay files keep their meaning)
    { Leaf l{"/po_gap", K_OPTION, true, true, "0", "9", {"zero", "one", "four", "nine"}, 0, [](App &a) { return vi(a.po_gap); }}; l.optidx = {0, 1, 4, 9}; L.push_back(l); }
    { Leaf l{"/po_ooo", K_OPTION, false, false, "", "", {"two", "zero", "one"}, 0, [](App &a) { return vi(a.po_ooo); }}; l.optidx = {2, 0, 1}; L.push_back(l); }
    L.push_back({"/pi7", K_PARAM_I, true, true, "0", "127", {}, 0, [](App &a) { return vi(a.pi7); }});
    for (int i = 0; i < 24; i++) L.push_back({"/af24" + std::to_string(i), K_PARAM_F, true, true, "-1", "1", {}, 0, [i](App &a) { return vf(a.af24[i]); }});
    for (int i = 0; i < 12; i++) L.push_back({"/at12" + std::to_string(i), K_TOGGLE, false, false, "", "", {}, 0, [i](App &a) { return vb(a.at12[i]); }});
    for (int i = 0; i < 11; i++) L.push_back({"/ao11" + std::to_string(i), K_OPTION, true, true, "0", "2", o3, 0, [i](App &a) { return vi(a.ao11[i]); }});
    for (int i = 0; i < 12; i++) add_sub_leaves(L, "/subs12" + std::to_string(i) + "/", [i](App &a) { return &a.subs12[i]; });
    for (int i = 0; i < 12; i++) { L.push_back({"/sub2s" + std::to_string(i) + "/a_rather_long_parameter_name", K_PARAM_I, true, true, "-9", "9", {}, 0, [i](App &a) { return vi(a.sub2s[i].a_rather_long_parameter_name); }});
                                   L.push_back({"/sub2s" + std::to_string(i) + "/x", K_PARAM_I, true, true, "-9", "9", {}, 0, [i](App &a) { return vi(a.sub2s[i].x); }}); }
    L.push_back({"/pf_sp", K_PARAM_F, true, true, "-3", "3", {}, 0, [](App &a) { return vf(a.pf_sp); }});
    L.push_back({"/pi_sp", K_PARAM_I, true, true, "-7", "7", {}, 0, [](App &a) { return vi(a.pi_sp); }});
    L.push_back({"/po_sp", K_OPTION, true, true, "0", "2", {"alpha", "beta", "gamma"}, 0, [](App &a) { return vi(a.po_sp); }});
    L.push_back({"/odd/pi_min", K_PARAM_I, true, false, "0", "", {}, 0, [](App &a) { return vi(a.odd.pi_min); }});
    L.push_back({"/odd/pi_max", K_PARAM_I, false, true, "", "10", {}, 0, [](App &a) { return vi(a.odd.pi_max); }});
    L.push_back({"/odd/pf_min", K_PARAM_F, true, false, "-0.5", "", {}, 0, [](App &a) { return vf(a.odd.pf_min); }});
    L.push_back({"/odd/pf_max", K_PARAM_F, false, true, "", "1.5", {}, 0, [](App &a) { return vf(a.odd.pf_max); }});
    for (int i = 0; i < 3; i++) L.push_back({"/odd/ai_min" + std::to_string(i), K_ARR_I, true, false, "0", "", {}, 0, [i](App &a) { return vi(a.odd.ai_min[i]); }});
    for (int i = 0; i < 3; i++) L.push_back({"/odd/af_max" + std::to_string(i), K_PARAM_F, false, true, "", "1.5", {}, 0, [i](App &a) { return vf(a.odd.af_max[i]); }});
    L.push_back({"/odd/po_max", K_OPTION, false, true, "", "2", {"alpha", "beta", "gamma"}, 0, [](App &a) { return vi(a.odd.po_max); }});
    L.push_back({"/odd/po_pre", K_OPTION, false, false, "", "", {"saw", "sawtooth", "sq", "square", "s"}, 0, [](App &a) { return vi(a.odd.po_pre); }});
    L.push_back({"/odd/pc_r", K_PARAM_C, true, true, "0", "64", {}, 0, [](App &a) { return vi(a.odd.pc_r); }});
    L.push_back({"/odd/pc_r2", K_PARAM_C, true, true, "1", "100", {}, 0, [](App &a) { return vi(a.odd.pc_r2); }});
    { Leaf l{"/odd/cut_i", K_PARAM_I, true, true, "20", "20000", {}, 0, [](App &a) { return vi(a.odd.cut_i); }}; l.log_scale = true; L.push_back(l); }
    L.push_back({"/odd/pi_big", K_PARAM_I, true, true, "0", "16777219", {}, 0, [](App &a) { return vi(a.odd.pi_big); }});
    L.push_back({"/odd/pi_narrow", K_PARAM_I, true, true, "2000000000", "2000000100", {}, 0, [](App &a) { return vi(a.odd.pi_narrow); }});
    L.push_back({"/odd/pi_imax", K_PARAM_I, true, true, "0", "2147483647", {}, 0, [](App &a) { return vi(a.odd.pi_imax); }});
    L.push_back({"/odd/a_sub_tree_with_a_name_that_is_much_longer_than_anyone_would_type_by_hand_0123456789/a_parameter_with_a_name_that_is_just_as_unreasonably_long_as_its_parent_s", K_PARAM_I, true, true, "0", "100", {}, 0, [](App &a) { return vi(a.odd.a_sub_tree_with_a_name_that_is_much_longer_than_anyone_would_type_by_hand_0123456789.a_parameter_with_a_name_that_is_just_as_unreasonably_long_as_its_parent_s); }});
    { Leaf l{"/odd/ps16", K_PARAM_I, true, true, "0", "40000", {}, 0, [](App &a) { return vi(a.odd.ps16); }}; l.smin = SHRT_MIN; l.smax = SHRT_MAX; L.push_back(l); }
    { Leaf l{"/odd/pc200", K_PARAM_C, true, true, "0", "200", {}, 0, [](App &a) { return vi(a.odd.pc200); }}; l.smin = -128; l.smax = 127; L.push_back(l); }
    for (int i = 0; i < 3; i++) { Leaf l{"/odd/as16" + std::to_string(i), K_ARR_I, true, true, "-40000", "40000", {}, 0, [i](App &a) { return vi(a.odd.as16[i]); }}; l.smin = SHRT_MIN; l.smax = SHRT_MAX; L.push_back(l); }
    L.push_back({"/odd/volume", K_PARAM_F, true, true, "0", "1000", {}, 0, [](App &a) { return vf(a.odd.volume); }});
    L.push_back({"/odd/vol", K_PARAM_I, true, true, "0", "100", {}, 0, [](App &a) { return vi(a.odd.vol); }});
    for (int i = 0; i < 3; i++) L.push_back({"/odd/ao_pre" + std::to_string(i), K_OPTION, true, true, "0", "2", {"tri", "triangle", "t"}, 0, [i](App &a) { return vi(a.odd.ao_pre[i]); }});
    L.push_back({"/mrg/volume", K_PARAM_F, true, true, "0", "10", {}, 0, [](App &a) { return vf(a.mrg.volume); }});
    L.push_back({"/mrg/vol", K_PARAM_I, true, true, "0", "100", {}, 0, [](App &a) { return vi(a.mrg.vol); }});
    L.push_back({"/mrg/mute", K_TOGGLE, false, false, "", "", {}, 0, [](App &a) { return vb(a.mrg.mute); }});
    L.push_back({"/mrg/mu", K_PARAM_C, true, true, "0", "64", {}, 0, [](App &a) { return vi(a.mrg.mu); }});
    L.push_back({"/mrg/dup", K_PARAM_I, true, true, "0", "5", {}, 0, [](App &a) { return vi(a.mrg.dup); }});
    return L;
}

// ------------------------------------------------------------------ recorder
struct Out { char chan; std::vector<char> msg; };   // chan: 'r' reply, 'b' broadcast
struct Rec : rtosc::RtData {
    std::vector<Out> out; std::vector<char> locbuf;   // on the heap, exactly loc_size bytes: a write behind it is seen
    Rec() : locbuf(256, 0) { loc = locbuf.data(); loc_size = locbuf.size(); }
    Rec(const Rec &o) : rtosc::RtData(o), out(o.out), locbuf(o.locbuf) { loc = locbuf.data(); loc_size = locbuf.size(); }
    Rec &operator=(const Rec &o) { rtosc::RtData::operator=(o); out = o.out; locbuf = o.locbuf; loc = locbuf.data(); loc_size = locbuf.size(); return *this; }
    using rtosc::RtData::reply; using rtosc::RtData::broadcast;
    void reply(const char *m) override { size_t n = rtosc_message_length(m, 8192); out.push_back({'r', std::vector<char>(m, m + n)}); }
    void broadcast(const char *m) override { size_t n = rtosc_message_length(m, 8192); out.push_back({'b', std::vector<char>(m, m + n)}); }
};

// ------------------------------------------------------------------ the node
struct Incoming { int leaf; bool query; char tag; Val v; std::string sent_addr; bool expect_no_match = false; bool may_refuse = false; };   // may_refuse: the address names the element but is longer than the location buffer: doing nothing at all is accepted, doing it right is accepted   // sent_addr: the address as spelled in the message (e.g. an index with leading zeros); expect_no_match: the address names no element   // tag: wire type tag used for the set ('c','i','f','T','F','S','s')

struct UndoEvent { std::string addr; Val oldv, newv; std::vector<char> raw; };

struct Node {
    App obj; Rec rec; std::vector<Val> model; std::string fail;   // fail: first clause violated ("" = none)
    std::string fail_clause;
    std::vector<UndoEvent> undo_events;                   // events emitted by the last dispatch
    uint64_t dispatches = 0, sets = 0, queries = 0, clamped = 0, changed = 0, undo_seen = 0, refused = 0;
    bool check = true;
    Node() { auto &L = leaves(); for (auto &l : L) model.push_back(l.get(obj)); }

    static size_t build(char *buf, size_t cap, const Leaf &l0, const Incoming &in) {
        struct { std::string addr; } l{in.sent_addr.empty() ? l0.addr : in.sent_addr};
        if (in.query) return rtosc_message(buf, cap, l.addr.c_str(), "");
        switch (in.tag) {
        case 'c': return rtosc_message(buf, cap, l.addr.c_str(), "c", in.v.i);
        case 'i': return rtosc_message(buf, cap, l.addr.c_str(), "i", in.v.i);
        case 'f': return rtosc_message(buf, cap, l.addr.c_str(), "f", in.v.f);
        case 'T': return rtosc_message(buf, cap, l.addr.c_str(), "T");
        case 'F': return rtosc_message(buf, cap, l.addr.c_str(), "F");
        case 'S': return rtosc_message(buf, cap, l.addr.c_str(), "S", in.v.s.c_str());
        default:  return rtosc_message(buf, cap, l.addr.c_str(), "s", in.v.s.c_str());
        }
    }
    // what the property says the stored value must be after `in`
    static Val expected(const Leaf &l, const Incoming &in, bool *was_clamped) {
        Val r; *was_clamped = false;
        switch (l.kind) {
        case K_PARAM_C: { int x = (int)(signed char)in.v.i; int lo = atoi(l.mn), hi = atoi(l.mx); if (x < lo) { x = lo; *was_clamped = true; } if (x > hi) { x = hi; *was_clamped = true; } return vi(x); }
        case K_ARR_I:   /* int storage: every int is representable */
        case K_PARAM_I: { int x = in.v.i; if (l.has_min && x < atoi(l.mn)) { x = atoi(l.mn); *was_clamped = true; } if (l.has_max && x > atoi(l.mx)) { x = atoi(l.mx); *was_clamped = true; } return vi(x); }
        case K_PARAM_F: { float x = in.v.f; if (l.has_min && x < (float)atof(l.mn)) { x = (float)atof(l.mn); *was_clamped = true; } if (l.has_max && x > (float)atof(l.mx)) { x = (float)atof(l.mx); *was_clamped = true; } return vf(x); }
        case K_TOGGLE: return vb(in.tag == 'T');
        case K_OPTION: {
            if (in.tag == 'S') { for (size_t i = 0; i < l.opts.size(); i++) if (l.opts[i] == in.v.s) return vi(l.optidx.empty() ? (int)i : l.optidx[i]); return vi(INT_MIN); }
            int x = in.v.i; if (l.has_min && x < atoi(l.mn)) { x = atoi(l.mn); *was_clamped = true; } if (l.has_max && x > atoi(l.mx)) { x = atoi(l.mx); *was_clamped = true; } return vi(x); }
        case K_STRING: { std::string s = in.v.s.substr(0, l.slen - 1); if (s.size() != in.v.s.size()) *was_clamped = true; return vs(s.c_str()); }
        }
        return r;
    }
    static bool arg_is(const char *m, unsigned idx, const Val &v, char want_type) {
        if (rtosc_narguments(m) <= idx) return false;
        char t = rtosc_type(m, idx); rtosc_arg_t a = rtosc_argument(m, idx);
        if (v.t == 'T') return (t == 'T') == (v.i != 0) && (t == 'T' || t == 'F');
        if (v.t == 's') return (t == 's' || t == 'S') && v.s == a.s;
        if (v.t == 'f') return t == 'f' && memcmp(&a.f, &v.f, 4) == 0;
        (void)want_type; return (t == 'i' || t == 'c') && a.i == v.i;
    }
    void set_fail(const char *clause, const std::string &d) { if (fail.empty()) { fail_clause = clause; fail = d; } }

    // deliver one message (already encoded) to the port tree and compare with the model
    void deliver(const Leaf &l0, int leaf_idx, const Incoming &in, const char *msg) {
        auto &L = leaves();
        if (in.expect_no_match) {   // the address names no element of the array: nothing may happen
            Rec &d = rec; d.out.clear(); d.obj = &obj; d.matches = 0; undo_events.clear(); App::ports.dispatch(msg, d, true); dispatches++;
            if (!check) { for (size_t i = 0; i < L.size(); i++) model[i] = L[i].get(obj); return; }
            char b[300]; for (size_t i = 0; i < L.size(); i++) { Val real = L[i].get(obj); if (!(real == model[i])) { snprintf(b, sizeof b, "%s names no element of its array, yet field %s changed from %s to %s", msg, L[i].addr.c_str(), model[i].str().c_str(), real.str().c_str()); set_fail("OTHER-ELEMENT", b); model[i] = real; } }
            if (!d.out.empty()) { snprintf(b, sizeof b, "%s names no element of its array, yet %zu message(s) were emitted, first to %s", msg, d.out.size(), d.out[0].msg.data()); set_fail("BROADCAST", b); }
            return; }
        Leaf l = l0; if (!in.sent_addr.empty()) l.addr = in.sent_addr;   // replies, broadcasts and undo events carry the address as it was sent
        Rec &d = rec; d.out.clear(); d.obj = &obj; d.matches = 0; undo_events.clear();   // one RtData for the node's lifetime, as applications do
        App::ports.dispatch(msg, d, true);
        if (in.may_refuse && d.out.empty()) { bool untouched = true; for (size_t i = 0; untouched && i < L.size(); i++) untouched = L[i].get(obj) == model[i]; if (untouched) { dispatches++; refused++; return; } }
        dispatches++;
        if (in.query) queries++; else sets++;
        // expected state
        Val before = model[leaf_idx]; bool cl = false;
        Val after = in.query ? before : expected(l, in, &cl);
        if (cl) clamped++;
        model[leaf_idx] = after;
        bool chg = !(before == after);
        if (l.kind == K_PARAM_F && before.f == after.f) chg = false;    // -0.0 vs 0.0 is no change numerically (never generated)
        if (chg) changed++;
        // collect undo events whatever the checking mode (the undo world consumes them)
        for (auto &o : d.out) if (!strcmp(o.msg.data(), "/undo_change")) {
            UndoEvent e; e.raw = o.msg; const char *m = o.msg.data();
            if (rtosc_narguments(m) == 3 && rtosc_type(m, 0) == 's') {
                e.addr = rtosc_argument(m, 0).s; char t = rtosc_type(m, 1); rtosc_arg_t a = rtosc_argument(m, 1), b = rtosc_argument(m, 2);
                if (t == 'f') { e.oldv = vf(a.f); e.newv = vf(b.f); } else { e.oldv = vi(a.i); e.newv = vi(b.i); }
            }
            undo_events.push_back(e); undo_seen++;
        }
        if (!check) { for (size_t i = 0; i < L.size(); i++) model[i] = L[i].get(obj); return; }
        char b[400];
        if (d.matches != 1) { snprintf(b, sizeof b, "%s: dispatch matched %d ports", l.addr.c_str(), d.matches); set_fail("DISPATCH", b); }
        // 1. every field equals the model (clamping, truncation, option translation, only the addressed element touched)
        for (size_t i = 0; i < L.size(); i++) {
            Val real = L[i].get(obj);
            if (!(real == model[i])) {
                snprintf(b, sizeof b, "%s %s%s -> field %s holds %s, the property demands %s", l.addr.c_str(), in.query ? "query" : "set ", in.query ? "" : in.v.str().c_str(), L[i].addr.c_str(), real.str().c_str(), model[i].str().c_str());
                set_fail((int)i == leaf_idx ? "STORED" : "OTHER-ELEMENT", b); model[i] = real; }
        }
        // 2. outputs
        int n_undo = 0, n_reply = 0, n_bcast_new = 0, n_other = 0;
        for (auto &o : d.out) {
            const char *m = o.msg.data();
            if (!strcmp(m, "/undo_change")) { n_undo++; continue; }
            if (l.addr == m) {
                if (o.chan == 'r' && arg_is(m, 0, after, l.type())) n_reply++;
                else if (o.chan == 'b' && (arg_is(m, 0, after, l.type()))) n_bcast_new++;
                else n_other++;
            } else n_other++;
        }
        if (in.query) {
            if (n_reply != 1 || n_other || n_undo || n_bcast_new) { snprintf(b, sizeof b, "query %s: %d correct replies, %d other messages, %d undo events, %d broadcasts (stored %s)", l.addr.c_str(), n_reply, n_other, n_undo, n_bcast_new, after.str().c_str()); set_fail("QUERY", b); }
        } else {
            if (n_other || n_reply) { snprintf(b, sizeof b, "set %s %s: %d unexpected output message(s) (wrong address or not the new value %s)", l.addr.c_str(), in.v.str().c_str(), n_other + n_reply, after.str().c_str()); set_fail("BROADCAST", b); }
            if (chg && n_bcast_new < 1) { snprintf(b, sizeof b, "set %s %s changed the stored value to %s but no broadcast carried the new value", l.addr.c_str(), in.v.str().c_str(), after.str().c_str()); set_fail("BROADCAST", b); }
            if (l.numeric_or_option()) {
                if (n_undo != (chg ? 1 : 0)) { snprintf(b, sizeof b, "set %s %s (stored %s -> %s): %d undo events, expected %d", l.addr.c_str(), in.v.str().c_str(), before.str().c_str(), after.str().c_str(), n_undo, chg ? 1 : 0); set_fail("UNDO-COUNT", b); }
                else if (chg) {
                    const UndoEvent &e = undo_events[0]; const char *m = e.raw.data();
                    bool ok = e.addr == l.addr && arg_is(m, 1, before, l.type()) && arg_is(m, 2, after, l.type());
                    if (!ok) { snprintf(b, sizeof b, "set %s %s: undo event carries (%s, %s, %s), expected (%s, %s, %s)", l.addr.c_str(), in.v.str().c_str(), e.addr.c_str(), e.oldv.str().c_str(), e.newv.str().c_str(), l.addr.c_str(), before.str().c_str(), after.str().c_str()); set_fail("UNDO-VALUE", b); }
                }
            } else if (n_undo) { /* toggles and strings: the statement is silent; accepted */ }
        }
    }
    void size_loc(size_t want) { if (rec.locbuf.size() != want) { rec.locbuf.assign(want, 0); rec.loc = rec.locbuf.data(); rec.loc_size = rec.locbuf.size(); } }
    int tight = -1;   // >= 0: the location buffer holds the address of each message plus this many spare bytes (an address that fits must be dispatched)
    void apply(const Incoming &in) {
        const Leaf &l = leaves()[in.leaf]; char buf[512];
        if (!build(buf, sizeof buf, l, in)) return;
        size_loc((tight >= 0 && !in.may_refuse && in.sent_addr.empty()) ? l.addr.size() + 1 + (size_t)tight : 256);
        deliver(l, in.leaf, in, buf);
    }
    // a message produced by another party (undo history, automation): decode and deliver
    bool apply_raw(const char *msg) {
        auto &L = leaves();
        for (size_t i = 0; i < L.size(); i++) if (L[i].addr == msg) {
            size_loc(tight >= 0 ? L[i].addr.size() + 1 + (size_t)tight : 256);
            Incoming in; in.leaf = (int)i; in.query = rtosc_narguments(msg) == 0 && !*rtosc_argument_string(msg);
            if (!in.query) {
                in.tag = rtosc_type(msg, 0); rtosc_arg_t a = rtosc_argument(msg, 0);
                if (in.tag == 'f') in.v = vf(a.f); else if (in.tag == 'T' || in.tag == 'F') in.v = vb(in.tag == 'T'); else if (in.tag == 's' || in.tag == 'S') in.v = vs(a.s); else in.v = vi(a.i);
                // the port only admits its declared tags; anything else must not be delivered here
                const Leaf &l = L[i]; bool ok = false;
                switch (l.kind) { case K_PARAM_C: ok = in.tag == 'c'; break; case K_PARAM_I: case K_ARR_I: ok = in.tag == 'i'; break; case K_PARAM_F: ok = in.tag == 'f'; break;
                    case K_TOGGLE: ok = in.tag == 'T' || in.tag == 'F'; break; case K_OPTION: ok = in.tag == 'i' || in.tag == 'c' || in.tag == 'S'; break; case K_STRING: ok = in.tag == 's'; break; }
                if (!ok) return false;
                if (l.kind == K_PARAM_C && (in.v.i < -128 || in.v.i > 127)) return false;
                if ((l.kind == K_PARAM_I || l.kind == K_ARR_I || l.kind == K_PARAM_C) && (in.v.i < l.smin || in.v.i > l.smax)) return false;
                if (l.kind == K_PARAM_F && std::isnan(in.v.f)) return false;
            }
            deliver(L[i], (int)i, in, msg);
            return true;
        }
        return false;
    }
};

} // namespace app
