// Applications for the savefile worlds (C12, C13).  The port trees are static C++ because the sugar macros are the
// code under test; the state and the history are generated per run.
// Order of application matters on purpose: the preset port's callback overwrites its dependants, the pointer sub-tree
// exists only after its enabling toggle, sub-trees are pruned from the walk while their enabling toggle is false.
#pragma once
#include <rtosc/ports.h>
#include <rtosc/port-sugar.h>
#include <rtosc/rtosc.h>
#include <string>
#include <vector>
#include <cstring>
#include <functional>

namespace sapp {

struct Val { char t = 'i'; int i = 0; float f = 0; std::string s;
    bool operator==(const Val &o) const { return t == o.t && (t == 'f' ? !memcmp(&f, &o.f, 4) : t == 's' ? s == o.s : i == o.i); }
    std::string str() const { char b[64]; if (t == 'f') snprintf(b, sizeof b, "%a(%g)", f, f); else if (t == 's') return "\"" + s + "\""; else snprintf(b, sizeof b, "%d", i); return b; } };
inline Val vi(int x) { Val v; v.t = 'i'; v.i = x; return v; }
inline Val vf(float x) { Val v; v.t = 'f'; v.f = x; return v; }
inline Val vb(bool x) { Val v; v.t = 'T'; v.i = x; return v; }
inline Val vs(const char *x) { Val v; v.t = 's'; v.s = x; return v; }

// ------------------------------------------------------------------ application 1: flat, every parameter kind
struct Osc { int shape; float detune; bool sync; static const rtosc::Ports ports; Osc() : shape(0), detune(0), sync(false) {} };
struct Fx { int kind; float mix; int taps[3]; static const rtosc::Ports ports; Fx() : kind(1), mix(0.25f) { taps[0] = 1; taps[1] = 2; taps[2] = 3; } };
struct Flat {
    int i_pos, i_neg, i_wide; float f1, f_neg; bool t_off, t_on; int opt; char name[24]; char tag[6];
    int arr[4]; float farr[3]; bool tarr[3]; bool tmix[4]; bool tmix2[3]; char pc; int slot_level[3]; char text[120]; int big[12]; float fbig[8]; int oarr2[3]; int osc1; int kw2; int oarr[3]; int kw; int oarr3[3]; Fx *aux;   // (aux: an optional component this application never creates)
    Flat() : i_pos(10), i_neg(-5), i_wide(0), f1(0.5f), f_neg(-1.25f), t_off(false), t_on(true), opt(1), pc('@') {
        strcpy(name, "init"); strcpy(tag, ""); oarr2[0] = oarr2[1] = oarr2[2] = 0; osc1 = 0; kw2 = 0; int a[4] = {1, 2, 3, 4}; memcpy(arr, a, sizeof a); farr[0] = farr[1] = farr[2] = 0; tarr[0] = tarr[1] = tarr[2] = false; tmix[0] = true; tmix[1] = tmix[2] = tmix[3] = false; tmix2[0] = false; tmix2[1] = tmix2[2] = true; slot_level[0] = slot_level[1] = slot_level[2] = 0; strcpy(text, ""); for (int q = 0; q < 12; q++) big[q] = 0; for (int q = 0; q < 8; q++) fbig[q] = 1.0f; oarr[0] = oarr[1] = oarr[2] = 0; kw = 0; oarr3[0] = oarr3[1] = oarr3[2] = 0; aux = nullptr; }
    static const rtosc::Ports ports;
};
// ------------------------------------------------------------------ application 2: presets, enabled-by, sub-trees
struct Bank { Fx slots[2]; static const rtosc::Ports ports; };
struct Synth {
    int preset, gain; float cutoff; int env[3];
    bool Poscenabled; Osc osc;                 // rRecur + rEnabledBy (sibling toggle)
    Osc voices[12]; bool Pvoices;              // rRecurs (two-digit indices)
    bool Pfx; Fx *fx;                          // rRecurp: the object exists only while Pfx is true
    int mode; int depth;                       // depth declares rDepends(mode)
    int preset0, preset1, preset2;             // ports named like the selector followed by one of its values
    int env_mode;                              // declared before the array 'env', whose name it starts with
    bool osc2_on; Osc *osc2;                   // toggle named like its sub-tree, default depends on the preset, object exists only while on
    bool Pbank; Bank *bank;                    // rRecurp over rRecurs: "/bank/slots1/kind" depends on "/Pbank" two levels up
    Synth() : preset(0), gain(30), cutoff(0.5f), Poscenabled(false), Pvoices(true), Pfx(false), fx(nullptr), mode(0), depth(7), preset0(4), preset1(5), preset2(6), env_mode(0), osc2_on(false), osc2(nullptr), Pbank(false), bank(nullptr) { apply_preset(); }
    ~Synth() { delete fx; delete bank; delete osc2; }
    void set_osc2(bool on) { if (on && !osc2) osc2 = new Osc; if (!on && osc2) { delete osc2; osc2 = nullptr; } osc2_on = on; }
    Synth(const Synth &) = delete;
    void apply_preset() { static const int g[3] = {30, 127, 64}; static const float c[3] = {0.5f, 0.9f, 0.125f}; static const int e[3][3] = {{0, 0, 0}, {10, 20, 30}, {5, 5, 5}};
        int p = preset < 0 ? 0 : preset > 2 ? 2 : preset; gain = g[p]; cutoff = c[p]; memcpy(env, e[p], sizeof env); set_osc2(p == 1); }
    static const rtosc::Ports ports;
};


// ------------------------------------------------------------------ application 3: a zoo of dependencies under an enumerated sub-tree
// Every provider's callback resets its dependants to their defaults, so that applying a provider after a dependant is observable.
struct Unit {
    int bank, kind, gain, width, mix; bool enabled; int unison, type, detune; int lfo_shape, lfo_rate, lfo_depth; int s, attack; int premix; int mixdown;
    static int kind_default(int bank) { static const int t[3] = {1, 2, 3}; return t[bank < 0 ? 0 : bank > 2 ? 2 : bank]; }
    static int mix_default(int kind) { static const int t[4] = {10, 20, 30, 40}; return t[kind < 0 ? 0 : kind > 3 ? 3 : kind]; }
    static int attack_default(int s) { static const int t[3] = {10, 33, 44}; return t[s < 0 ? 0 : s > 2 ? 2 : s]; }
    static int detune_default(int type) { static const int t[3] = {0, 7, 12}; return t[type < 0 ? 0 : type > 2 ? 2 : type]; }
    void reset_lfo() { lfo_rate = 5; lfo_depth = 6; }
    void set_bank(int v) { bank = v < 0 ? 0 : v > 2 ? 2 : v; set_kind(kind_default(bank)); lfo_shape = 0; reset_lfo(); }
    void set_kind(int v) { kind = v < 0 ? 0 : v > 3 ? 3 : v; mix = mix_default(kind); }
    void set_enabled(bool e) { enabled = e; unison = 1; detune = detune_default(type); }
    Unit() : bank(0), gain(50), width(50), enabled(false), unison(1), type(0), lfo_shape(0), s(0), attack(10), premix(0), mixdown(0) { set_bank(0); detune = detune_default(0); }
    static const rtosc::Ports ports;
};
// a three-level tree whose levels each have an "enabled" toggle (same name on purpose), a directory with a declared
// dependency, and a component enabled from inside through rSelf(..., rEnabledBy(enabled)) (doc/Guide.adoc, "enable self by port")
struct Filter { int cutoff; Filter() : cutoff(64) {} static const rtosc::Ports ports; };
struct Comp { int x; bool enabled; Comp() : x(0), enabled(false) {} static const rtosc::Ports ports; };
struct Comp2 { int gain; bool on; Comp2() : gain(0), on(true) {} static const rtosc::Ports ports; };   // enabled from inside by a two-letter toggle that is on by default (so its line is usually absent)
struct Lane { bool on; int amp; Filter flt; Lane() : on(false), amp(5) {} static const rtosc::Ports ports; };   // top-level directory enabled from inside by a two-letter toggle, plain macro ports
struct Eq { int alpha, beta, gamma, filter_cutoff; Eq() : alpha(0), beta(0), gamma(0), filter_cutoff(64) {} static const rtosc::Ports ports; };   // a table without enumerations: looked up by its perfect hash
struct Voice { bool enabled; int mode, detune; Filter filter; Comp comp; Comp2 comp2; Voice() : enabled(false), mode(0), detune(0) {} static const rtosc::Ports ports; };
struct Deps { Unit units[2]; int master; bool enabled; Voice voice; Lane lane; Eq eq; Deps() : master(100), enabled(false) {} static const rtosc::Ports ports; };

#define rObject Osc
inline const rtosc::Ports Osc::ports = {
    rOption(shape, rOptions(sine, saw, square, noise), rLinear(0, 3), rDefault(sine), "waveform"),
    rParamF(detune, rLinear(-12, 12), rDefault(0.0), "detune"),
    rToggle(sync, rDefault(false), "hard sync"),
};
#undef rObject
#define rObject Fx
inline const rtosc::Ports Fx::ports = {
    rParamI(kind, rLinear(0, 9), rDefault(1), "effect kind"),
    rParamF(mix, rLinear(0, 1), rDefault(0.25), "dry/wet"),
    rArrayI(taps, 3, rLinear(0, 100), rDefault([1 2 3]), "delay taps"),
};
#undef rObject
#define rObject Bank
inline const rtosc::Ports Bank::ports = { rRecurs(slots, 2, "effect slots") };
#undef rObject
#define rObject Flat
inline const rtosc::Ports Flat::ports = {
    rParamI(i_pos, rLinear(0, 100), rDefault(10), "positive int"),
    rParamI(i_neg, rLinear(-100, 100), rDefault(-5), "int with negative default"),
    rParamI(i_wide, rDefault(0), "unbounded int"),
    rParamF(f1, rLinear(-2, 2), rDefault(0.5), "float"),
    rParamF(f_neg, rLinear(-10, 10), rDefault(-1.25), "float with negative default"),
    rToggle(t_off, rDefault(false), "toggle, default off"),
    rToggle(t_on, rDefault(true), "toggle, default on"),
    rOption(opt, rOptions(sine, saw, square), rLinear(0, 2), rDefault(saw), "option"),
    rString(name, 24, rDefault("init"), "string"),
    rString(tag, 6, rDefault(""), "short string"),
    rArrayI(arr, 4, rLinear(-50, 50), rDefault([1 2 3 4]), "int array"),
    rArrayF(farr, 3, rLinear(-1, 1), rDefault([3x0.0]), "float array"),
    rArrayT(tarr, 3, rDefault([false false false]), "toggle array"),
    rArrayT(tmix, 4, rDefault([true false false false]), "toggle array whose default starts true and ends false"),
    rArrayT(tmix2, 3, rDefault([false true true]), "toggle array whose default starts false and ends true"),
    rParam(pc, rDefault('@'), "char parameter"),
    rOption(kw, rOptions(plain, inf_loop, true_bypass, nil_x, false_start, now_playing, immediately_2, MIDI_in), rLinear(0, 7), rDefault(plain), "option whose symbols start with words of the text format"),
    rString(text, 120, rDefault(""), "long string (the printer breaks it over several lines)"),
    rArrayI(big, 12, rLinear(-1000, 1000), rDefault([12x0]), "long int array (runs and arithmetic sequences are printed as ranges)"),
    rArrayF(fbig, 8, rLinear(-4, 4), rDefault([8x1.0]), "long float array"),
    rArrayOption(oarr, 3, rOptions(lo, mid, hi), rLinear(0, 2), rDefault([lo lo lo]), "option array"),
    rArrayOption(oarr2, 3, rOptionsBound(lp, hp, bp), rDefault([lp lp lp]), "option array whose declared range (0..3) has one value without a symbol"),
    rOption(osc1, rOptionsBound(lp, hp, bp), rDefault(lp), "scalar option with the same range"),
    rOption(kw2, rOptions(later, now, immediately, inf, nil, MIDI, BLOB, true, false), rLinear(0, 8), rDefault(later), "option whose symbols are words of the text format"),
    rArrayOption(oarr3, 3, rOptions(saw, nil, square, now), rLinear(0, 3), rDefault([saw saw saw]), "option array one of whose symbols is a word of the text format (the array is then saved by number, all elements alike)"),
    rRecurp(aux, "pointer sub-tree without an enabling toggle; the pointer is null, so nothing below it exists"),
    {"slot#3/level::i", rProp(parameter) rMap(min, 0) rMap(max, 100) rDefault([3x0]) rDoc("enumeration in the middle of a leaf name"), NULL,
        [](const char *m, rtosc::RtData &d) { Flat *o = (Flat *)d.obj; const char *mm = m; while (*mm && !isdigit(*mm)) ++mm; unsigned idx = atoi(mm); if (idx >= 3) return;
            if (*rtosc_argument_string(m)) { int v = rtosc_argument(m, 0).i; o->slot_level[idx] = v < 0 ? 0 : v > 100 ? 100 : v; d.broadcast(d.loc, "i", o->slot_level[idx]); } else d.reply(d.loc, "i", o->slot_level[idx]); }},
};
#undef rObject
#define rObject Synth
inline const rtosc::Ports Synth::ports = {
    {"preset::i", rProp(parameter) rMap(min, 0) rMap(max, 2) rDefault(0) rDoc("preset selector: overwrites its dependants"), NULL,
        [](const char *m, rtosc::RtData &d) { Synth *o = (Synth *)d.obj; if (*rtosc_argument_string(m)) { int v = rtosc_argument(m, 0).i; if (v < 0) v = 0; if (v > 2) v = 2; o->preset = v; o->apply_preset(); d.broadcast(d.loc, "i", o->preset); } else d.reply(d.loc, "i", o->preset); }},
    rParamI(gain, rLinear(0, 127), rDefaultDepends(preset), rPresets(30, 127, 64), "gain (preset dependent default)"),
    rParamF(cutoff, rLinear(0, 1), rDefaultDepends(preset), rPresets(0.5, 0.9, 0.125), "cutoff (preset dependent default)"),
    rParamI(env_mode, rLinear(0, 3), rDefault(0), "declared before the array whose name it starts with"),
    rArrayI(env, 3, rLinear(0, 100), rDefaultDepends(preset), rPreset(0, [3x0]), rPreset(1, [10 20 30]), rPreset(2, [3x5]), "envelope (preset dependent default)"),
    rToggle(Poscenabled, rDefault(false), "enables osc/"),
    rRecur(osc, rEnabledBy(Poscenabled), "oscillator, pruned while disabled"),
    rToggle(Pvoices, rDefault(true), "enables voices#3/"),
    rRecurs(voices, 12, rEnabledBy(Pvoices), "voices"),
    {"Pfx::T:F", rProp(parameter) rDefault(false) rDoc("creates / destroys the effect object"), NULL,
        [](const char *m, rtosc::RtData &d) { Synth *o = (Synth *)d.obj; const char *a = rtosc_argument_string(m); if (*a) { bool on = *a == 'T'; if (on && !o->fx) o->fx = new Fx; if (!on && o->fx) { delete o->fx; o->fx = nullptr; } o->Pfx = on; d.broadcast(d.loc, on ? "T" : "F"); } else d.reply(d.loc, o->Pfx ? "T" : "F"); }},
    rRecurp(fx, rEnabledBy(Pfx), "effect, exists only while Pfx"),
    {"mode::i", rProp(parameter) rMap(min, 0) rMap(max, 3) rDefault(0) rDoc("mode: changing it resets depth"), NULL,
        [](const char *m, rtosc::RtData &d) { Synth *o = (Synth *)d.obj; if (*rtosc_argument_string(m)) { int v = rtosc_argument(m, 0).i; if (v < 0) v = 0; if (v > 3) v = 3; if (v != o->mode) { o->mode = v; o->depth = 7; } d.broadcast(d.loc, "i", o->mode); } else d.reply(d.loc, "i", o->mode); }},
    rParamI(depth, rLinear(0, 20), rDepends(mode), rDefault(7), "depth (reset by mode)"),
    rParamI(preset0, rLinear(0, 9), rDefault(4), "named like the selector followed by its value 0"),
    rParamI(preset1, rLinear(0, 9), rDefault(5), "named like the selector followed by its value 1"),
    rParamI(preset2, rLinear(0, 9), rDefault(6), "named like the selector followed by its value 2"),
    {"osc2_on::T:F", rProp(parameter) rDefaultDepends(preset) rPreset(0, false) rPreset(1, true) rPreset(2, false) rDoc("second oscillator switch: preset dependent default; creates / destroys the object"), NULL,
        [](const char *m, rtosc::RtData &d) { Synth *o = (Synth *)d.obj; const char *a = rtosc_argument_string(m); if (*a) { o->set_osc2(*a == 'T'); d.broadcast(d.loc, o->osc2_on ? "T" : "F"); } else d.reply(d.loc, o->osc2_on ? "T" : "F"); }},
    rRecurp(osc2, rEnabledBy(osc2_on), "second oscillator, exists only while osc2_on"),
    {"Pbank::T:F", rProp(parameter) rDefault(false) rDoc("creates / destroys the bank object"), NULL,
        [](const char *m, rtosc::RtData &d) { Synth *o = (Synth *)d.obj; const char *a = rtosc_argument_string(m); if (*a) { bool on = *a == 'T'; if (on && !o->bank) o->bank = new Bank; if (!on && o->bank) { delete o->bank; o->bank = nullptr; } o->Pbank = on; d.broadcast(d.loc, on ? "T" : "F"); } else d.reply(d.loc, o->Pbank ? "T" : "F"); }},
    rRecurp(bank, rEnabledBy(Pbank), "bank of effect slots, exists only while Pbank"),
};
#undef rObject


#define UCB(body) [](const char *m, rtosc::RtData &d) { Unit *o = (Unit *)d.obj; bool set = *rtosc_argument_string(m) != 0; int v = set ? rtosc_argument(m, 0).i : 0; (void)v; body }
#define UINT(field, onset) UCB(if (set) { onset; d.broadcast(d.loc, "i", o->field); } else d.reply(d.loc, "i", o->field);)
inline const rtosc::Ports Unit::ports = {
    // dependants are declared (and therefore saved) BEFORE the ports they depend on: loading must reorder
    {"premix::i", rProp(parameter) rMap(min, 0) rMap(max, 9) rDefault(0) rDoc("a sibling whose name contains the name of another port (mix) and is declared before it"), NULL, UINT(premix, o->premix = v < 0 ? 0 : v > 9 ? 9 : v)},
    {"mixdown::i", rProp(parameter) rMap(min, 0) rMap(max, 9) rDefault(0) rDoc("a sibling whose name starts with the name of another port (mix) and is declared before it"), NULL, UINT(mixdown, o->mixdown = v < 0 ? 0 : v > 9 ? 9 : v)},
    {"attack::i", rProp(parameter) rMap(min, 0) rMap(max, 100) rDefaultDepends(s) rPresets(10, 33, 44) rDoc("attack: default depends on a port with a one-letter name"), NULL, UINT(attack, o->attack = v < 0 ? 0 : v > 100 ? 100 : v)},
    {"s::i", rProp(parameter) rMap(min, 0) rMap(max, 2) rDefault(0) rDoc("one-letter selector: resets attack"), NULL, UINT(s, o->s = v < 0 ? 0 : v > 2 ? 2 : v; o->attack = Unit::attack_default(o->s))},
    {"mix::i", rProp(parameter) rMap(min, 0) rMap(max, 100) rDepends(gain, width) rDefaultDepends(kind) rPresets(10, 20, 30, 40) rDoc("mix: declared dependencies and a preset dependent default"), NULL, UINT(mix, o->mix = v < 0 ? 0 : v > 100 ? 100 : v)},
    {"detune::i", rProp(parameter) rMap(min, 0) rMap(max, 24) rDefaultDepends(type) rDepends(type, unison) rPresets(0, 7, 12) rDoc("detune: reaches 'type' twice and depends on unison"), NULL, UINT(detune, o->detune = v < 0 ? 0 : v > 24 ? 24 : v)},
    {"lfo_rate::i", rProp(parameter) rMap(min, 0) rMap(max, 20) rDepends(lfo_shape) rDefault(5) rDoc("lfo rate"), NULL, UINT(lfo_rate, o->lfo_rate = v < 0 ? 0 : v > 20 ? 20 : v)},
    {"lfo_depth::i", rProp(parameter) rMap(min, 0) rMap(max, 20) rDepends(lfo_shape) rDefault(6) rDoc("lfo depth"), NULL, UINT(lfo_depth, o->lfo_depth = v < 0 ? 0 : v > 20 ? 20 : v)},
    {"kind::i", rProp(parameter) rMap(min, 0) rMap(max, 3) rDefaultDepends(bank) rPresets(1, 2, 3) rDoc("kind: default depends on bank; resets mix"), NULL, UINT(kind, o->set_kind(v))},
    {"lfo_shape::i", rProp(parameter) rMap(min, 0) rMap(max, 3) rDepends(bank) rDefault(0) rDoc("lfo shape: depends on bank; resets rate and depth"), NULL, UINT(lfo_shape, o->lfo_shape = v < 0 ? 0 : v > 3 ? 3 : v; o->reset_lfo())},
    {"unison::i", rProp(parameter) rMap(min, 1) rMap(max, 8) rEnabledBy(enabled) rDefault(1) rDoc("unison: enabled by a toggle; resets detune"), NULL, UINT(unison, o->unison = v < 1 ? 1 : v > 8 ? 8 : v; o->detune = Unit::detune_default(o->type))},
    {"gain::i", rProp(parameter) rMap(min, 0) rMap(max, 100) rDefault(50) rDoc("gain: resets mix"), NULL, UINT(gain, o->gain = v < 0 ? 0 : v > 100 ? 100 : v; o->mix = Unit::mix_default(o->kind))},
    {"width::i", rProp(parameter) rMap(min, 0) rMap(max, 100) rDefault(50) rDoc("width: resets mix"), NULL, UINT(width, o->width = v < 0 ? 0 : v > 100 ? 100 : v; o->mix = Unit::mix_default(o->kind))},
    {"type::i", rProp(parameter) rMap(min, 0) rMap(max, 2) rDefault(0) rDoc("type: resets detune"), NULL, UINT(type, o->type = v < 0 ? 0 : v > 2 ? 2 : v; o->detune = Unit::detune_default(o->type))},
    {"enabled::T:F", rProp(parameter) rDefault(false) rDoc("enables unison; resets unison and detune"), NULL,
        [](const char *m, rtosc::RtData &d) { Unit *o = (Unit *)d.obj; const char *a = rtosc_argument_string(m); if (*a) { o->set_enabled(*a == 'T'); d.broadcast(d.loc, o->enabled ? "T" : "F"); } else d.reply(d.loc, o->enabled ? "T" : "F"); }},
    {"bank::i", rProp(parameter) rMap(min, 0) rMap(max, 2) rDefault(0) rDoc("bank: resets kind, mix and the lfo"), NULL, UINT(bank, o->set_bank(v))},
};
#undef UINT
#undef UCB
#define OCB(T, body) [](const char *m, rtosc::RtData &d) { T *o = (T *)d.obj; const char *a_ = rtosc_argument_string(m); bool set = *a_ != 0; int v = set && *a_ == 'i' ? rtosc_argument(m, 0).i : 0; bool on = set && *a_ == 'T'; (void)v; (void)on; body }
#define OINT(T, field, onset) OCB(T, if (set) { onset; d.broadcast(d.loc, "i", o->field); } else d.reply(d.loc, "i", o->field);)
#define OTOG(T, field, onset) OCB(T, if (set) { onset; d.broadcast(d.loc, o->field ? "T" : "F"); } else d.reply(d.loc, o->field ? "T" : "F");)
#define CLAMP(v, lo, hi) ((v) < (lo) ? (lo) : (v) > (hi) ? (hi) : (v))
inline const rtosc::Ports Filter::ports = {
    {"cutoff::i", rProp(parameter) rMap(min, 0) rMap(max, 127) rDefault(64) rDoc("cutoff"), NULL, OINT(Filter, cutoff, o->cutoff = CLAMP(v, 0, 127))},
};
#define rObject Comp
inline const rtosc::Ports Comp::ports = {
    rSelf(Comp, rEnabledBy(enabled)),
    {"amount::i", rProp(parameter) rMap(min, 0) rMap(max, 9) rDefault(0) rDoc("parameter of a component that is enabled from inside (sorts before its toggle)"), NULL, OINT(Comp, x, o->x = CLAMP(v, 0, 9))},
    {"enabled::T:F", rProp(parameter) rDefault(false) rDoc("switching the component on gives a fresh component"), NULL, OTOG(Comp, enabled, o->enabled = on; if (on) o->x = 0)},
};
#undef rObject
#define rObject Eq
inline const rtosc::Ports Eq::ports = {
    rParamI(alpha, rLinear(0, 9), rDefault(0), "first port of a hashed table"),
    rParamI(beta, rLinear(0, 9), rDefault(0), "beta"),
    rParamI(gamma, rLinear(0, 9), rDefault(0), "gamma"),
    rParamI(filter_cutoff, rLinear(0, 127), rDefault(64), "filter cutoff"),
};
#undef rObject
#define rObject Lane
inline const rtosc::Ports Lane::ports = {
    rSelf(Lane, rEnabledBy(on)),
#undef rChangeCb
#define rChangeCb if (obj->on) { obj->amp = 5; obj->flt = Filter(); }
    rToggle(on, rDefault(false), "this lane is in use; switching it on gives a fresh lane"),
#undef rChangeCb
#define rChangeCb
    rParamI(amp, rLinear(0, 9), rDefault(5), "amplitude (sorts before its toggle)"),
    rRecur(flt, "a directory below the self-enabled one: its lines are two levels below the enabler's directory"),
};
#undef rObject
#define rObject Comp2
inline const rtosc::Ports Comp2::ports = {
    rSelf(Comp2, rEnabledBy(on)),
    {"gain::i", rProp(parameter) rMap(min, 0) rMap(max, 9) rDefault(0) rDoc("parameter of a component whose enabling toggle is on by default"), NULL, OINT(Comp2, gain, o->gain = CLAMP(v, 0, 9))},
    // the toggle's default depends on a read-only sibling (doc/Guide.adoc, "Default Values": the selector need not be a parameter); neither has a line while at its default
    {"on::T:F", rProp(parameter) rDefaultDepends(idx) rPreset(0, true) rDefault(false) rDoc("switching the component on gives a fresh component"), NULL, OTOG(Comp2, on, o->on = on; if (on) o->gain = 0)},
    {"idx:", rDoc("read-only: which component this is"), NULL, [](const char *, rtosc::RtData &d) { d.reply(d.loc, "i", 0); }},
};
#undef rObject
#define rObject Voice
inline const rtosc::Ports Voice::ports = {
    // dependants first, as in Unit
    {"detune::i", rProp(parameter) rMap(min, 0) rMap(max, 24) rDepends(mode) rDefault(0) rDoc("detune: reset by mode"), NULL, OINT(Voice, detune, o->detune = CLAMP(v, 0, 24))},
    {"enabled::T:F", rProp(parameter) rDepends(mode) rDefault(false) rDoc("enables the filter (fresh when switched on); reset by mode; named like the toggle one level up"), NULL, OTOG(Voice, enabled, o->enabled = on; if (on) o->filter = Filter())},
    {"mode::i", rProp(parameter) rMap(min, 0) rMap(max, 3) rDefault(0) rDoc("mode: resets detune and switches the filter off"), NULL, OINT(Voice, mode, o->mode = CLAMP(v, 0, 3); o->detune = 0; o->enabled = false)},
    rRecur(filter, rEnabledBy(enabled), "filter, enabled by the voice's toggle"),
    rRecur(comp, "component enabled from inside"),
    rRecur(comp2, "component enabled from inside, on by default"),
};
#undef rObject
#define rObject Deps
inline const rtosc::Ports Deps::ports = {
    rRecurs(units, 2, "units"),
    rRecur(voice, rEnabledBy(enabled), rDepends(master), "voice: enabled by the root toggle, declared to depend on master"),
    rRecur(lane, "lane: enabled from inside"),
    rRecur(eq, "a hashed table"),
    {"master::i", rProp(parameter) rMap(min, 0) rMap(max, 200) rDefault(100) rDoc("master: resets the voice's detune"), NULL, OINT(Deps, master, o->master = CLAMP(v, 0, 200); o->voice.detune = 0)},
    {"enabled::T:F", rProp(parameter) rDefault(false) rDoc("enables the voice (fresh when switched on)"), NULL, OTOG(Deps, enabled, o->enabled = on; if (on) o->voice = Voice())},
};
#undef rObject

// ------------------------------------------------------------------ description of the parameters (for the oracle)
struct Param {
    std::string addr;            // address of the savefile line ("/arr" for a whole array)
    int elems;                   // 1, or the number of array elements
    char type;                   // i f T s c o(option)
    std::function<Val(void *, int)> get;
    std::function<Val(void *, int)> dflt;            // default of element k in the current state (preset dependent where declared)
    std::function<bool(void *)> reachable;           // walked at save time?
    double lo, hi; int slen; std::vector<std::string> opts;
};

inline void osc_params(std::vector<Param> &P, const std::string &pre, std::function<Osc *(void *)> sel, std::function<bool(void *)> reach) {
    P.push_back({pre + "shape", 1, 'o', [sel](void *o, int) { return vi(sel(o)->shape); }, [](void *, int) { return vi(0); }, reach, 0, 3, 0, {"sine", "saw", "square", "noise"}});
    P.push_back({pre + "detune", 1, 'f', [sel](void *o, int) { return vf(sel(o)->detune); }, [](void *, int) { return vf(0.0f); }, reach, -12, 12, 0, {}});
    P.push_back({pre + "sync", 1, 'T', [sel](void *o, int) { return vb(sel(o)->sync); }, [](void *, int) { return vb(false); }, reach, 0, 1, 0, {}});
}
inline const std::vector<Param> &flat_params() {
    static std::vector<Param> P; if (!P.empty()) return P; auto yes = [](void *) { return true; };
#define F(o) ((Flat *)o)
    P.push_back({"/i_pos", 1, 'i', [](void *o, int) { return vi(F(o)->i_pos); }, [](void *, int) { return vi(10); }, yes, 0, 100, 0, {}});
    P.push_back({"/i_neg", 1, 'i', [](void *o, int) { return vi(F(o)->i_neg); }, [](void *, int) { return vi(-5); }, yes, -100, 100, 0, {}});
    P.push_back({"/i_wide", 1, 'i', [](void *o, int) { return vi(F(o)->i_wide); }, [](void *, int) { return vi(0); }, yes, -2147483648.0, 2147483647.0, 0, {}});
    P.push_back({"/f1", 1, 'f', [](void *o, int) { return vf(F(o)->f1); }, [](void *, int) { return vf(0.5f); }, yes, -2, 2, 0, {}});
    P.push_back({"/f_neg", 1, 'f', [](void *o, int) { return vf(F(o)->f_neg); }, [](void *, int) { return vf(-1.25f); }, yes, -10, 10, 0, {}});
    P.push_back({"/t_off", 1, 'T', [](void *o, int) { return vb(F(o)->t_off); }, [](void *, int) { return vb(false); }, yes, 0, 1, 0, {}});
    P.push_back({"/t_on", 1, 'T', [](void *o, int) { return vb(F(o)->t_on); }, [](void *, int) { return vb(true); }, yes, 0, 1, 0, {}});
    P.push_back({"/opt", 1, 'o', [](void *o, int) { return vi(F(o)->opt); }, [](void *, int) { return vi(1); }, yes, 0, 2, 0, {"sine", "saw", "square"}});
    P.push_back({"/name", 1, 's', [](void *o, int) { return vs(F(o)->name); }, [](void *, int) { return vs("init"); }, yes, 0, 0, 24, {}});
    P.push_back({"/tag", 1, 's', [](void *o, int) { return vs(F(o)->tag); }, [](void *, int) { return vs(""); }, yes, 0, 0, 6, {}});
    P.push_back({"/arr", 4, 'i', [](void *o, int k) { return vi(F(o)->arr[k]); }, [](void *, int k) { return vi(k + 1); }, yes, -50, 50, 0, {}});
    P.push_back({"/farr", 3, 'f', [](void *o, int k) { return vf(F(o)->farr[k]); }, [](void *, int) { return vf(0.0f); }, yes, -1, 1, 0, {}});
    P.push_back({"/tarr", 3, 'T', [](void *o, int k) { return vb(F(o)->tarr[k]); }, [](void *, int) { return vb(false); }, yes, 0, 1, 0, {}});
    P.push_back({"/pc", 1, 'c', [](void *o, int) { return vi(F(o)->pc); }, [](void *, int) { return vi('@'); }, yes, 0, 127, 0, {}});
    P.push_back({"/kw", 1, 'o', [](void *o, int) { return vi(F(o)->kw); }, [](void *, int) { return vi(0); }, yes, 0, 7, 0, {"plain", "inf_loop", "true_bypass", "nil_x", "false_start", "now_playing", "immediately_2", "MIDI_in"}});
    P.push_back({"/text", 1, 's', [](void *o, int) { return vs(F(o)->text); }, [](void *, int) { return vs(""); }, yes, 0, 0, 120, {}});
    P.push_back({"/big", 12, 'i', [](void *o, int k) { return vi(F(o)->big[k]); }, [](void *, int) { return vi(0); }, yes, -1000, 1000, 0, {}});
    P.push_back({"/fbig", 8, 'f', [](void *o, int k) { return vf(F(o)->fbig[k]); }, [](void *, int) { return vf(1.0f); }, yes, -4, 4, 0, {}});
    P.push_back({"/oarr", 3, 'o', [](void *o, int k) { return vi(F(o)->oarr[k]); }, [](void *, int) { return vi(0); }, yes, 0, 2, 0, {"lo", "mid", "hi"}});
    for (int q = 0; q < 3; q++) P.push_back({"/slot" + std::to_string(q) + "/level", 1, 'i', [q](void *o, int) { return vi(F(o)->slot_level[q]); }, [](void *, int) { return vi(0); }, yes, 0, 100, 0, {}});
    P.push_back({"/tmix", 4, 'T', [](void *o, int k) { return vb(F(o)->tmix[k]); }, [](void *, int k) { return vb(k == 0); }, yes, 0, 1, 0, {}});
    P.push_back({"/tmix2", 3, 'T', [](void *o, int k) { return vb(F(o)->tmix2[k]); }, [](void *, int k) { return vb(k != 0); }, yes, 0, 1, 0, {}});
    P.push_back({"/oarr2", 3, 'o', [](void *o, int k) { return vi(F(o)->oarr2[k]); }, [](void *, int) { return vi(0); }, yes, 0, 3, 0, {"lp", "hp", "bp"}});
    P.push_back({"/osc1", 1, 'o', [](void *o, int) { return vi(F(o)->osc1); }, [](void *, int) { return vi(0); }, yes, 0, 3, 0, {"lp", "hp", "bp"}});
    P.push_back({"/kw2", 1, 'o', [](void *o, int) { return vi(F(o)->kw2); }, [](void *, int) { return vi(0); }, yes, 0, 8, 0, {"later", "now", "immediately", "inf", "nil", "MIDI", "BLOB", "true", "false"}});
    P.push_back({"/oarr3", 3, 'o', [](void *o, int k) { return vi(F(o)->oarr3[k]); }, [](void *, int) { return vi(0); }, yes, 0, 3, 0, {"saw", "nil", "square", "now"}});
#undef F
    return P;
}
inline const std::vector<Param> &synth_params() {
    static std::vector<Param> P; if (!P.empty()) return P; auto yes = [](void *) { return true; };
#define S(o) ((Synth *)o)
    static const int g[3] = {30, 127, 64}; static const float c[3] = {0.5f, 0.9f, 0.125f}; static const int e[3][3] = {{0, 0, 0}, {10, 20, 30}, {5, 5, 5}};
    P.push_back({"/preset", 1, 'i', [](void *o, int) { return vi(S(o)->preset); }, [](void *, int) { return vi(0); }, yes, 0, 2, 0, {}});
    P.push_back({"/gain", 1, 'i', [](void *o, int) { return vi(S(o)->gain); }, [](void *o, int) { return vi(g[S(o)->preset]); }, yes, 0, 127, 0, {}});
    P.push_back({"/cutoff", 1, 'f', [](void *o, int) { return vf(S(o)->cutoff); }, [](void *o, int) { return vf(c[S(o)->preset]); }, yes, 0, 1, 0, {}});
    P.push_back({"/env", 3, 'i', [](void *o, int k) { return vi(S(o)->env[k]); }, [](void *o, int k) { return vi(e[S(o)->preset][k]); }, yes, 0, 100, 0, {}});
    P.push_back({"/Poscenabled", 1, 'T', [](void *o, int) { return vb(S(o)->Poscenabled); }, [](void *, int) { return vb(false); }, yes, 0, 1, 0, {}});
    osc_params(P, "/osc/", [](void *o) { return &S(o)->osc; }, [](void *o) { return S(o)->Poscenabled; });
    P.push_back({"/Pvoices", 1, 'T', [](void *o, int) { return vb(S(o)->Pvoices); }, [](void *, int) { return vb(true); }, yes, 0, 1, 0, {}});
    for (int i = 0; i < 12; i++) osc_params(P, "/voices" + std::to_string(i) + "/", [i](void *o) { return &S(o)->voices[i]; }, [](void *o) { return S(o)->Pvoices; });
    P.push_back({"/Pfx", 1, 'T', [](void *o, int) { return vb(S(o)->Pfx); }, [](void *, int) { return vb(false); }, yes, 0, 1, 0, {}});
    auto fxr = [](void *o) { return S(o)->Pfx && S(o)->fx; };
    P.push_back({"/fx/kind", 1, 'i', [](void *o, int) { return vi(S(o)->fx ? S(o)->fx->kind : 1); }, [](void *, int) { return vi(1); }, fxr, 0, 9, 0, {}});
    P.push_back({"/fx/mix", 1, 'f', [](void *o, int) { return vf(S(o)->fx ? S(o)->fx->mix : 0.25f); }, [](void *, int) { return vf(0.25f); }, fxr, 0, 1, 0, {}});
    P.push_back({"/fx/taps", 3, 'i', [](void *o, int k) { return vi(S(o)->fx ? S(o)->fx->taps[k] : k + 1); }, [](void *, int k) { return vi(k + 1); }, fxr, 0, 100, 0, {}});
    P.push_back({"/osc2_on", 1, 'T', [](void *o, int) { return vb(S(o)->osc2_on); }, [](void *o, int) { return vb(S(o)->preset == 1); }, yes, 0, 1, 0, {}});
    osc_params(P, "/osc2/", [](void *o) { static Osc dflt; return S(o)->osc2 ? S(o)->osc2 : &dflt; }, [](void *o) { return S(o)->osc2_on && S(o)->osc2; });
    P.push_back({"/Pbank", 1, 'T', [](void *o, int) { return vb(S(o)->Pbank); }, [](void *, int) { return vb(false); }, yes, 0, 1, 0, {}});
    { auto br = [](void *o) { return S(o)->Pbank && S(o)->bank; };
      for (int q = 0; q < 2; q++) { std::string pre = "/bank/slots" + std::to_string(q) + "/";
        P.push_back({pre + "kind", 1, 'i', [q](void *o, int) { return vi(S(o)->bank ? S(o)->bank->slots[q].kind : 1); }, [](void *, int) { return vi(1); }, br, 0, 9, 0, {}});
        P.push_back({pre + "mix", 1, 'f', [q](void *o, int) { return vf(S(o)->bank ? S(o)->bank->slots[q].mix : 0.25f); }, [](void *, int) { return vf(0.25f); }, br, 0, 1, 0, {}});
        P.push_back({pre + "taps", 3, 'i', [q](void *o, int k) { return vi(S(o)->bank ? S(o)->bank->slots[q].taps[k] : k + 1); }, [](void *, int k) { return vi(k + 1); }, br, 0, 100, 0, {}}); } }
    P.push_back({"/mode", 1, 'i', [](void *o, int) { return vi(S(o)->mode); }, [](void *, int) { return vi(0); }, yes, 0, 3, 0, {}});
    P.push_back({"/depth", 1, 'i', [](void *o, int) { return vi(S(o)->depth); }, [](void *, int) { return vi(7); }, yes, 0, 20, 0, {}});
    P.push_back({"/preset0", 1, 'i', [](void *o, int) { return vi(S(o)->preset0); }, [](void *, int) { return vi(4); }, yes, 0, 9, 0, {}});
    P.push_back({"/preset1", 1, 'i', [](void *o, int) { return vi(S(o)->preset1); }, [](void *, int) { return vi(5); }, yes, 0, 9, 0, {}});
    P.push_back({"/preset2", 1, 'i', [](void *o, int) { return vi(S(o)->preset2); }, [](void *, int) { return vi(6); }, yes, 0, 9, 0, {}});
    P.push_back({"/env_mode", 1, 'i', [](void *o, int) { return vi(S(o)->env_mode); }, [](void *, int) { return vi(0); }, yes, 0, 3, 0, {}});
#undef S
    return P;
}


inline const std::vector<Param> &deps_params() {
    static std::vector<Param> P; if (!P.empty()) return P; auto yes = [](void *) { return true; };
#define U(o) (&((Deps *)o)->units[u])
    for (int u = 0; u < 2; u++) { std::string pre = "/units" + std::to_string(u) + "/";
        auto ip = [&](const char *n, std::function<int(Unit *)> g, std::function<int(Unit *)> df, double lo, double hi) { P.push_back({pre + n, 1, 'i', [u, g](void *o, int) { return vi(g(U(o))); }, [u, df](void *o, int) { return vi(df(U(o))); }, yes, lo, hi, 0, {}}); };
        ip("bank", [](Unit *x) { return x->bank; }, [](Unit *) { return 0; }, 0, 2);
        ip("kind", [](Unit *x) { return x->kind; }, [](Unit *x) { return Unit::kind_default(x->bank); }, 0, 3);
        ip("gain", [](Unit *x) { return x->gain; }, [](Unit *) { return 50; }, 0, 100);
        ip("width", [](Unit *x) { return x->width; }, [](Unit *) { return 50; }, 0, 100);
        ip("mix", [](Unit *x) { return x->mix; }, [](Unit *x) { return Unit::mix_default(x->kind); }, 0, 100);
        P.push_back({pre + "enabled", 1, 'T', [u](void *o, int) { return vb(U(o)->enabled); }, [](void *, int) { return vb(false); }, yes, 0, 1, 0, {}});
        ip("unison", [](Unit *x) { return x->unison; }, [](Unit *) { return 1; }, 1, 8);
        ip("type", [](Unit *x) { return x->type; }, [](Unit *) { return 0; }, 0, 2);
        ip("detune", [](Unit *x) { return x->detune; }, [](Unit *x) { return Unit::detune_default(x->type); }, 0, 24);
        ip("lfo_shape", [](Unit *x) { return x->lfo_shape; }, [](Unit *) { return 0; }, 0, 3);
        ip("lfo_rate", [](Unit *x) { return x->lfo_rate; }, [](Unit *) { return 5; }, 0, 20);
        ip("lfo_depth", [](Unit *x) { return x->lfo_depth; }, [](Unit *) { return 6; }, 0, 20);
        ip("premix", [](Unit *x) { return x->premix; }, [](Unit *) { return 0; }, 0, 9);
        ip("mixdown", [](Unit *x) { return x->mixdown; }, [](Unit *) { return 0; }, 0, 9);
        ip("s", [](Unit *x) { return x->s; }, [](Unit *) { return 0; }, 0, 2);
        ip("attack", [](Unit *x) { return x->attack; }, [](Unit *x) { return Unit::attack_default(x->s); }, 0, 100); }
    P.push_back({"/master", 1, 'i', [](void *o, int) { return vi(((Deps *)o)->master); }, [](void *, int) { return vi(100); }, yes, 0, 200, 0, {}});
#define D(o) ((Deps *)o)
    auto von = [](void *o) { return D(o)->enabled; };
    P.push_back({"/enabled", 1, 'T', [](void *o, int) { return vb(D(o)->enabled); }, [](void *, int) { return vb(false); }, yes, 0, 1, 0, {}});
    P.push_back({"/voice/mode", 1, 'i', [](void *o, int) { return vi(D(o)->voice.mode); }, [](void *, int) { return vi(0); }, von, 0, 3, 0, {}});
    P.push_back({"/voice/enabled", 1, 'T', [](void *o, int) { return vb(D(o)->voice.enabled); }, [](void *, int) { return vb(false); }, von, 0, 1, 0, {}});
    P.push_back({"/voice/detune", 1, 'i', [](void *o, int) { return vi(D(o)->voice.detune); }, [](void *, int) { return vi(0); }, von, 0, 24, 0, {}});
    P.push_back({"/voice/filter/cutoff", 1, 'i', [](void *o, int) { return vi(D(o)->voice.filter.cutoff); }, [](void *, int) { return vi(64); }, [](void *o) { return D(o)->enabled && D(o)->voice.enabled; }, 0, 127, 0, {}});
    P.push_back({"/voice/comp/enabled", 1, 'T', [](void *o, int) { return vb(D(o)->voice.comp.enabled); }, [](void *, int) { return vb(false); }, [](void *o) { return D(o)->enabled && D(o)->voice.comp.enabled; }, 0, 1, 0, {}});
    P.push_back({"/voice/comp/amount", 1, 'i', [](void *o, int) { return vi(D(o)->voice.comp.x); }, [](void *, int) { return vi(0); }, [](void *o) { return D(o)->enabled && D(o)->voice.comp.enabled; }, 0, 9, 0, {}});
    P.push_back({"/voice/comp2/on", 1, 'T', [](void *o, int) { return vb(D(o)->voice.comp2.on); }, [](void *, int) { return vb(true); }, von, 0, 1, 0, {}});
    P.push_back({"/voice/comp2/gain", 1, 'i', [](void *o, int) { return vi(D(o)->voice.comp2.gain); }, [](void *, int) { return vi(0); }, [](void *o) { return D(o)->enabled && D(o)->voice.comp2.on; }, 0, 9, 0, {}});
    P.push_back({"/lane/flt/cutoff", 1, 'i', [](void *o, int) { return vi(D(o)->lane.flt.cutoff); }, [](void *, int) { return vi(64); }, [](void *o) { return D(o)->lane.on; }, 0, 127, 0, {}});
    P.push_back({"/lane/on", 1, 'T', [](void *o, int) { return vb(D(o)->lane.on); }, [](void *, int) { return vb(false); }, yes, 0, 1, 0, {}});
    P.push_back({"/lane/amp", 1, 'i', [](void *o, int) { return vi(D(o)->lane.amp); }, [](void *, int) { return vi(5); }, [](void *o) { return D(o)->lane.on; }, 0, 9, 0, {}});
    P.push_back({"/eq/alpha", 1, 'i', [](void *o, int) { return vi(D(o)->eq.alpha); }, [](void *, int) { return vi(0); }, yes, 0, 9, 0, {}});
    P.push_back({"/eq/beta", 1, 'i', [](void *o, int) { return vi(D(o)->eq.beta); }, [](void *, int) { return vi(0); }, yes, 0, 9, 0, {}});
    P.push_back({"/eq/gamma", 1, 'i', [](void *o, int) { return vi(D(o)->eq.gamma); }, [](void *, int) { return vi(0); }, yes, 0, 9, 0, {}});
    P.push_back({"/eq/filter_cutoff", 1, 'i', [](void *o, int) { return vi(D(o)->eq.filter_cutoff); }, [](void *, int) { return vi(64); }, yes, 0, 127, 0, {}});
#undef D
#undef U
    return P;
}

struct AppDesc { const char *name; const rtosc::Ports *ports; const std::vector<Param> *params; std::function<void *()> make; std::function<void(void *)> destroy; };
// application 4: a component used as an application of its own: its root table carries rSelf(..., rEnabledBy(on))
inline const std::vector<Param> &lane_params() {
    static std::vector<Param> P; if (!P.empty()) return P; auto yes = [](void *) { return true; };
    P.push_back({"/on", 1, 'T', [](void *o, int) { return vb(((Lane *)o)->on); }, [](void *, int) { return vb(false); }, yes, 0, 1, 0, {}});
    P.push_back({"/flt/cutoff", 1, 'i', [](void *o, int) { return vi(((Lane *)o)->flt.cutoff); }, [](void *, int) { return vi(64); }, [](void *o) { return ((Lane *)o)->on; }, 0, 127, 0, {}});
    P.push_back({"/amp", 1, 'i', [](void *o, int) { return vi(((Lane *)o)->amp); }, [](void *, int) { return vi(5); }, [](void *o) { return ((Lane *)o)->on; }, 0, 9, 0, {}});
    return P;
}
inline const AppDesc &app_desc(int which) {
    static AppDesc d[4] = { {"flatapp", &Flat::ports, &flat_params(), [] { return (void *)new Flat; }, [](void *p) { delete (Flat *)p; }},
                            {"synthapp", &Synth::ports, &synth_params(), [] { return (void *)new Synth; }, [](void *p) { delete (Synth *)p; }},
                            {"depsapp", &Deps::ports, &deps_params(), [] { return (void *)new Deps; }, [](void *p) { delete (Deps *)p; }},
                            {"laneapp", &Lane::ports, &lane_params(), [] { return (void *)new Lane; }, [](void *p) { delete (Lane *)p; }} };
    return d[((which % 4) + 4) % 4];
}

} // namespace sapp
