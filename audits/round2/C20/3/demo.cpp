// C20 audit, defect 3: a controller learned for an rParam() port ("name::c",
// range 0..127 -- the very declaration test-midi-mapper.cpp uses) emits a FLOAT
// message; the port admits only 'c', so the learned controller never drives its
// parameter.
#include <rtosc/miditable.h>
#include <rtosc/ports.h>
#include <rtosc/port-sugar.h>
#include <rtosc/rtosc.h>
#include <cstdio>
#include <cstring>
#include <string>
#include <vector>
using namespace rtosc;

struct Obj { char foo; int bar; };
#define rObject Obj
static const Ports ports = {
    rParam (foo, "char parameter, 0..127"),
    rParamI(bar, rLinear(0,127), "int parameter, 0..127 (control)"),
};
#undef rObject

static Obj obj;
static std::vector<std::vector<char>> out;

struct World {
    MidiMapperRT   rt;
    MidiMappernRT  nrt;
    World() {
        nrt.base_ports = &ports;
        nrt.rt_cb      = [this](const char *msg) {
            if(!strncmp(msg, "/midi-learn/", 12)) {
                char loc[128] = {0};
                RtData d; d.loc = loc; d.loc_size = sizeof(loc); d.obj = &rt;
                MidiMapperRT::ports.dispatch(msg+12, d);
            }};
        rt.setFrontendCb([this](const char *msg) {
            if(!strcmp(msg, "/midi-use-CC"))
                nrt.useFreeID(rtosc_argument(msg, 0).i);
            });
        // the backend hands the message to the application's port tree, as an application does
        rt.setBackendCb([](const char *m) {
            out.push_back(std::vector<char>(m, m+rtosc_message_length(m, 1024)));
            char loc[128] = {0};
            RtData d; d.loc = loc; d.loc_size = sizeof(loc); d.obj = &obj;
            ports.dispatch(m+1, d);   // skip the leading '/'
            printf("  backend got %s ,%s -> port %s\n", m, rtosc_argument_string(m),
                    d.matches ? "accepted it" : "matched NOTHING");
        });
    }
};

int main()
{
    World w;
    w.nrt.map("/bar", true);  w.rt.handleCC(7, 0);     // controller 7 -> /bar
    w.nrt.map("/foo", true);  w.rt.handleCC(5, 0);     // controller 5 -> /foo
    printf("/foo <- %d, /bar <- %d\n", w.nrt.getCoarse("/foo"), w.nrt.getCoarse("/bar"));

    int fail = 0;
    obj.foo = 0; obj.bar = 0;
    printf("control: cc(7,100) on the rParamI port\n");
    w.rt.handleCC(7, 100);
    printf("  obj.bar = %d (expected 100)\n", obj.bar);
    if(obj.bar != 100) { printf("harness broken\n"); return 99; }

    int last = -1;
    for(int v : {1, 64, 100, 127}) {
        out.clear();
        printf("cc(5,%d) on the rParam port\n", v);
        w.rt.handleCC(5, v);
        if(out.size() != 1) { printf("FAIL: %zu messages\n", out.size()); return 2; }
        const char *m = out[0].data();
        char t = rtosc_type(m, 0);
        printf("  obj.foo = %d (expected %d), message type '%c'\n", obj.foo, v, t);
        if(t != 'c' && t != 'i') fail |= 1;           // not a value an integer 0..127 port can take
        if(obj.foo <= last)      fail |= 4;           // the parameter must grow with v
        last = obj.foo;
    }
    if(fail) printf("FAIL: the learned controller does not drive /foo\n");
    return fail;
}
