// C20 audit, defect 1: MidiMappernRT::clear() forgets the learn queue but leaves
// the realtime half's watches armed; the next stray controller is swallowed into
// `pending` forever and can never be learned afterwards.
#include <rtosc/miditable.h>
#include <rtosc/ports.h>
#include <rtosc/port-sugar.h>
#include <rtosc/rtosc.h>
#include <cstdio>
#include <cstring>
#include <string>
#include <vector>
using namespace rtosc;

struct Obj { float a; int b; };
#define rObject Obj
static const Ports ports = {
    rParamF(a, rLinear(-1,1), "float parameter"),
    rParamI(b, rLinear(-10,10), "int parameter"),
};
#undef rObject

// both halves wired back to back: every message is delivered at once
struct World {
    MidiMapperRT   rt;
    MidiMappernRT  nrt;
    std::vector<std::string> out_addr;   // addresses the backend saw
    World() {
        nrt.base_ports = &ports;
        nrt.rt_cb      = [this](const char *msg) {
            if(!strncmp(msg, "/midi-learn/", 12)) {
                char loc[128] = {0};
                RtData d; d.loc = loc; d.loc_size = sizeof(loc); d.obj = &rt;
                MidiMapperRT::ports.dispatch(msg+12, d);
            }};
        rt.setFrontendCb([this](const char *msg) {
            if(!strcmp(msg, "/midi-use-CC"))
                nrt.useFreeID(rtosc_argument(msg, 0).i);
            });
        rt.setBackendCb([this](const char *m){ out_addr.push_back(m); });
    }
};

static int scenario(bool with_clear)
{
    World w;
    if(with_clear) {
        w.nrt.map("/a", true);  // queue /a for learning
        w.nrt.clear();          // user changes his mind: forget everything
        w.rt.handleCC(5, 10);   // a stray controller; nothing is queued, nothing may happen
    }
    w.nrt.map("/b", true);      // now /b is queued ...
    w.rt.handleCC(5, 20);       // ... and the not yet assigned controller 5 arrives: must be assigned to /b
    w.out_addr.clear();
    w.rt.handleCC(5, 30);       // from then on it must drive /b

    printf("  coarse controller of /b: %d (expected 5)\n", w.nrt.getCoarse("/b"));
    printf("  messages for cc(5,30): %zu (expected 1, to /b)\n", w.out_addr.size());
    printf("  rt.watchSize=%u learnQueue=%zu pending.size=%d pending.has(5)=%d\n",
            w.rt.watchSize, w.nrt.learnQueue.size(), w.rt.pending.size, (int)w.rt.pending.has(5));
    if(w.nrt.getCoarse("/b") != 5)                        return 1;
    if(w.out_addr.size() != 1 || w.out_addr[0] != "/b")   return 2;
    return 0;
}

int main()
{
    printf("control: map(/b) cc(5) cc(5)\n");
    if(scenario(false)) { printf("harness broken\n"); return 99; }
    printf("case: map(/a) clear() cc(5) map(/b) cc(5) cc(5)\n");
    return scenario(true);
}
