#!/bin/sh
# builds demo.cpp against the worktree sources directly and runs it
set -e
here=$(cd "$(dirname "$0")" && pwd)
W=$(cd "$here/../.." && pwd)
T=$(mktemp -d)
trap 'rm -rf "$T"' EXIT
for f in "$W"/src/*.c "$W"/src/cpp/*.c; do
    gcc -std=c99 -g -w -I"$W/include" -I"$W/src/cpp" -c "$f" -o "$T/$(basename "$f").o"
done
g++ -std=c++17 -g -w -fsanitize=address,undefined -I"$W/include" "$here/demo.cpp" \
    "$W/src/cpp/midimapper.cpp" "$W/src/cpp/ports.cpp" "$W/src/cpp/ports-runtime.cpp" \
    "$T"/*.o -o "$T/demo"
ASAN_OPTIONS=detect_leaks=0 "$T/demo"
