// C20 audit: reproductions for the entries of ../maybe.md  (./build.sh runs all cases)
#include <rtosc/miditable.h>
#include <rtosc/ports.h>
#include <rtosc/port-sugar.h>
#include <rtosc/rtosc.h>
#include <cstdio>
#include <cstdlib>
#include <cstring>
#include <string>
#include <vector>
using namespace rtosc;

#define LONG100 "n234567890123456789012345678901234567890123456789012345678901234567890123456789012345678901234567890"
#define LONG200 LONG100 LONG100
struct Obj { float a; int b; int small; bool t; int onebound; float leaf; };
#define rObject Obj
static void nop(const char*, RtData&) {}
static const Ports l6 = { rParamF(leaf, rLinear(0,1), "leaf") };
static const Ports l5 = { {LONG200 "/", 0, &l6, nop } };
static const Ports l4 = { {LONG200 "/", 0, &l5, nop } };
static const Ports l3 = { {LONG200 "/", 0, &l4, nop } };
static const Ports l2 = { {LONG200 "/", 0, &l3, nop } };
static const Ports l1 = { {LONG200 "/", 0, &l2, nop } };
static const Ports ports = {
    rParamF(a, rLinear(-1,1), "float"),
    rParamI(b, rLinear(-10,10), "int"),
    rParamI(small, rLinear(0,3), "int 0..3"),
    rToggle(t, "toggle: no range"),
    rParamI(onebound, rMap(min, 0), "only a lower bound"),
    {LONG200 "/", 0, &l1, nop },
};
#undef rObject

struct World {
    MidiMapperRT   rt;
    MidiMappernRT  nrt;
    World() {
        nrt.base_ports = &ports;
        nrt.rt_cb      = [this](const char *msg) {
            if(!strncmp(msg, "/midi-learn/", 12)) {
                char loc[128] = {0};
                RtData d; d.loc = loc; d.loc_size = sizeof(loc); d.obj = &rt;
                MidiMapperRT::ports.dispatch(msg+12, d);
            }};
        rt.setFrontendCb([this](const char *msg) {
            if(!strcmp(msg, "/midi-use-CC"))
                nrt.useFreeID(rtosc_argument(msg, 0).i);
            });
        rt.setBackendCb([](const char *m){
            size_t l = rtosc_message_length(m, 1024);
            if(!l) { printf("  backend got an invalid message, first bytes: %02x %02x %02x %02x\n", m[0], m[1], m[2], m[3]); return; }
            printf("  backend got '%.40s%s' ,%s", m, strlen(m) > 40 ? "..." : "", rtosc_argument_string(m));
            if(rtosc_type(m,0)=='f') printf(" %g", rtosc_argument(m,0).f);
            if(rtosc_type(m,0)=='i') printf(" %d", rtosc_argument(m,0).i);
            printf("\n"); });
    }
};

int main(int argc, char **argv)
{
    int c = argc > 1 ? atoi(argv[1]) : 1;
    setvbuf(stdout, NULL, _IONBF, 0);
    World w;
    if(c == 1) {
        printf("unMap of an address that is still only queued does not dequeue it\n");
        w.nrt.map("/a", true);
        w.nrt.unMap("/a", true);
        w.rt.handleCC(5, 1);
        w.rt.handleCC(5, 64);
        printf("  /a <- %d after map, unMap, cc(5): the unmapped address got a controller\n", w.nrt.getCoarse("/a"));
    } else if(c == 2) {
        printf("learning a port without min/max (rToggle) dereferences the NULL snapshot\n");
        w.nrt.map("/t", true);
        w.rt.handleCC(5, 1);
        printf("  survived\n");
    } else if(c == 3) {
        printf("learning a port with only one bound\n");
        w.nrt.map("/onebound", true);
        w.rt.handleCC(5, 1);
        printf("  survived\n");
    } else if(c == 4) {
        std::string addr;
        for(int i=0; i<6; ++i) addr += "/" LONG200;
        addr += "/leaf";
        printf("address of %zu characters: the callback's 1024 byte buffer cannot hold the message\n", addr.size());
        w.nrt.map(addr.c_str(), true);
        w.rt.handleCC(5, 1);
        printf("  bound to %d\n", w.nrt.getCoarse(addr));
        w.rt.handleCC(5, 64);
    } else if(c == 5) {
        printf("addFineMapper() grows callbacks but not values; the next learned address indexes past values\n");
        w.nrt.addNewMapper(5, *ports.apropos("/a"), "/a");
        w.nrt.addFineMapper(6, *ports.apropos("/a"), "/a");
        w.nrt.map("/b", true);
        w.rt.handleCC(7, 1);
        w.rt.handleCC(7, 64);
        printf("  survived\n");
    } else if(c == 6) {
        printf("setBounds() on an int parameter makes the controller send floats\n");
        w.nrt.map("/b", true);
        w.rt.handleCC(5, 1);
        w.rt.handleCC(5, 64);
        w.nrt.setBounds("/b", -5, 5);
        w.rt.handleCC(5, 64);
    } else if(c == 7) {
        printf("int 0..3: the upper bound is unreachable (127 -> 2); deprecated MidiTable ignores the range (127 -> 127)\n");
        w.nrt.map("/small", true);
        w.rt.handleCC(5, 1);
        w.rt.handleCC(5, 127);
        MidiTable t(ports);
        t.event_cb = [](const char *m){ printf("  MidiTable event '%s' ,%s %d\n", m, rtosc_argument_string(m), rtosc_argument(m,0).i); };
        t.learn("/small");
        t.process(0, 9, 1);
        t.process(0, 9, 127);
    }
    return 0;
}
