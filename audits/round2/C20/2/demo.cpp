// C20 audit, defect 2: the realtime half's "midi-bind" handler pops the head of
// `pending` for EVERY new snapshot, also for snapshots that are not the answer to
// a "/midi-use-CC" request (unMap, re-map, clear, setBounds).  If such a snapshot
// overtakes the answer, the controller that is being learned is forgotten, asks
// again, and ends up assigned to TWO queued addresses.
#include <rtosc/miditable.h>
#include <rtosc/ports.h>
#include <rtosc/port-sugar.h>
#include <rtosc/rtosc.h>
#include <cstdio>
#include <cstring>
#include <deque>
#include <string>
#include <vector>
using namespace rtosc;

struct Obj { float a; int d; };
#define rObject Obj
static const Ports ports = {
    rParamF(a, rLinear(-1,1), "float parameter"),
    rParamI(d, rLinear(-10,10), "int parameter"),
};
#undef rObject

typedef std::vector<char> Msg;
static Msg copy(const char *m) { size_t l = rtosc_message_length(m, 1024); return Msg(m, m+l); }

// the two halves with one FIFO per direction, delivered step by step
struct World {
    MidiMapperRT   rt;
    MidiMappernRT  nrt;
    std::deque<Msg> to_rt, to_nrt;
    std::vector<std::string> out_addr;
    World() {
        nrt.base_ports = &ports;
        nrt.rt_cb      = [this](const char *m){ to_rt.push_back(copy(m)); };
        rt.setFrontendCb([this](const char *m){ to_nrt.push_back(copy(m)); });
        rt.setBackendCb([this](const char *m){ out_addr.push_back(m); });
    }
    void rt_reads_one() {
        if(to_rt.empty()) return;
        Msg m = to_rt.front(); to_rt.pop_front();
        if(!strncmp(m.data(), "/midi-learn/", 12)) {
            char loc[128] = {0};
            RtData d; d.loc = loc; d.loc_size = sizeof(loc); d.obj = &rt;
            MidiMapperRT::ports.dispatch(m.data()+12, d);
        }
    }
    void nrt_reads_one() {
        if(to_nrt.empty()) return;
        Msg m = to_nrt.front(); to_nrt.pop_front();
        if(!strcmp(m.data(), "/midi-use-CC"))
            nrt.useFreeID(rtosc_argument(m.data(), 0).i);
    }
    void settle() { while(!to_rt.empty() || !to_nrt.empty()) { rt_reads_one(); nrt_reads_one(); } }
};

int main()
{
    World w;
    // /d is learned to controller 2, /a is queued and waits for a controller
    w.nrt.map("/d", true);  w.settle();
    w.rt.handleCC(2, 31);   w.settle();
    w.nrt.map("/a", true);  w.settle();
    printf("setup: /d <- %d, queue=%zu, watches=%u\n", w.nrt.getCoarse("/d"), w.nrt.learnQueue.size(), w.rt.watchSize);

    // the user turns knob 1 to teach it to /a ...
    w.rt.handleCC(1, 104);              // RT: asks "/midi-use-CC 1" (in flight)
    // ... and, before the non-realtime thread has read that request, asks to re-learn /d
    w.nrt.map("/d", true);              // nRT: unmaps /d (snapshot U in flight) and queues it again (watch in flight)
    w.rt_reads_one();                   // RT: snapshot U     -> pops controller 1 from `pending`
    w.rt_reads_one();                   // RT: midi-add-watch
    w.rt.handleCC(1, 50);               // the knob is still moving: RT asks for controller 1 a second time
    w.settle();

    int ca = w.nrt.getCoarse("/a"), cd = w.nrt.getCoarse("/d");
    printf("after the exchange: /a <- %d (expected 1), /d <- %d (expected -1: still queued), queue=%zu watches=%u\n",
            ca, cd, w.nrt.learnQueue.size(), w.rt.watchSize);
    int fail = 0;
    if(ca != 1)  { printf("FAIL: controller 1 was not assigned to the oldest queued address /a\n"); fail |= 1; }
    if(cd == 1)  { printf("FAIL: controller 1 is assigned to /d as well\n"); fail |= 2; }

    // /d must still be waiting: the next not yet assigned controller belongs to it
    w.rt.handleCC(3, 10); w.settle();
    w.out_addr.clear();
    w.rt.handleCC(3, 77); w.settle();
    printf("cc(3,77) produced %zu message(s)%s%s (expected 1 to /d)\n", w.out_addr.size(),
            w.out_addr.empty() ? "" : " to ", w.out_addr.empty() ? "" : w.out_addr[0].c_str());
    if(w.out_addr.size() != 1 || w.out_addr[0] != "/d") { printf("FAIL: /d lost its place in the learn queue\n"); fail |= 4; }
    fflush(stdout);

    // unmapping /d must not touch /a's binding
    // (with assertions enabled killMap() aborts here; with -DNDEBUG, as in the
    //  RelWithDebInfo build, it silently removes /a's binding too)
    w.nrt.unMap("/d", true); w.settle();
    w.out_addr.clear();
    w.rt.handleCC(1, 64); w.settle();
    printf("after unMap(/d): cc(1,64) produced %zu message(s) (expected 1 to /a)\n", w.out_addr.size());
    if(w.out_addr.size() != 1 || w.out_addr[0] != "/a") { printf("FAIL: unMap(/d) disturbed /a's binding\n"); fail |= 8; }
    return fail;
}
