// C13 audit, defect 1: rSelf(..., rEnabledBy(x)) of a directory whose enabling
// port x has no line in the savefile -> scan_deps recurses without end.
#include <cstdio>
#include <cstring>
#include <string>
#include <set>
#include <rtosc/ports.h>
#include <rtosc/port-sugar.h>
#include <rtosc/savefile.h>
using namespace rtosc;

struct Sub {
    bool enabled = true;   // default: enabled
    int amount = 0;
    static const Ports ports;
};
struct Root {
    Sub sub;
    static const Ports ports;
};

#define rObject Sub
const Ports Sub::ports = {
    // documented form (doc/Guide.adoc, "enable self by port")
    rSelf(Sub, rEnabledBy(enabled)),
    rToggle(enabled, rDefault(true), "is this component in use"),
    rParamI(amount, rDefault(0), rLinear(0, 127), "amount"),
};
#undef rObject
#define rObject Root
const Ports Root::ports = {
    rRecur(sub, "the component"),
};
#undef rObject

int main()
{
    Root saved;
    saved.sub.amount = 7;           // 'enabled' keeps its default => no line for it
    std::set<std::string> written;
    rtosc_version ver = {1, 0, 0};
    std::string file = save_to_file(Root::ports, &saved, "demo", ver, written, {});
    printf("--- savefile ---\n%s\n----------------\n", file.c_str());
    if(!strstr(file.c_str(), "/sub/amount 7") || strstr(file.c_str(), "/sub/enabled")) {
        printf("unexpected savefile\n");
        return 2;
    }

    Root loaded;
    fflush(stdout);
    int rval = load_from_file(file.c_str(), Root::ports, &loaded, "demo", ver); // never returns
    printf("load_from_file = %d, amount = %d\n", rval, loaded.sub.amount);
    return (rval == 1 && loaded.sub.amount == 7) ? 0 : 1;
}
