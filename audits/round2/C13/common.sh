#!/bin/sh
# builds the (unmodified) library sources with sanitizers into audit/_san/librtosc_san.a
# usage: . ../common.sh   (sets WT, SANLIB, CXXFLAGS_DEMO)
set -e
HERE=$(cd "$(dirname "$0")" && pwd)
WT=$(cd "$HERE/../.." && pwd)
SAN="$WT/audit/_san"
SANFLAGS="-g -O1 -fsanitize=address,undefined -fno-omit-frame-pointer"
if [ ! -f "$SAN/librtosc_san.a" ] || [ -n "$(find "$WT/src" "$WT/include" -newer "$SAN/librtosc_san.a" -type f | head -1)" ]; then
  rm -rf "$SAN"; mkdir -p "$SAN"
  sed -e 's/\${VERSION_MAJOR}/0/;s/\${VERSION_MINOR}/3/;s/\${VERSION_PATCH}/1/' "$WT/src/cpp/version.c.in" > "$SAN/version.c"
  for f in "$WT"/src/*.c "$WT"/src/cpp/*.c "$SAN/version.c"; do
    gcc $SANFLAGS -std=gnu99 -I "$WT/include" -I "$WT/src/cpp" -c "$f" -o "$SAN/$(basename "$f").o" &
  done
  for f in ports.cpp ports-runtime.cpp default-value.cpp savefile.cpp; do
    g++ $SANFLAGS -std=c++17 -I "$WT/include" -I "$WT/src/cpp" -c "$WT/src/cpp/$f" -o "$SAN/$f.o" &
  done
  wait
  ar rcs "$SAN/librtosc_san.a" "$SAN"/*.o
fi
SANLIB="$SAN/librtosc_san.a"
CXXFLAGS_DEMO="$SANFLAGS -std=c++17 -I $WT/include"
