// C13 audit, candidate 4: rRecur(sub, rEnabledBy(sub/enabled)) - the enabling
// port lives inside the sub-tree it enables (the "subport" case of
// port_is_enabled()). The scan gives "/sub/enabled" an edge to itself.
#include <cstdio>
#include <cstring>
#include <string>
#include <vector>
#include <set>
#include <rtosc/ports.h>
#include <rtosc/port-sugar.h>
#include <rtosc/savefile.h>
using namespace rtosc;

struct Sub {
    bool enabled = false;
    int amount = 0;
    static const Ports ports;
};
struct Root {
    Sub sub;
    static const Ports ports;
};

#define rObject Sub
const Ports Sub::ports = {
    {"enabled::T:F", rProp(parameter) rDefault(false) rDoc("in use?"), NULL,
        [](const char* msg, RtData& d) {
            Sub* o = (Sub*)d.obj;
            if(!rtosc_narguments(msg)) { d.reply(d.loc, o->enabled ? "T" : "F"); return; }
            bool v = rtosc_argument(msg, 0).T;
            if(v && !o->enabled) o->amount = 0; // enabling initialises
            o->enabled = v;
        }},
    rParamI(amount, rDefault(0), rLinear(0, 127), "amount"),
};
#undef rObject
#define rObject Root
const Ports Root::ports = {
    rRecur(sub, rEnabledBy(sub/enabled), "the component"),
};
#undef rObject

struct logging_dispatcher : savefile_dispatcher_t {
    std::vector<std::string> order;
    int on_dispatch(size_t, char* portname, size_t, size_t nargs, rtosc_arg_val_t*) override
    { order.push_back(portname); return (int)nargs; }
};

int main()
{
    rtosc_version ver = {1, 0, 0};
    {   // the save side understands this declaration
        Root off; off.sub.amount = 5; // disabled: nothing of the sub-tree is saved
        std::set<std::string> w;
        std::string f = save_to_file(Root::ports, &off, "demo", ver, w, {});
        printf("--- savefile (disabled) ---\n%s\n", f.c_str());
        if(strstr(f.c_str(), "/sub/")) { puts("unexpected: disabled sub-tree saved"); return 2; }
    }
    Root saved;
    saved.sub.enabled = true; saved.sub.amount = 7;
    std::set<std::string> written;
    std::string file = save_to_file(Root::ports, &saved, "demo", ver, written, {});
    printf("--- savefile (enabled) ---\n%s\n----------------\n", file.c_str());
    size_t hdr = file.find("\n", file.find("\n") + 1) + 1;
    std::string header = file.substr(0, hdr);
    const char* l_on = "/sub/enabled true", *l_amount = "/sub/amount 7";
    if(!strstr(file.c_str(), l_on) || !strstr(file.c_str(), l_amount)) { puts("unexpected savefile"); return 2; }

    int bad = 0;
    std::string perms[2] = { header + l_on + "\n" + l_amount, header + l_amount + "\n" + l_on };
    for(const std::string& p : perms) {
        Root c; logging_dispatcher d;
        fflush(stdout);
        int r = load_from_file(p.c_str(), Root::ports, &c, "demo", ver, &d);
        printf("rval %d, applied:", r);
        for(auto& s : d.order) printf(" %s", s.c_str());
        printf(" ; state enabled=%d amount=%d\n", c.sub.enabled, c.sub.amount);
        if(r != 2 || !c.sub.enabled || c.sub.amount != 7 || d.order.size() != 2 || d.order[0] != "/sub/enabled") bad = 1;
    }
    puts(bad ? "VIOLATION" : "ok");
    return bad;
}
