#!/bin/sh
. "$(dirname "$0")/../common.sh"
g++ $CXXFLAGS_DEMO "$HERE/demo.cpp" "$SANLIB" -o "$HERE/demo"
ulimit -s 8192
"$HERE/demo"
