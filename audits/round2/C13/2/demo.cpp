// C13 audit, defect 2: the dependency scan finds the port of an array line
// ("/array [..]" for "array#4::i") only by apropos' prefix fallback; an earlier
// declared sibling whose name starts with the array's name hides it and the
// array's "default depends" edge is lost.
#include <cstdio>
#include <cstring>
#include <string>
#include <vector>
#include <set>
#include <rtosc/ports.h>
#include <rtosc/port-sugar.h>
#include <rtosc/savefile.h>
using namespace rtosc;

// same model as test/default-value.cpp (Envelope): selecting env_type
// presets everything that depends on it
struct Envelope {
    int array_mode = 0;    // unrelated parameter whose name starts with "array"
    int array[4];
    int env_type = 0;
    Envelope() { preset(); }
    void preset() {
        for(int i = 0; i < 4; ++i) array[i] = env_type ? i : 0;
    }
    static const Ports ports;
};

#define rObject Envelope
#define rChangeCb
const Ports Envelope::ports = {
    rParamI(array_mode, rDefault(0), rLinear(0, 10), "declared before the array"),
    rArrayI(array, 4, rDefaultDepends(env_type),
            rPreset(0, [4x0]), rPreset(1, [0 1 2 3]), rDefault(3), rLinear(0, 127),
            "some bundle"),
    {"env_type::i", rProp(parameter) rDefault(0) rDoc("preset"), NULL,
        [](const char* m, RtData& d) {
            Envelope* o = (Envelope*)d.obj;
            if(!rtosc_narguments(m)) { d.reply(d.loc, "i", o->env_type); return; }
            o->env_type = rtosc_argument(m, 0).i;
            o->preset();
        }},
};
#undef rObject

struct logging_dispatcher : savefile_dispatcher_t {
    std::vector<std::string> order;
    int on_dispatch(size_t, char* portname, size_t, size_t nargs, rtosc_arg_val_t*) override
    { order.push_back(portname); return (int)nargs; }
};

int main()
{
    Envelope saved;
    saved.env_type = 1; saved.preset();
    for(int i = 0; i < 4; ++i) saved.array[i] = 3 - i;
    std::set<std::string> written;
    rtosc_version ver = {1, 0, 0};
    std::string file = save_to_file(Envelope::ports, &saved, "demo", ver, written, {});
    printf("--- savefile ---\n%s\n----------------\n", file.c_str());
    size_t hdr = file.find("\n", file.find("\n") + 1) + 1;
    std::string header = file.substr(0, hdr);
    const char* l_arr = "/array [3 2 1 0]", *l_env = "/env_type 1";
    if(!strstr(file.c_str(), l_arr) || !strstr(file.c_str(), l_env)) { puts("unexpected savefile"); return 2; }

    int bad = 0;
    std::string perms[2] = { header + l_env + "\n" + l_arr, header + l_arr + "\n" + l_env };
    for(const std::string& p : perms) {
        Envelope e; logging_dispatcher d;
        int r = load_from_file(p.c_str(), Envelope::ports, &e, "demo", ver, &d);
        printf("lines: %-20s -> rval %d, applied:", strstr(p.c_str(), "/env") < strstr(p.c_str(), "/array") ? "/env_type, /array" : "/array, /env_type", r);
        for(auto& s : d.order) printf(" %s", s.c_str());
        printf(" ; array = [%d %d %d %d]\n", e.array[0], e.array[1], e.array[2], e.array[3]);
        if(r != 2 || d.order[0] != "/env_type" || e.array[0] != 3 || e.array[3] != 0) bad = 1;
    }
    puts(bad ? "VIOLATION: /env_type (array's rDefaultDepends) was not applied before /array" : "ok");
    return bad;
}
