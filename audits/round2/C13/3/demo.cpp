// C13 audit, defect 3: rSelf(..., rEnabledBy(x)) in the ROOT Ports of the tree
// that is saved/loaded: no edge from x to the other ports of that level.
#include <cstdio>
#include <cstring>
#include <string>
#include <vector>
#include <set>
#include <rtosc/ports.h>
#include <rtosc/port-sugar.h>
#include <rtosc/savefile.h>
using namespace rtosc;

struct Comp {
    bool on = false;       // default: not in use
    int amount = 0;
    void reset() { amount = 0; }
    static const Ports ports;
};

#define rObject Comp
const Ports Comp::ports = {
    // documented form (doc/Guide.adoc, "enable self by port")
    rSelf(Comp, rEnabledBy(on)),
    // switching the component on (re)initialises it
    {"on::T:F", rProp(parameter) rDefault(false) rDoc("in use?"), NULL,
        [](const char* msg, RtData& d) {
            Comp* o = (Comp*)d.obj;
            if(!rtosc_narguments(msg)) { d.reply(d.loc, o->on ? "T" : "F"); return; }
            bool v = rtosc_argument(msg, 0).T;
            if(v && !o->on) o->reset();
            o->on = v;
        }},
    rParamI(amount, rDefault(0), rLinear(0, 127), "amount"),
};
#undef rObject

struct logging_dispatcher : savefile_dispatcher_t {
    std::vector<std::string> order;
    int on_dispatch(size_t, char* portname, size_t, size_t nargs, rtosc_arg_val_t*) override
    { order.push_back(portname); return (int)nargs; }
};

int main()
{
    Comp saved;
    saved.on = true; saved.amount = 7;
    std::set<std::string> written;
    rtosc_version ver = {1, 0, 0};
    std::string file = save_to_file(Comp::ports, &saved, "demo", ver, written, {});
    printf("--- savefile ---\n%s\n----------------\n", file.c_str());
    size_t hdr = file.find("\n", file.find("\n") + 1) + 1;
    std::string header = file.substr(0, hdr);
    const char* l_on = "/on true", *l_amount = "/amount 7";
    if(!strstr(file.c_str(), l_on) || !strstr(file.c_str(), l_amount)) { puts("unexpected savefile"); return 2; }

    int bad = 0;
    std::string perms[2] = { header + l_on + "\n" + l_amount, header + l_amount + "\n" + l_on };
    for(const std::string& p : perms) {
        Comp c; logging_dispatcher d;
        int r = load_from_file(p.c_str(), Comp::ports, &c, "demo", ver, &d);
        printf("order of lines: %-22s -> rval %d, applied:", strstr(p.c_str(), "/on") < strstr(p.c_str(), "/amount") ? "/on, /amount" : "/amount, /on", r);
        for(auto& s : d.order) printf(" %s", s.c_str());
        printf(" ; state on=%d amount=%d\n", c.on, c.amount);
        if(r != 2 || !c.on || c.amount != 7 || d.order[0] != "/on") bad = 1;
    }
    puts(bad ? "VIOLATION: the enabling port of the root's rSelf was not applied first" : "ok");
    return bad;
}
