// C03 / defect 1: dispatching a message to a port declared without a callback
// (a metadata-only port, as the library's own test/default-value.cpp declares)
// makes Ports::dispatch throw std::bad_function_call: the exception object is
// heap allocated (and freed) inside the realtime section.
#include "hook.h"
#include <rtosc/rtosc.h>
#include <rtosc/ports.h>
#include <rtosc/port-sugar.h>
#include <functional>
using namespace rtosc;

static int hits = 0;
static void count(const char *, RtData &) { ++hits; }

// hashed table (no '#'): one ordinary port, one metadata-only port
static const Ports hashed = {
    {"gain::f",  rProp(parameter) rDoc("has a callback"), NULL, count},
    {"label::s", rDefault("x")    rDoc("metadata only"),  NULL, NULL},
};
// enumerated table ('#' present -> linear search)
static const Ports enumerated = {
    {"slot#4::i", rDoc("has a callback"), NULL, count},
    {"label::s",  rDoc("metadata only"),  NULL, NULL},
};

static int failures = 0;
static void run(const char *what, const Ports &p, const char *path, bool with_loc)
{
    char msg[64];
    rtosc_message(msg, sizeof msg, path, "");
    char loc[64] = {0};
    RtData d;
    d.obj = NULL;
    if(with_loc) { d.loc = loc; d.loc_size = sizeof loc; }

    bool threw = false;
    RT rt;                      // ---- realtime section ----
    try {
        p.dispatch(msg, d, true);
    } catch(const std::bad_function_call &) {
        threw = true;
    }
    bool clean = rt.clean(what);// ---- end ----
    rt_section = 0;
    printf("%-40s threw=%d clean=%d\n", what, threw, clean);
    if(threw || !clean) ++failures;
}

int main()
{
    // control: the ordinary ports dispatch without touching the heap
    run("hashed /gain, loc",        hashed,     "/gain",  true);
    run("enumerated /slot2, loc",   enumerated, "/slot2", true);
    // the metadata-only port
    run("hashed /label, no loc",    hashed,     "/label", false);
    run("hashed /label, loc",       hashed,     "/label", true);
    run("enumerated /label, loc",   enumerated, "/label", true);
    printf("failures=%d\n", failures);
    return failures ? 1 : 0;
}
