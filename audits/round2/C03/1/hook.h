// allocation / lock observer: strong definitions that override glibc's
#include <cstdlib>
#include <cstdio>
#include <cstring>
#include <new>
#include <dlfcn.h>
#include <pthread.h>
extern "C" {
void *__libc_malloc(size_t); void __libc_free(void*); void *__libc_calloc(size_t,size_t);
void *__libc_realloc(void*,size_t); void *__libc_memalign(size_t,size_t);
}
static volatile int rt_section = 0;
static volatile long n_alloc = 0, n_free = 0, n_lock = 0;
extern "C" {
void *malloc(size_t n){ if(rt_section) n_alloc++; return __libc_malloc(n);}
void free(void *p){ if(rt_section && p) n_free++; __libc_free(p);}
void *calloc(size_t a,size_t b){ if(rt_section) n_alloc++; return __libc_calloc(a,b);}
void *realloc(void *p,size_t n){ if(rt_section) n_alloc++; return __libc_realloc(p,n);}
int posix_memalign(void **p,size_t a,size_t n){ if(rt_section) n_alloc++; *p=__libc_memalign(a,n); return *p?0:12;}
void *aligned_alloc(size_t a,size_t n){ if(rt_section) n_alloc++; return __libc_memalign(a,n);}
int pthread_mutex_lock(pthread_mutex_t *m){
    static int (*real)(pthread_mutex_t*) = 0;
    if(!real) real = (int(*)(pthread_mutex_t*))dlsym(RTLD_NEXT,"pthread_mutex_lock");
    if(rt_section) n_lock++;
    return real(m);
}
}
void *operator new(size_t n){ void *p = malloc(n); if(!p) abort(); return p;}
void *operator new[](size_t n){ void *p = malloc(n); if(!p) abort(); return p;}
void operator delete(void *p) noexcept { free(p);}
void operator delete[](void *p) noexcept { free(p);}
void operator delete(void *p, size_t) noexcept { free(p);}
void operator delete[](void *p, size_t) noexcept { free(p);}
struct RT { long a,f,l; RT(){a=n_alloc;f=n_free;l=n_lock;rt_section=1;} ~RT(){rt_section=0;}
   bool clean(const char *what){ rt_section=0; bool ok = a==n_alloc&&f==n_free&&l==n_lock;
     if(!ok) printf("VIOLATION in %s: alloc+%ld free+%ld lock+%ld\n",what,n_alloc-a,n_free-f,n_lock-l);
     a=n_alloc;f=n_free;l=n_lock; rt_section=1; return ok;} };
