#!/bin/sh
# usage: build.sh assert-abort|typed-get   (compiles against the worktree sources, runs)
set -e
HERE=$(cd "$(dirname "$0")" && pwd); ROOT=$(cd "$HERE/../.." && pwd)
OUT=$(mktemp -d); trap 'rm -rf "$OUT"' EXIT
for f in "$ROOT"/src/*.c "$ROOT"/src/cpp/*.c; do gcc -std=gnu99 -w -O1 -g -I "$ROOT/include" -c "$f" -o "$OUT/$(basename "$f").o"; done
g++ -std=c++17 -w -O1 -g -I "$ROOT/include" "$HERE/$1.cpp" "$ROOT/src/cpp/ports.cpp" "$ROOT/src/cpp/ports-runtime.cpp" "$OUT"/*.o -ldl -pthread -o "$OUT/demo"
"$OUT/demo"
