#include "hook.h"
#include <csignal>
#include <unistd.h>
#include <rtosc/rtosc.h>
#include <rtosc/ports.h>
#include <rtosc/port-sugar.h>
using namespace rtosc;
struct O{int opt; bool t; static const Ports ports;};
#define rObject O
const Ports O::ports={ rOption(opt, rOptions(red,green,blue), rLinear(0,2), "o"), rEnabledCondition(cond, obj->t) };
#undef rObject
static void onabrt(int){ char b[128]; int n=snprintf(b,128,"SIGABRT: allocs in rt section=%ld\n",n_alloc); write(1,b,n); _exit(n_alloc?3:4);} 
int main(int argc,char**argv){ signal(SIGABRT,onabrt); O o{0,false}; char loc[64]={0}; RtData d; d.obj=&o; d.loc=loc; d.loc_size=64; char m[64];
 if(argc>1) rtosc_message(m,64,"/cond","i",1); else rtosc_message(m,64,"/opt","S","purple");
 RT rt; O::ports.dispatch(m,d,true); bool c=rt.clean("x"); rt_section=0; printf("clean=%d opt=%d\n",c,o.opt); return 0;}
