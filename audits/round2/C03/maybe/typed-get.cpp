// maybe-item: rtosc::get<>() on an rtMsg that did not match throws std::invalid_argument
#include "hook.h"
#include <rtosc/rtosc.h>
#include <rtosc/typed-message.h>
using namespace rtosc;
int main(){ char m[64]; rtosc_message(m,64,"/p","f",1.0);
  RT rt; rtMsg<int32_t> t(m); bool threw=false;
  try { get<0>(t); } catch(const std::invalid_argument&) { threw=true; }
  bool c = rt.clean("typed get on mismatch"); rt_section=0; printf("threw=%d clean=%d\n",threw,c); return c?0:1; }
