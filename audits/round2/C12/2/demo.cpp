// C12 audit, defect 2: a sub-tree that enables itself with
// rSelf(..., rEnabledBy(x)) (doc/Guide.adoc, "enable self by port") cannot be
// saved while it is disabled if the name of the toggle x has fewer than 4
// characters ("on", "en", "use", ...): an untouched application does not save.
#include <rtosc/rtosc.h>
#include <rtosc/ports.h>
#include <rtosc/savefile.h>
#include <rtosc/port-sugar.h>
#include <cstdio>
#include <cstring>
#include <set>
#include <string>
using namespace rtosc;

// control: same component, toggle called "enabled"
struct VoiceLong {
    bool enabled = false; int vol = 5;
    static const Ports ports;
};
#define rObject VoiceLong
const Ports VoiceLong::ports = {
    rSelf(VoiceLong, rEnabledBy(enabled)),
    rToggle(enabled, rDefault(false), "this voice is in use"),
    rParamI(vol, rDefault(5), "volume"),
};
#undef rObject

struct Voice {
    bool on = false; int vol = 5;
    static const Ports ports;
};
#define rObject Voice
const Ports Voice::ports = {
    rSelf(Voice, rEnabledBy(on)),
    rToggle(on, rDefault(false), "this voice is in use"),
    rParamI(vol, rDefault(5), "volume"),
};
#undef rObject

template<class V> struct Synth {
    V voice; int x = 0;
    static const Ports ports;
};
#define rObject Synth<VoiceLong>
template<> const Ports Synth<VoiceLong>::ports = {
    rRecur(voice, "the voice"),
    rParamI(x, rDefault(0), "x"),
};
#undef rObject
#define rObject Synth<Voice>
template<> const Ports Synth<Voice>::ports = {
    rRecur(voice, "the voice"),
    rParamI(x, rDefault(0), "x"),
};
#undef rObject

// The bug reads stack memory nobody has written; make its contents
// deterministic (non-zero) instead of depending on what happened before.
__attribute__((noinline)) static void dirty_stack()
{
    volatile char junk[400000];
    for(size_t i = 0; i < sizeof junk; ++i) junk[i] = 'J';
}

template<class S> static int untouched_saves_only_header(const char* what)
{
    S s;
    std::set<std::string> w;
    rtosc_version v{1,2,3};
    printf("saving untouched application (%s)...\n", what); fflush(stdout);
    dirty_stack();
    std::string f = save_to_file(S::ports, &s, "demo", v, w, {});
    const char* expect = "% RT OSC v0.3.1 savefile\n% demo v1.2.3\n";
    printf("[%s]\n", f.c_str());
    S t;
    int r = load_from_file(f.c_str(), S::ports, &t, "demo", v, NULL);
    printf("load_from_file: %d (expected 0)\n", r);
    return (f == expect && r == 0) ? 0 : 1;
}

int main()
{
    int bad = 0;
    bad += untouched_saves_only_header<Synth<VoiceLong>>("toggle called 'enabled'");
    // crashes (assertion with assertions enabled, stack-buffer-overflow /
    // garbage read with NDEBUG) on the unmodified library:
    bad += untouched_saves_only_header<Synth<Voice>>("toggle called 'on'");
    return bad;
}
