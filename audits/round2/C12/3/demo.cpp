// C12 audit, defect 3: on loading, the line of an array parameter ("/arr [..]")
// is looked up with Ports::apropos("/arr"), which answers with the first port
// whose name *starts with* "arr" - here the unrelated "arrange". The array's
// rDefaultDepends(preset) is therefore never seen, "/arr" is dispatched before
// "/preset", and the preset then overwrites the values just loaded.
#include <rtosc/rtosc.h>
#include <rtosc/ports.h>
#include <rtosc/savefile.h>
#include <rtosc/port-sugar.h>
#include <cstdio>
#include <cstring>
#include <cstdarg>
#include <set>
#include <string>
using namespace rtosc;

#ifdef CONTROL   // -DCONTROL: same tree, but the other port is called "zrrange"
#define arrange zrrange
#endif

// An effect with presets, modelled on test/default-value.cpp's Envelope:
// selecting a preset sets the values that depend on it.
struct Fx {
    int preset = 0;
    int arrange = 0;  // unrelated parameter, declared before "arr"
    int arr[4];
    void apply() { for(int i = 0; i < 4; ++i) arr[i] = (preset == 1) ? i : 0; }
    Fx() { apply(); }
    static const Ports ports;
};

#define rObject Fx
#undef  rChangeCb
#define rChangeCb obj->apply()
static const Port presetPort =
    rOption(preset, rOptions(soft, hard), rDefault(soft), "preset");
#undef  rChangeCb
#define rChangeCb

const Ports Fx::ports = {
    rParamI(arrange, rDefault(0), "unrelated parameter"),
    rArrayI(arr, 4, rDefaultDepends(preset),
            rPreset(0, [4x0]), rPreset(1, [0 1 2 3]), "depends on the preset"),
    presetPort,
};
#undef rObject

static void send(Fx& s, const char* path, const char* args, ...)
{
    char buf[256]; va_list va; va_start(va, args);
    rtosc_vmessage(buf, sizeof buf, path, args, va); va_end(va);
    char loc[256] = ""; RtData d; d.obj = &s; d.loc = loc; d.loc_size = sizeof loc;
    Fx::ports.dispatch(buf, d, true);
}

int main()
{
    rtosc_version v{1,2,3};
    std::set<std::string> w;

    Fx a;
    send(a, "/preset", "i", 1);   // arr becomes 0 1 2 3
    send(a, "/arr1", "i", 7);     // arr becomes 0 7 2 3
    std::string f = save_to_file(Fx::ports, &a, "demo", v, w, {});
    printf("state: preset=%d arr=%d %d %d %d\n%s\n",
           a.preset, a.arr[0], a.arr[1], a.arr[2], a.arr[3], f.c_str());

    Fx b;
    int r = load_from_file(f.c_str(), Fx::ports, &b, "demo", v, NULL);
    printf("load_from_file: %d (expected 2)\n", r);
    printf("restored: preset=%d arr=%d %d %d %d (expected preset=1 arr=0 7 2 3)\n",
           b.preset, b.arr[0], b.arr[1], b.arr[2], b.arr[3]);
    bool same = b.preset == a.preset && !memcmp(a.arr, b.arr, sizeof a.arr);
    return (r == 2 && same) ? 0 : 1;
}
