// C12 audit, defect 4: a savefile line whose address names no port of the
// application ("/alphabet 7") is not rejected: in a port table that is
// dispatched through the perfect hash (any table without '#' ports), the
// line is applied to the first port of the table if that port's name is a
// prefix of the address ("alpha").
#include <rtosc/rtosc.h>
#include <rtosc/ports.h>
#include <rtosc/savefile.h>
#include <rtosc/port-sugar.h>
#include <cstdio>
#include <cstring>
#include <set>
#include <string>
using namespace rtosc;

struct App {
    int alpha = 0; int beta = 0; float gamma = 0.f; int filter_cutoff = 0;
    static const Ports ports;
};
#define rObject App
const Ports App::ports = {
    rParamI(alpha, rDefault(0), "first"),
    rParamI(beta,  rDefault(0), "second"),
    rParamF(gamma, rDefault(0.0), "third"),
    rParamI(filter_cutoff, rDefault(0), "fourth"),
};
#undef rObject

static int try_file(const char* body, bool must_reject)
{
    std::string f = "% RT OSC v0.3.1 savefile\n% demo v1.2.3\n";
    f += body;
    App a;
    int r = load_from_file(f.c_str(), App::ports, &a, "demo", rtosc_version{1,2,3}, NULL);
    bool untouched = a.alpha == 0 && a.beta == 0 && a.gamma == 0.f && a.filter_cutoff == 0;
    printf("%-16s -> result %3d, alpha=%d beta=%d gamma=%g   %s\n", body, r,
           a.alpha, a.beta, a.gamma,
           must_reject ? ((r < 0) ? "rejected, ok" : "ACCEPTED although no such port exists")
                       : ((r > 0) ? "accepted, ok" : "REJECTED?"));
    if(must_reject) return (r < 0 && untouched) ? 0 : 1;
    return r > 0 ? 0 : 1;
}

int main()
{
    int bad = 0;
    bad += try_file("/alpha 7",     false);
    bad += try_file("/beta 7",      false);
    // lines no port accepts:
    bad += try_file("/betamax 7",   true);   // rejected (beta is not the first port)
    bad += try_file("/alph 7",      true);   // rejected
    bad += try_file("/alphabet 7",  true);   // accepted, sets alpha
    bad += try_file("/alpha2 7",    true);   // accepted, sets alpha
    bad += try_file("/alpha_old 7", true);   // accepted, sets alpha
    return bad;
}
