#!/bin/sh
# Builds demo.cpp against the worktree sources (no installed library needed) and runs it.
# Default: -DNDEBUG like the library's own Release/RelWithDebInfo builds.
# ASSERTS=1 ./build.sh  builds with assertions enabled instead.
set -e
HERE=$(cd "$(dirname "$0")" && pwd)
W=$(cd "$HERE/../.." && pwd)
T=$(mktemp -d)
trap 'rm -rf "$T"' EXIT
if [ -n "$ASSERTS" ]; then DEF=""; else DEF="-DNDEBUG"; fi
SAN="-g -O1 -fsanitize=address,undefined -fno-omit-frame-pointer"
sed 's/${VERSION_MAJOR}/0/;s/${VERSION_MINOR}/3/;s/${VERSION_PATCH}/1/' \
    "$W/src/cpp/version.c.in" > "$T/version.c"
for f in "$W"/src/rtosc.c "$W"/src/dispatch.c "$W"/src/rtosc-time.c \
         "$W"/src/cpp/arg-ext.c "$W"/src/cpp/arg-val-cmp.c "$W"/src/cpp/arg-val-itr.c \
         "$W"/src/cpp/arg-val-math.c "$W"/src/cpp/arg-val.c "$W"/src/cpp/pretty-format.c \
         "$W"/src/cpp/util.c "$T"/version.c; do
    gcc $SAN $DEF -I "$W/include" -c "$f" -o "$T/$(basename "$f").o"
done
g++ -std=c++17 $SAN $DEF -I "$W/include" "$HERE/demo.cpp" \
    "$W"/src/cpp/ports.cpp "$W"/src/cpp/ports-runtime.cpp "$W"/src/cpp/default-value.cpp \
    "$W"/src/cpp/savefile.cpp "$T"/*.o -o "$T/demo"
set +e
"$T/demo"
rc=$?
echo "exit code: $rc"
exit $rc
