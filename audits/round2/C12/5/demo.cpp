// C12 audit, defect 5: a string parameter declared with rString(name, 16384)
// can hold values the loader cannot take back: from 8180 characters on (for the
// address "/notes"; the limit moves with the length of the address), the
// application's own savefile is rejected (the rebuilt message does not fit the
// loader's 8192-byte buffer); from 8192 characters on, the scanner writes
// behind the loader's 8192-byte string buffer (heap-buffer-overflow).
#include <rtosc/rtosc.h>
#include <rtosc/ports.h>
#include <rtosc/savefile.h>
#include <rtosc/port-sugar.h>
#include <cstdio>
#include <cstring>
#include <cstdarg>
#include <set>
#include <string>
using namespace rtosc;

struct App {
    char notes[16384] = "";   // e.g. a free-text comment field of a patch
    int  x = 0;
    static const Ports ports;
};
#define rObject App
const Ports App::ports = {
    rString(notes, 16384, rDefault(""), "free text"),
    rParamI(x, rDefault(0), "x"),
};
#undef rObject

static App a, b; // (large objects: keep them off the stack)

static void send(App& s, const char* path, const char* args, ...)
{
    static char buf[20000]; va_list va; va_start(va, args);
    rtosc_vmessage(buf, sizeof buf, path, args, va); va_end(va);
    char loc[256] = ""; RtData d; d.obj = &s; d.loc = loc; d.loc_size = sizeof loc;
    App::ports.dispatch(buf, d, true);
}

static int round_trip(size_t len)
{
    std::string text(len, 'x');
    a = App(); b = App();
    send(a, "/notes", "s", text.c_str());
    send(a, "/x", "i", 3);
    if(strlen(a.notes) != len || a.x != 3) { puts("setup failed"); return 1; }
    std::set<std::string> w;
    rtosc_version v{1,2,3};
    std::string f = save_to_file(App::ports, &a, "demo", v, w, {});
    int r = load_from_file(f.c_str(), App::ports, &b, "demo", v, NULL);
    bool same = !strcmp(a.notes, b.notes) && a.x == b.x;
    printf("string of %5zu characters: savefile %5zu bytes, load_from_file = %6d (expected 2), state %s\n",
           len, f.size(), r, same ? "restored" : "NOT restored");
    fflush(stdout);
    return (r == 2 && same) ? 0 : 1;
}

int main()
{
    int bad = 0;
    bad += round_trip(100);
    bad += round_trip(8000);
    // find the first length whose savefile is not taken back
    size_t first_bad = 0;
    for(size_t len = 8150; len < 8192 && !first_bad; ++len)
        if(round_trip(len)) first_bad = len;
    if(first_bad) {
        printf("=> the first string length that cannot be loaded again is %zu "
               "(declared capacity: 16383)\n", first_bad);
        ++bad;
    }
    bad += round_trip(8191);   // own savefile rejected
    bad += round_trip(8192);   // heap-buffer-overflow in rtosc_scan_arg_val (assertion without NDEBUG)
    bad += round_trip(12000);
    return bad;
}
