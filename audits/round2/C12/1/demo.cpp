// C12 audit, defect 1: a char parameter (rParam) whose value is 0 cannot be
// written to a savefile: the line is cut off behind the opening quote and the
// file is rejected when loaded.
#include <rtosc/rtosc.h>
#include <rtosc/ports.h>
#include <rtosc/savefile.h>
#include <rtosc/port-sugar.h>
#include <cstdio>
#include <cstring>
#include <cstdarg>
#include <set>
#include <string>
using namespace rtosc;

struct Synth {
    char volume = 64; // rParam: char parameter, range 0..127
    int  other  = 5;
    static const Ports ports;
};
#define rObject Synth
const Ports Synth::ports = {
    // the default is noted the way the port replies it (doc/Guide.adoc,
    // "Default Values"): as a char
    rParam(volume, rDefault('@'), "volume, 0..127"),
    rParamI(other, rDefault(5), "another parameter, saved after volume"),
};
#undef rObject

static void send(Synth& s, const char* path, const char* args, ...)
{
    char buf[256]; va_list va; va_start(va, args);
    rtosc_vmessage(buf, sizeof buf, path, args, va); va_end(va);
    char loc[256] = ""; RtData d; d.obj = &s; d.loc = loc; d.loc_size = sizeof loc;
    Synth::ports.dispatch(buf, d, true);
}

int main()
{
    int bad = 0;
    std::set<std::string> w;
    rtosc_version v{1,2,3};

    // control: every other value of the declared range makes the round trip
    for(int val = 1; val < 128; ++val) {
        Synth a; send(a, "/volume", "c", val);
        w.clear();
        std::string f = save_to_file(Synth::ports, &a, "demo", v, w, {});
        Synth b; int r = load_from_file(f.c_str(), Synth::ports, &b, "demo", v, NULL);
        if(b.volume != a.volume || r != (val != 64)) { printf("control failed for %d\n", val); ++bad; }
    }

    // the failing state: volume turned down to its minimum, 0
    Synth a;
    send(a, "/volume", "c", 0);
    send(a, "/other", "i", 9);
    if(a.volume != 0 || a.other != 9) { puts("setup failed"); return 99; }
    w.clear();
    std::string f = save_to_file(Synth::ports, &a, "demo", v, w, {});
    printf("--- savefile for volume=0, other=9 ---\n%s\n--- end ---\n", f.c_str());

    Synth b;
    int r = load_from_file(f.c_str(), Synth::ports, &b, "demo", v, NULL);
    printf("load_from_file returned %d (expected 2); restored volume=%d (expected 0), other=%d (expected 9)\n",
           r, (int)b.volume, b.other);
    if(r != 2 || b.volume != 0 || b.other != 9) ++bad;
    return bad;
}
