// C15 audit, defect 3: recording after an undo drops the undone tail from the
// deque without releasing the event buffers (new char[] in recordEvent).
// Every undo-then-edit cycle leaks the undone events for the lifetime of the
// process; the history is capped at 20 entries, the memory behind it is not.
#include <rtosc/rtosc.h>
#include <rtosc/undo-history.h>
#include <cstdio>
#include <cstdlib>
#include <new>
#include <ctime>

static time_t fake_now = 1000;
extern "C" time_t time(time_t *t) { if(t) *t = fake_now; return fake_now; }

// count live array allocations (recordEvent is the only user of new[] here)
static long live_arrays = 0;
void *operator new[](size_t n) { ++live_arrays; void *p = malloc(n ? n : 1); if(!p) abort(); return p; }
void  operator delete[](void *p) noexcept { if(p) { --live_arrays; free(p); } }
void  operator delete[](void *p, size_t) noexcept { if(p) { --live_arrays; free(p); } }

static void record(rtosc::UndoHistory &h, const char *addr, int o, int n)
{
    char buf[128];
    rtosc_message(buf, sizeof(buf), "/undo_change", "sii", addr, o, n);
    h.recordEvent(buf);
}

int main()
{
    setvbuf(stdout, NULL, _IONBF, 0);
    const long before = live_arrays;
    long peak_live = 0;
    {
        rtosc::UndoHistory h;
        h.setCallback([](const char *) {});
        // an editing session: change two parameters, undo both, change another
        for(int round = 0; round < 1000; ++round) {
            record(h, "/a", 0, 1);
            record(h, "/b", 0, 1);
            h.seekHistory(-2);      // undo both
            record(h, "/c", round, round + 1); // discards the undone tail
            fake_now += 10;
            if(live_arrays - before > peak_live)
                peak_live = live_arrays - before;
        }
        printf("entries retained: %zu, live event buffers: %ld\n",
               h.size(), live_arrays - before);
        if(live_arrays - before != (long)h.size()) {
            printf("FAIL: %ld event buffers are alive for %zu retained events\n",
                   live_arrays - before, h.size());
        }
    }
    const long leaked = live_arrays - before;
    printf("event buffers still allocated after ~UndoHistory: %ld\n", leaked);
    if(leaked) {
        printf("PROPERTY VIOLATED (discarded tail never released)\n");
        return 1;
    }
    printf("ok\n");
    return 0;
}
