#!/bin/sh
# usage: ./build.sh   (run from anywhere)
set -e
HERE=$(cd "$(dirname "$0")" && pwd)
WT=$(cd "$HERE/../.." && pwd)
g++ -std=c++17 -g -w -fsanitize=address,undefined -I "$WT/include" \
    "$HERE/demo.cpp" "$WT"/src/*.c "$WT/src/cpp/undo-history.cpp" \
    -o "$HERE/demo"
"$HERE/demo"
