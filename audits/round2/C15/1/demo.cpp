// C15 audit, defect 1: merging two events for the same address whose values
// differ in encoded size (strings, blobs, or 4-byte vs 8-byte numbers)
// builds the merged event in a buffer sized for the *new* event only.
#include <rtosc/rtosc.h>
#include <rtosc/undo-history.h>
#include <cstdio>
#include <cstring>
#include <cstdlib>
#include <string>
#include <vector>
#include <ctime>

// controllable wall clock (the library calls time(NULL))
static time_t fake_now = 1000;
extern "C" time_t time(time_t *t) { if(t) *t = fake_now; return fake_now; }

struct Set { std::string addr; char type; std::string s; };

int main()
{
    rtosc::UndoHistory h;
    std::vector<Set> got;
    h.setCallback([&](const char *m) {
        Set x;
        x.addr = m;
        x.type = rtosc_type(m, 0);
        if(x.type == 's')
            x.s = rtosc_argument(m, 0).s;
        got.push_back(x);
    });

    char buf[256];
    // /name: "a long old name" -> "x"      (t = 1000)
    rtosc_message(buf, sizeof(buf), "/undo_change", "sss",
                  "/name", "a long old name", "x");
    h.recordEvent(buf);
    // /name: "x" -> "y"                    (same second: must merge)
    rtosc_message(buf, sizeof(buf), "/undo_change", "sss",
                  "/name", "x", "y");
    h.recordEvent(buf);

    int rc = 0;
    if(h.size() != 1 || h.getPos() != 1) {
        printf("FAIL: expected one merged event, size=%zu pos=%u\n",
               h.size(), h.getPos());
        rc = 1;
    }

    // the merged event must be (/name, "a long old name", "y")
    const char *ev = h.getHistory(0);
    if(!*ev) {
        // rtosc_amessage() refused to write: the buffer is all zeros
        printf("FAIL: the merged event is an empty (zeroed) buffer\n");
        rc = 1;
    } else if(strcmp(ev, "/undo_change")) {
        printf("FAIL: merged event is not an /undo_change message\n");
        rc = 1;
    }

    if(rc == 0) {
        h.seekHistory(-1);
        if(got.size() != 1 || got[0].addr != "/name" || got[0].type != 's' ||
           got[0].s != "a long old name") {
            printf("FAIL: undo did not emit /name s \"a long old name\"\n");
            rc = 1;
        }
        got.clear();
        h.seekHistory(+1);
        if(got.size() != 1 || got[0].addr != "/name" || got[0].type != 's' ||
           got[0].s != "y") {
            printf("FAIL: redo did not emit /name s \"y\"\n");
            rc = 1;
        }
    } else if(getenv("C15_SEEK_ANYWAY")) {
        // what a seek does with the damaged entry: assertion failure in
        // rtosc_argument_string() in a debug build, reads of the empty
        // message's neighbourhood with NDEBUG
        h.seekHistory(-1);
        for(auto &g : got)
            printf("undo emitted: address '%s' type 0x%02x value '%s'\n",
                   g.addr.c_str(), g.type, g.s.c_str());
    }

    // second-order effect of the repair that lets a merged event keep the old
    // value's own type: /freq takes d and f; d 440->441, then f 441->442
    {
        rtosc::UndoHistory h2;
        h2.setCallback([](const char *) {});
        rtosc_message(buf, sizeof(buf), "/undo_change", "sdd",
                      "/freq", 440.0, 441.0);
        h2.recordEvent(buf);
        rtosc_message(buf, sizeof(buf), "/undo_change", "sff",
                      "/freq", 441.0f, 442.0f);
        h2.recordEvent(buf);
        const char *e2 = h2.getHistory(0);
        if(h2.size() != 1 || !*e2) {
            printf("FAIL: d 440->441 + f 441->442: merged event is empty\n");
            rc = 1;
        } else if(rtosc_type(e2, 1) != 'd' || rtosc_argument(e2, 1).d != 440.0
               || rtosc_type(e2, 2) != 'f' || rtosc_argument(e2, 2).f != 442.0f) {
            printf("FAIL: d/f merge has wrong values\n");
            rc = 1;
        }
    }

    printf(rc ? "PROPERTY VIOLATED\n" : "ok\n");
    return rc;
}
