// C15 audit, defect 2: merging into an event whose old value has a type
// without payload (N, T, F, I) shifts the argument array: the merged event's
// new value is taken from the slot of the old value.
#include <rtosc/rtosc.h>
#include <rtosc/undo-history.h>
#include <cstdio>
#include <cstring>
#include <string>
#include <vector>
#include <ctime>

static time_t fake_now = 1000;
extern "C" time_t time(time_t *t) { if(t) *t = fake_now; return fake_now; }

struct Set { std::string addr; char type; int i; };

int main()
{
    rtosc::UndoHistory h;
    std::vector<Set> got;
    h.setCallback([&](const char *m) {
        got.push_back({m, rtosc_type(m, 0), rtosc_argument(m, 0).i});
    });

    char buf[256];
    // an optional parameter: unset (nil) -> 5
    rtosc_message(buf, sizeof(buf), "/undo_change", "sNi", "/limit", 5);
    h.recordEvent(buf);
    // the same parameter 5 -> 6 within the same second: merges
    rtosc_message(buf, sizeof(buf), "/undo_change", "sii", "/limit", 5, 6);
    h.recordEvent(buf);

    int rc = 0;
    if(h.size() != 1 || h.getPos() != 1) {
        printf("FAIL: expected one merged event, size=%zu pos=%u\n",
               h.size(), h.getPos());
        return 1;
    }
    const char *ev = h.getHistory(0);
    printf("merged event: %s %s \"%s\" new=%d\n", ev, rtosc_argument_string(ev),
           rtosc_argument(ev, 0).s, rtosc_argument(ev, 2).i);

    // first old value (nil), last new value (6)
    h.seekHistory(-1);
    if(got.size() != 1 || got[0].addr != "/limit" || got[0].type != 'N') {
        printf("FAIL: undo did not emit /limit N\n");
        rc = 1;
    }
    got.clear();
    h.seekHistory(+1);
    if(got.size() != 1 || got[0].addr != "/limit" || got[0].type != 'i' ||
       got[0].i != 6) {
        printf("FAIL: redo emitted %s %c %d, expected /limit i 6\n",
               got.empty() ? "(nothing)" : got[0].addr.c_str(),
               got.empty() ? '?' : got[0].type, got.empty() ? 0 : got[0].i);
        rc = 1;
    }

    // same with a switch that is either off (F) or a number
    rtosc::UndoHistory h2;
    std::vector<Set> got2;
    h2.setCallback([&](const char *m) {
        got2.push_back({m, rtosc_type(m, 0), rtosc_argument(m, 0).i});
    });
    rtosc_message(buf, sizeof(buf), "/undo_change", "sFi", "/voices", 3);
    h2.recordEvent(buf);
    rtosc_message(buf, sizeof(buf), "/undo_change", "sii", "/voices", 3, 8);
    h2.recordEvent(buf);
    h2.seekHistory(-1);
    h2.seekHistory(+1);
    if(got2.size() != 2 || got2[0].type != 'F' || got2[1].type != 'i' ||
       got2[1].i != 8) {
        printf("FAIL: F->3, 3->8 merged: redo emitted %c %d, expected i 8\n",
               got2.size() == 2 ? got2[1].type : '?',
               got2.size() == 2 ? got2[1].i : 0);
        rc = 1;
    }

    printf(rc ? "PROPERTY VIOLATED\n" : "ok\n");
    return rc;
}
