#!/bin/sh
set -e
HERE=$(cd "$(dirname "$0")" && pwd)
WT=$(cd "$HERE/../.." && pwd)
g++ -std=c++17 -g -w -I "$WT/include" "$HERE/maybe-demo.cpp" "$WT"/src/*.c \
    "$WT/src/cpp/undo-history.cpp" -o "$HERE/maybe-demo"
"$HERE/maybe-demo"
