// Reproductions for audit/maybe.md (prints what happens; always exits 0)
#include <rtosc/rtosc.h>
#include <rtosc/undo-history.h>
#include <cstdio>
#include <cstring>
#include <string>
#include <ctime>
static time_t fake_now = 1000;
extern "C" time_t time(time_t *t) { if(t) *t = fake_now; return fake_now; }
static void rec(rtosc::UndoHistory &h, const char *a, int o, int n)
{
    char buf[128];
    rtosc_message(buf, sizeof(buf), "/undo_change", "sii", a, o, n);
    h.recordEvent(buf);
}
static void show(const char *m)
{ printf("    emit %s %c %d\n", m, rtosc_type(m,0), rtosc_argument(m,0).i); }

int main()
{
    setvbuf(stdout, NULL, _IONBF, 0);
    {
        printf("M1 merged entry keeps its old position: undo order\n");
        rtosc::UndoHistory h; h.setCallback(show);
        rec(h, "/a", 0, 1); rec(h, "/b", 0, 1); rec(h, "/a", 1, 2);
        printf("  size %zu; seek(-1) undoes /b although /a 1->2 is the newest change:\n", h.size());
        h.seekHistory(-1);
    }
    {
        printf("M2 merged entry keeps its old position: eviction at the cap\n");
        rtosc::UndoHistory h; h.setCallback(show);
        rec(h, "/a", 0, 1);
        for(int i = 1; i < 20; ++i) { char a[16]; sprintf(a, "/b%d", i); rec(h, a, 0, 1); }
        rec(h, "/a", 1, 2);           // merged into slot 0
        rec(h, "/c", 0, 1);           // evicts slot 0 = /a 0->2
        printf("  oldest retained: %s (the /a change, second newest, is gone)\n",
               rtosc_argument(h.getHistory(0), 0).s);
    }
    {
        printf("M3 chain merging / one-second clock\n");
        rtosc::UndoHistory h; h.setCallback(show);
        for(int i = 0; i < 5; ++i) { rec(h, "/a", i, i+1); fake_now += 2; }
        printf("  5 events spread over 8 s (2 s apart): size %zu\n", h.size());
    }
    {
        printf("M4 clock stepping backwards\n");
        rtosc::UndoHistory h; h.setCallback(show);
        rec(h, "/a", 0, 1); fake_now -= 3600; rec(h, "/a", 1, 2);
        printf("  two events one hour apart (clock set back): size %zu\n", h.size());
        fake_now += 3600;
    }
    {
        printf("M5 recording from inside the seek callback (no guard in the library)\n");
        rtosc::UndoHistory h;
        int a = 0;
        h.setCallback([&](const char *m) {
            int nv = rtosc_argument(m, 0).i;
            show(m);
            if(nv != a) { int o = a; a = nv; rec(h, "/a", o, nv); } // what rCAPPLY does
        });
        rec(h, "/b", 0, 1); a = 1; rec(h, "/a", 0, 1); fake_now += 10;
        h.seekHistory(-1);
        printf("  after seek(-1): pos %u size %zu (redo is gone, the undo itself is an event)\n", h.getPos(), h.size());
        h.seekHistory(-1);
        printf("  second seek(-1): a=%d (toggles back instead of undoing /b)\n", a);
    }
    return 0;
}
