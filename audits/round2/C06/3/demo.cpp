// C06 audit 2, defect 3 (with doubt, see notes.md): a bundle handed out by
// read() is not delimited. read() returns only a pointer into read_buffer; the
// extent of a bundle is "up to the first zero length word", and read() leaves
// the tail of whatever longer message was read before right behind the bundle.
// The library's own accessors then see a longer bundle than the one written:
// fragments of an EARLIER message reappear as extra bundle elements.
#include <rtosc/rtosc.h>
#include <rtosc/thread-link.h>
#include <cstdio>
#include <cstring>

int main()
{
    rtosc::ThreadLink link(64, 8);

    char a[16], bundle[64];
    rtosc_message(a, sizeof a, "/a", "i", 1);
    const size_t lbun = rtosc_bundle(bundle, sizeof bundle, 1, 1, a); // 32 bytes
    const size_t nbun = rtosc_bundle_elements(bundle, sizeof bundle);  // 1
    if(lbun != 32 || nbun != 1) return 99;

    // an ordinary 56 byte message goes through first
    link.write("/long", "iiiiiiiii", 8,8,8,8,8,8,8,8,8);
    if(!link.hasNext() || strcmp(link.read(), "/long")) return 98;

    // now the bundle, alone in the ring
    link.raw_write(bundle);
    if(!link.hasNext()) return 97;
    const char *m = link.read();

    const size_t len  = rtosc_message_length(m, -1);
    const size_t elms = rtosc_bundle_elements(m, 64 /*MaxMsg*/);
    printf("written: %zu bytes, %zu element(s); read back: %zu bytes, %zu element(s)\n",
           lbun, nbun, len, elms);
    if(len != lbun || elms != nbun) {
        puts("FAIL: the bundle returned by read() is not the bundle that was written");
        return 1;
    }
    puts("ok");
    return 0;
}
