#!/bin/sh
# builds the demo against the worktree sources and runs it
set -e
here=$(cd "$(dirname "$0")" && pwd)
root=$(cd "$here/../.." && pwd)
out=$(mktemp -d)
trap 'rm -rf "$out"' EXIT
for f in "$root"/src/rtosc.c; do gcc -c -g -fsanitize=address,undefined -I "$root/include" "$f" -o "$out/$(basename "$f").o"; done
g++ -std=c++17 -g -fsanitize=address,undefined -I "$root/include" "$here/demo.cpp" "$root/src/cpp/thread-link.cpp" "$out"/*.o -o "$out/demo"
"$out/demo"
