// C06 audit 2, defect 2: a bundle of exactly the maximum message size, built
// in ThreadLink's own write buffer (buffer()/buffer_size(), the documented
// "raw write buffer access"), makes raw_write read past the end of that
// buffer: the bundle's length is found by scanning for a zero length word
// *behind* the bundle, i.e. at write_buffer[MaxMsg .. MaxMsg+3].
#include <rtosc/rtosc.h>
#include <rtosc/thread-link.h>
#include <cstdio>
#include <cstring>

int main()
{
    rtosc::ThreadLink link(48, 8);           // MaxMsg 48, ring 384

    char a[16], b[16], ref[64];
    rtosc_message(a, sizeof a, "/a", "i", 1);   // 12 bytes
    rtosc_message(b, sizeof b, "/b", "i", 2);   // 12 bytes

    // 16 + (4+12) + (4+12) = 48 bytes = MaxMsg = buffer_size(): it fits
    size_t len = rtosc_bundle(link.buffer(), link.buffer_size(), 1, 2, a, b);
    if(len != 48 || len != link.buffer_size()) return 99;
    memcpy(ref, link.buffer(), len);

    link.raw_write(link.buffer());           // ASan: heap-buffer-overflow here

    // without a sanitizer the outcome depends on the heap bytes behind
    // write_buffer: the bundle is accepted with junk appended, or dropped
    if(!link.hasNext()) { puts("FAIL: bundle of MaxMsg bytes was lost"); return 1; }
    const char *m = link.read();
    if(memcmp(m, ref, len)) { puts("FAIL: bundle differs"); return 1; }
    if(link.hasNext()) { puts("FAIL: junk queued behind the bundle"); return 1; }
    puts("ok");
    return 0;
}
