// C06 audit 2, defect 1: a bundle that has another message queued behind it
// cannot be framed by the reader: read() returns a stale buffer, consumes
// nothing, and hasNext() stays true for ever.
#include <rtosc/rtosc.h>
#include <rtosc/thread-link.h>
#include <cstdio>
#include <cstring>

int main()
{
    rtosc::ThreadLink link(64, 8);           // ring of 512 bytes, MaxMsg 64

    // two ordinary messages and a bundle of them, all built with the
    // library's own encoders (rtosc_bundle zeroes its whole buffer, which is
    // what makes rtosc_message_length(bundle,-1) in raw_write well defined)
    char a[32], b[32], bundle[64], first[32];
    size_t la = rtosc_message(a, sizeof a, "/a", "i", 1);
    size_t lb = rtosc_message(b, sizeof b, "/b", "i", 2);
    size_t lbun = rtosc_bundle(bundle, sizeof bundle, 1, 2, a, b);
    size_t lf = rtosc_message(first, sizeof first, "/first", "i", 7);
    if(!la || !lb || !lf || lbun != 16 + 4 + la + 4 + lb) return 99;

    // history: the writer gets three writes in before the reader polls
    link.raw_write(first);                   // ordinary message
    link.raw_write(bundle);                  // accepted: 40 bytes <= MaxMsg, fits
    link.write("/after", "i", 3);            // ordinary message behind it

    int fail = 0;

    // 1st read: /first
    if(!link.hasNext()) { puts("FAIL: nothing to read"); return 1; }
    const char *m = link.read();
    if(memcmp(m, first, lf)) { puts("FAIL: first message differs"); fail = 1; }

    // 2nd read: must be the bundle, byte for byte
    if(!link.hasNext()) { puts("FAIL: bundle lost"); return 1; }
    m = link.read();
    if(memcmp(m, bundle, lbun)) {
        printf("FAIL: 2nd read is not the bundle that was written, got '%s'\n", m);
        fail = 1;
    }

    // 3rd read: must be /after
    if(!link.hasNext()) { puts("FAIL: /after lost"); return 1; }
    m = link.read();
    if(strcmp(m, "/after")) {
        printf("FAIL: 3rd read is not /after, got '%s'\n", m);
        fail = 1;
    }

    // everything accepted has now been asked for: the queue must drain
    int extra = 0;
    while(link.hasNext() && extra < 1000) { link.read(); ++extra; }
    if(extra) {
        printf("FAIL: hasNext() still true after %d further reads "
               "(reader is stuck on the bundle)\n", extra);
        fail = 1;
    }
    if(!fail) puts("ok");
    return fail;
}
