// C02 / path_search builds the "/paths" reply; with reply_with_query it writes
// two entries more than the capacity it was given.
// exit 0: nothing outside [types, types+max_types) / [args, args+max_args) was
// written; exit 1: canaries behind the caller's arrays were overwritten;
// then the msgbuf overload runs (ASan: dynamic-stack-buffer-overflow).
#include <rtosc/rtosc.h>
#include <rtosc/ports.h>
#include <cstdio>
#include <cstring>
using namespace rtosc;

static void nop(const char *, RtData &) {}
static const Ports ports = {            // four child ports
    {"alpha::i", ":doc\0=a\0", nullptr, nop},
    {"beta::i",  ":doc\0=b\0", nullptr, nop},
    {"delta::i", ":doc\0=d\0", nullptr, nop},
    {"gamma::i", ":doc\0=c\0", nullptr, nop},
};

int main()
{
    setvbuf(stdout, NULL, _IONBF, 0);
    const size_t max_ports = 4;             // "Maximum number (or higher) of child ports"
    const size_t max_args  = max_ports * 2; // as documented and as the overload computes it
    const size_t max_types = max_args + 1;

    // caller's arrays, with canaries behind the announced capacity
    char        types[max_types + 8];
    rtosc_arg_t args[max_args + 4];
    memset(types, 0x7e, sizeof types);
    memset(args,  0x7e, sizeof args);

    path_search(ports, "", "", types, max_types, args, max_args,
                path_search_opts::unmodified, true /* reply_with_query */);

    int bad = 0;
    for(size_t i = max_types; i < sizeof types; ++i)
        if(types[i] != 0x7e) { printf("types[%zu] (capacity %zu) overwritten with '%c'\n", i, max_types, types[i]); ++bad; }
    for(size_t i = max_args; i < max_args + 4; ++i) {
        const unsigned char *p = (const unsigned char *)&args[i];
        for(size_t k = 0; k < sizeof(rtosc_arg_t); ++k)
            if(p[k] != 0x7e) { printf("args[%zu] (capacity %zu) overwritten\n", i, max_args); ++bad; break; }
    }
    if(bad) printf("%d entries written behind the capacity the caller announced\n", bad);

    // the convenience overload sizes its own arrays from max_ports and
    // overruns them the same way
    char q[64], reply[2048];
    rtosc_message(q, sizeof q, "/path-search", "ss", "", "");
    size_t n = path_search(ports, q, max_ports, reply, sizeof reply,
                           path_search_opts::unmodified, true);
    printf("reply: %zu bytes, types \"%s\"\n", n, n ? rtosc_argument_string(reply) : "");
    return bad != 0;
}
