#!/bin/sh
set -e
here=$(cd "$(dirname "$0")" && pwd)
root=$(cd "$here/../.." && pwd)
tmp=$(mktemp -d)
trap 'rm -rf "$tmp"' EXIT
. "$here/../cxxbuild.inc"
g++ -std=c++17 $SAN -w -I "$root/include" "$here/demo.cpp" "$tmp/librt.a" -o "$tmp/demo"
"$tmp/demo"
