// C02 / the message built for a blob port while loading a savefile:
// the blob payload is assembled in a fixed 8192-byte stack buffer without a
// bound. exit 0: the oversized array was refused (or handled) cleanly;
// ASan abort: the library wrote past its fixed buffer.
#include <rtosc/rtosc.h>
#include <rtosc/ports.h>
#include <rtosc/port-sugar.h>
#include <rtosc/savefile.h>
#include <cstdio>
#include <cstdlib>
#include <cstring>
#include <string>
using namespace rtosc;

static int got_len = -1;
static void wave_cb(const char *msg, RtData &)
{
    if(rtosc_narguments(msg) == 1 && rtosc_type(msg, 0) == 'b')
        got_len = rtosc_argument(msg, 0).b.len;
}
// a blob parameter as the documentation wants it: "::b" + rBlobType
static const Ports ports = {
    {"wave::b", rProp(parameter) rBlobType(f) rDoc("wave table"), nullptr, wave_cb},
};

static int load(int n)
{
    got_len = -1;
    std::string s = "/wave [" + std::to_string(n) + "x0.5]\n";
    int r = dispatch_printed_messages(s.c_str(), ports, nullptr, nullptr);
    printf("%5d floats: dispatch_printed_messages = %d, blob received = %d bytes\n",
           n, r, got_len);
    return r;
}

int main(int argc, char **argv)
{
    setvbuf(stdout, NULL, _IONBF, 0);
    // fits: 100 floats -> a 400 byte blob
    load(100);
    if(got_len != 400) return 2;
    // 2048 floats = 8192 bytes fill tmp_memory exactly (the message no longer
    // fits messagebuf[8192]; rtosc_amessage fails closed)
    load(2048);
    // 3000 floats = 12000 bytes: written into uint8_t tmp_memory[8192]
    load(argc > 1 ? atoi(argv[1]) : 3000);
    return 0;
}
