#!/bin/sh
set -e
here=$(cd "$(dirname "$0")" && pwd)
root=$(cd "$here/../.." && pwd)
tmp=$(mktemp -d)
trap 'rm -rf "$tmp"' EXIT
. "$here/../cxxbuild.inc"
g++ -std=c++17 $SAN -w -I "$root/include" "$here/demo.cpp" "$tmp/librt.a" -o "$tmp/demo"
rc=0
"$tmp/demo" || rc=$?
echo "--- undo on the damaged history (ASan)"
"$tmp/demo" crash 2>&1 | grep -E "ERROR|#[0-4] " || true
exit $rc
