// C02 / UndoHistory::recordEvent merges two events into a buffer whose
// capacity is the length of the *new* event; the merged event can be longer.
// exit 0: the history still holds a usable event and undo restores the old
// value; exit 1: the history entry is an all-zero "message"
// (then ASan: heap-buffer-overflow when undo parses it).
#include <rtosc/rtosc.h>
#include <rtosc/undo-history.h>
#include <cstdio>
#include <cstring>
#include <string>

static int run(const char *what, const char *e1, const char *e2,
               const char *expect_types)
{
    rtosc::UndoHistory h;
    std::string sent;
    h.setCallback([&](const char *m) { sent = m; });
    h.recordEvent(e1);
    h.recordEvent(e2);      // same address, within two seconds: merged into e1
    printf("%s: history size %zu, ", what, h.size());
    const char *ev = h.getHistory(0);
    if(!ev[0]) {
        printf("entry 0 is zero-filled (merged event did not fit its buffer)\n");
        return 1;
    }
    printf("entry 0 = %s %s\n", ev, rtosc_argument_string(ev));
    if(strcmp(rtosc_argument_string(ev), expect_types)) return 1;
    h.seekHistory(-1);
    return sent != "/name";
}

int main(int argc, char **argv)
{
    setvbuf(stdout, NULL, _IONBF, 0);
    char e1[256], e2[256];
    int bad = 0;

    // (a) string parameter: old value of the first event is longer than
    //     anything in the second event
    rtosc_message(e1, sizeof e1, "/undo_change", "sss", "/name",
                  "a rather long previous name", "x");
    rtosc_message(e2, sizeof e2, "/undo_change", "sss", "/name", "x", "y");
    bad += run("strings", e1, e2, "sss");

    // (b) one address, two argument types (the case the earlier repair
    //     "merged undo events keep the type of the old value" is about):
    //     old value 'h' (8 bytes), second event 'i' (4 bytes)
    rtosc_message(e1, sizeof e1, "/undo_change", "shh", "/name",
                  (int64_t)1, (int64_t)2);
    rtosc_message(e2, sizeof e2, "/undo_change", "sii", "/name", 2, 3);
    bad += run("h then i", e1, e2, "shi");

    if(argc > 1) {  // "crash": let undo parse the zero-filled entry
        rtosc::UndoHistory h;
        h.setCallback([](const char *) {});
        rtosc_message(e1, sizeof e1, "/undo_change", "shh", "/name", (int64_t)1, (int64_t)2);
        rtosc_message(e2, sizeof e2, "/undo_change", "sii", "/name", 2, 3);
        h.recordEvent(e1); h.recordEvent(e2);
        h.seekHistory(-1);
    }
    return bad != 0;
}
