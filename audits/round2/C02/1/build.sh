#!/bin/sh
# usage: sh build.sh   (run from anywhere)
set -e
here=$(cd "$(dirname "$0")" && pwd)
root=$(cd "$here/../.." && pwd)
tmp=$(mktemp -d)
trap 'rm -rf "$tmp"' EXIT
gcc -g -fsanitize=address,undefined -fno-sanitize-recover=undefined \
    -I "$root/include" "$here/demo.c" "$root/src/rtosc.c" -o "$tmp/demo"
rc=0
"$tmp/demo" || rc=$?
echo "--- heap variant (ASan: read behind the exact-size inner bundle)"
"$tmp/demo" heap || rc=$?
exit $rc
