/* C02 / nested bundle built at capacity == needed, then used as an element.
 * exit 0: property held; exit 1 (or ASan report): violated. */
#include <rtosc/rtosc.h>
#include <stdio.h>
#include <stdlib.h>
#include <string.h>

int main(int argc, char **argv)
{
    char m[32];
    size_t ml = rtosc_message(m, sizeof m, "/a", "i", 1);          /* 12 */
    const size_t inner_need = 16 + 4 + ml;                          /* 32 */

    if(argc > 1 && !strcmp(argv[1], "heap")) {
        /* variant for ASan: the inner bundle lives in an exact-size heap
         * block; rtosc_bundle() reads the 4 bytes behind it */
        char *inner = malloc(inner_need);
        if(rtosc_bundle(inner, inner_need, 7, 1, m) != inner_need) return 2;
        char out[256];
        size_t o = rtosc_bundle(out, sizeof out, 9, 1, inner);
        free(inner);
        return o != 16 + 4 + inner_need;
    }

    /* An arena of packed OSC data: the inner bundle is built with
     * capacity == needed (a capacity the property quantifies over), the
     * next object of the arena follows it directly. */
    char arena[256];
    memset(arena, 0, sizeof arena);
    size_t r = rtosc_bundle(arena, inner_need, 7, 1, m);
    if(r != inner_need) { printf("inner: %zu != %zu\n", r, inner_need); return 2; }
    /* the neighbour: anything whose first word is not 0, here a 12 byte record */
    arena[inner_need + 3] = 8;
    memcpy(arena + inner_need + 4, "ABCDEFG", 8);

    char out[256];
    size_t expect = 16 + 4 + inner_need;                            /* 52 */
    size_t o = rtosc_bundle(out, sizeof out, 9, 1, arena);
    printf("outer bundle: returned %zu, exact encoded size is %zu\n", o, expect);
    if(o != expect) {
        printf("element size word says %u, inner bundle is %zu bytes\n",
               (unsigned)(unsigned char)out[19], inner_need);
        return 1;
    }
    /* capacity == needed must succeed as well */
    char *exact = malloc(expect);
    o = rtosc_bundle(exact, expect, 9, 1, arena);
    free(exact);
    return o != expect;
}
