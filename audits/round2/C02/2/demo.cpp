// C02 / subtree_serialize (bundle construction into a caller's buffer of
// buffer_size bytes) crossed with every capacity 0..needed+8.
// exit 0: property held for every capacity; exit 1: violated.
#include <rtosc/rtosc.h>
#include <rtosc/ports.h>
#include <rtosc/port-sugar.h>
#include <rtosc/subtree-serialize.h>
#include <cstdio>
#include <cstring>
#include <cstdlib>
using namespace rtosc;

struct Obj { int a = 1, b = 2, c = 3; };
#define rObject Obj
static Ports ports = {
    rParamI(a, "first"),
    rParamI(b, "second"),
    rParamI(c, "third"),
};
#undef rObject

int main()
{
    Obj o;
    char big[1024];
    const size_t need = subtree_serialize(big, sizeof big, &o, &ports);
    printf("needed = %zu bytes, %zu elements\n", need,
           rtosc_bundle_elements(big, need));
    if(need != 64) return 2;

    int bad = 0;
    for(size_t cap = 0; cap <= need + 8; ++cap) {
        char *b = (char *)malloc(cap ? cap : 1);   // exact size: ASan guards it
        memset(b, 0xAA, cap);
        size_t r = subtree_serialize(b, cap, &o, &ports);
        if(cap < need) {
            size_t nz = 0;
            for(size_t k = 0; k < cap; ++k) nz += b[k] != 0;
            if(r != 0 || nz) {
                if(cap % 4 == 0 || cap == need - 1)
                    printf("capacity %2zu: returned %zu, %zu non-zero bytes left, "
                           "%zu complete element(s) readable\n",
                           cap, r, nz, (cap >= 20 && cap % 4 == 0) ? rtosc_bundle_elements(b, cap) : 0);
                ++bad;
            }
        } else if(r != need) {
            printf("capacity %2zu: returned %zu instead of %zu\n", cap, r, need);
            ++bad;
        }
        free(b);
    }
    printf("%d capacities violate the property\n", bad);
    return bad != 0;
}
