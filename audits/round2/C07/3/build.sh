#!/bin/sh
here=$(cd "$(dirname "$0")" && pwd)
root=$(cd "$here/../.." && pwd)
out=$(mktemp -d)
trap 'rm -rf "$out"' EXIT
gcc -std=gnu11 -O1 -g -DNDEBUG -fsanitize=address -I "$root/include" \
    "$here/demo.c" "$root/src/rtosc.c" -o "$out/demo" || exit 77
"$out/demo"
