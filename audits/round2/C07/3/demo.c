// Property C07, second sentence: "Whenever the validity predicate accepts a
// buffer, every accessor ... returns what an independent OSC decoder returns
// for the same bytes."
//
// rtosc_valid_message_p accepts type-tag strings that contain bytes which are
// no OSC type at all (any byte that is not one of  i f s b h t d S c r m T F
// N I [ ]  -- control characters and bytes >= 0x80 included).  An independent
// decoder cannot decode such a message (it does not know how many payload
// bytes the tag owns; OSC 1.0: "an OSC application should discard any message
// whose OSC Type Tag String contains any unrecognized OSC Type Tags"), while
// rtosc's accessors count the tag as an argument, hand its byte out as the
// argument's type and decode all *following* arguments on the guess that the
// unknown one occupies zero bytes.
#include <rtosc/rtosc.h>
#include <stdio.h>
#include <stdlib.h>
#include <string.h>
#include <stdint.h>

// independent decoder: 1 = decodable OSC message, fills narg/types
static int ref_decode(const uint8_t *b, size_t n, unsigned *narg, char *types)
{
    *narg = 0;
    if(n == 0 || n % 4 || b[0] != '/') return 0;
    size_t p = 0; while(p < n && b[p]) p++;
    if(p == n) return 0;
    size_t e = (p + 4) & ~(size_t)3;
    if(e >= n || b[e] != ',') return 0;
    size_t q = e; while(q < n && b[q]) q++;
    if(q == n) return 0;
    size_t pos = (q + 4) & ~(size_t)3;
    if(pos > n) return 0;
    for(size_t t = e + 1; t < q; t++) {
        switch(b[t]) {
            case '[': case ']': continue;
            case 'T': case 'F': case 'N': case 'I': break;
            case 'i': case 'f': case 'c': case 'r': case 'm': pos += 4; break;
            case 'h': case 't': case 'd': pos += 8; break;
            case 's': case 'S': {
                size_t s = pos; while(s < n && b[s]) s++;
                if(s >= n) return 0;
                pos += (s - pos + 4) & ~(size_t)3; break; }
            case 'b': {
                if(pos + 4 > n) return 0;
                uint32_t L = (uint32_t)b[pos]<<24 | (uint32_t)b[pos+1]<<16 | (uint32_t)b[pos+2]<<8 | b[pos+3];
                pos += 4;
                if(L > n - pos) return 0;
                pos += ((size_t)L + 3) & ~(size_t)3; break; }
            default: return 0;              // not an OSC type: undecodable
        }
        if(pos > n) return 0;
        types[(*narg)++] = b[t];
    }
    return pos == n;
}

static int one(const char *name, const char *bytes, size_t n)
{
    char *m = malloc(n); memcpy(m, bytes, n);     // exact-size copy (ASan)
    unsigned rn; char rt[64];
    int ref = ref_decode((uint8_t*)m, n, &rn, rt);
    int lib = rtosc_valid_message_p(m, n);
    printf("%-34s reference: %s   rtosc_valid_message_p: %d", name,
           ref ? "decodes" : "REJECTS", lib);
    int bad = 0;
    if(lib && !ref) {
        bad = 1;
        unsigned na = rtosc_narguments(m);
        printf("\n    accessors nevertheless report %u argument(s):", na);
        for(unsigned i = 0; i < na; i++) {
            char t = rtosc_type(m, i);
            printf(" [%u] type 0x%02x", i, (unsigned char)t);
            if(t == 'i') printf(" value %d", rtosc_argument(m, i).i);
        }
    }
    printf("\n");
    free(m);
    return bad;
}

int main(void)
{
    int bad = 0;
    bad |= one("control byte as type tag",   "/\0\0\0,\x01\0\0", 8);
    bad |= one("0xff as type tag",           "/\0\0\0,\xff\0\0", 8);
    bad |= one("'x' then int 42",            "/\0\0\0,xi\0\0\0\0\x2a", 12);
    bad |= one("',' inside the type tags",   "/\0\0\0,,i\0\0\0\0\x2a", 12);
    bad |= one("control sanity: ',i' 42",    "/\0\0\0,i\0\0\0\0\0\x2a", 12);
    printf(bad ? "VIOLATION: accepted buffers that no OSC decoder can decode\n" : "ok\n");
    return bad;
}
