// Property C07, clause: "For an arbitrary byte buffer of length n, the
// message-length and message-validity functions read only inside those n
// bytes, terminate ..."
//
// n = 2^32 + 4096, every byte printable and non-NUL ("/aaaa....").
//   A) rtosc_valid_message_p must answer false after reading at most n bytes.
//      It runs off the end of the buffer (SIGSEGV on the guard page).
//   B) rtosc_message_length must terminate with 0.  It never returns.
//
// The buffer is built from one 16 MiB memfd mapped over and over again, so the
// demo needs ~16 MiB of real memory, not 4 GiB.
#define _GNU_SOURCE
#include <rtosc/rtosc.h>
#include <stdio.h>
#include <stdlib.h>
#include <string.h>
#include <signal.h>
#include <setjmp.h>
#include <unistd.h>
#include <sys/mman.h>

static sigjmp_buf jb;
static volatile sig_atomic_t got;
static char *guard;
static void on_sig(int s, siginfo_t *si, void *u)
{
    (void)u;
    got = s;
    if(s == SIGSEGV && (char*)si->si_addr != guard) _exit(99); // unrelated crash
    siglongjmp(jb, 1);
}

int main(void)
{
    const size_t chunk = 16u<<20;
    const size_t n     = ((size_t)1<<32) + 4096;          // buffer length
    const size_t span  = ((n + chunk-1)/chunk)*chunk;      // mapped span
    int fd = memfd_create("c07", 0);
    if(fd < 0 || ftruncate(fd, chunk)) { perror("memfd"); return 77; }
    char *fill = mmap(NULL, chunk, PROT_READ|PROT_WRITE, MAP_SHARED, fd, 0);
    if(fill == MAP_FAILED) { perror("mmap"); return 77; }
    memset(fill, 'a', chunk);
    munmap(fill, chunk);

    // [ lead | n bytes of message | guard page ] ; the message ends exactly
    // at the guard page so that any read at index >= n faults
    char *base = mmap(NULL, span + 4096, PROT_NONE,
                      MAP_PRIVATE|MAP_ANONYMOUS|MAP_NORESERVE, -1, 0);
    if(base == MAP_FAILED) { perror("reserve"); return 77; }
    for(size_t off = 0; off < span; off += chunk)
        if(mmap(base+off, chunk, PROT_READ|PROT_WRITE, MAP_PRIVATE|MAP_FIXED,
                fd, 0) == MAP_FAILED) { perror("map chunk"); return 77; }
    guard     = base + span;
    char *msg = guard - n;
    msg[0] = '/';                                          // private COW page

    struct sigaction sa; memset(&sa, 0, sizeof sa);
    sa.sa_sigaction = on_sig; sa.sa_flags = SA_SIGINFO|SA_NODEFER;
    sigaction(SIGSEGV, &sa, NULL);
    sigaction(SIGALRM, &sa, NULL);

    int bad = 0;

    // ---- A: validity predicate
    if(!sigsetjmp(jb, 1)) {
        bool v = rtosc_valid_message_p(msg, n);
        printf("A: rtosc_valid_message_p(msg, 2^32+4096) = %d (ok, expected 0)\n", v);
        if(v) bad |= 1;
    } else {
        printf("A: VIOLATION: rtosc_valid_message_p read msg[n] "
               "(SIGSEGV on the guard page behind the buffer)\n");
        bad |= 1;
    }

    // ---- B: length function
    unsigned budget = 45; // one pass over 4 GiB takes 5..15 s
    if(!sigsetjmp(jb, 1)) {
        alarm(budget);
        size_t L = rtosc_message_length(msg, n);
        alarm(0);
        printf("B: rtosc_message_length(msg, 2^32+4096) = %zu (ok, expected 0)\n", L);
        if(L > n) bad |= 2;
    } else {
        printf("B: VIOLATION: rtosc_message_length did not return within %u s "
               "(32 bit position wrapped to 0, scan restarts for ever)\n", budget);
        bad |= 2;
    }
    return bad;
}
