#!/bin/sh
# usage: ./build.sh            (from anywhere)
set -e
here=$(cd "$(dirname "$0")" && pwd)
root=$(cd "$here/../.." && pwd)
out=$(mktemp -d)
trap 'rm -rf "$out"' EXIT
# no sanitizer here: the buffer is 4 GiB of aliased mappings with a PROT_NONE
# guard page behind it, which detects the overrun exactly
gcc -std=gnu11 -O2 -g -DNDEBUG -I "$root/include" "$here/demo.c" "$root/src/rtosc.c" -o "$out/demo"
"$out/demo"
