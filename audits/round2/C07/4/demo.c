// Property C07, second sentence: "Whenever the validity predicate accepts a
// buffer, every accessor ... returns what an independent OSC decoder returns
// for the same bytes."   (The quantification names "non-zero padding".)
//
// OSC 1.0: an OSC-string is "a sequence of non-null ASCII characters followed
// by a null, followed by 0-3 additional null characters"; a blob is followed
// by "0-3 additional zero bytes".  rtosc_valid_message_p checks the padding of
// the address only; non-zero bytes in the padding of the type-tag string, of a
// string argument and of a blob argument are accepted.  An independent decoder
// that implements the definition (liblo: LO_EPAD) rejects these buffers, and a
// decoder that finds the end of a string by looking at the last byte of each
// 32 bit word (oscpack) places the following arguments somewhere else.
#include <rtosc/rtosc.h>
#include <stdio.h>
#include <stdlib.h>
#include <string.h>
#include <stdint.h>

static int zero(const uint8_t *b, size_t from, size_t to)
{ for(size_t k = from; k < to; k++) if(b[k]) return 0; return 1; }

// independent decoder following the OSC 1.0 definitions to the letter
static int ref_decode(const uint8_t *b, size_t n)
{
    if(n == 0 || n % 4 || b[0] != '/') return 0;
    size_t p = 0; while(p < n && b[p]) p++;
    if(p == n) return 0;
    size_t e = (p + 4) & ~(size_t)3;
    if(!zero(b, p, e) || e >= n || b[e] != ',') return 0;
    size_t q = e; while(q < n && b[q]) q++;
    if(q == n) return 0;
    size_t pos = (q + 4) & ~(size_t)3;
    if(pos > n || !zero(b, q, pos)) return 0;
    for(size_t t = e + 1; t < q; t++) {
        switch(b[t]) {
            case '[': case ']': case 'T': case 'F': case 'N': case 'I': break;
            case 'i': case 'f': case 'c': case 'r': case 'm': pos += 4; break;
            case 'h': case 't': case 'd': pos += 8; break;
            case 's': case 'S': {
                size_t s = pos; while(s < n && b[s]) s++;
                if(s >= n) return 0;
                size_t e2 = pos + ((s - pos + 4) & ~(size_t)3);
                if(e2 > n || !zero(b, s, e2)) return 0;
                pos = e2; break; }
            case 'b': {
                if(pos + 4 > n) return 0;
                uint32_t L = (uint32_t)b[pos]<<24 | (uint32_t)b[pos+1]<<16 | (uint32_t)b[pos+2]<<8 | b[pos+3];
                pos += 4;
                if(L > n - pos) return 0;
                size_t e2 = pos + (((size_t)L + 3) & ~(size_t)3);
                if(e2 > n || !zero(b, pos + L, e2)) return 0;
                pos = e2; break; }
            default: return 0;
        }
        if(pos > n) return 0;
    }
    return pos == n;
}

static int one(const char *name, const char *bytes, size_t n)
{
    char *m = malloc(n); memcpy(m, bytes, n);     // exact-size copy (ASan)
    int ref = ref_decode((uint8_t*)m, n);
    int lib = rtosc_valid_message_p(m, n);
    printf("%-40s reference: %s   rtosc_valid_message_p: %d\n", name,
           ref ? "decodes" : "REJECTS", lib);
    if(lib && !ref) {
        unsigned na = rtosc_narguments(m);
        for(unsigned i = 0; i < na; i++) {
            char t = rtosc_type(m, i);
            rtosc_arg_t a = rtosc_argument(m, i);
            if(t == 's') printf("    rtosc arg %u: s \"%s\" at offset %ld\n", i, a.s, (long)(a.s - m));
            if(t == 'i') printf("    rtosc arg %u: i %d\n", i, a.i);
            if(t == 'b') printf("    rtosc arg %u: b len %d at offset %ld\n", i, a.b.len, (long)((char*)a.b.data - m));
        }
    }
    free(m);
    return lib && !ref;
}

int main(void)
{
    int bad = 0;
    bad |= one("type-tag padding  \",i\\0X\"",
               "/\0\0\0" ",i\0X" "\0\0\0\x2a", 12);
    bad |= one("string padding    \"ab\\0X\" then int",
               "/\0\0\0" ",si\0" "ab\0X" "\0\0\0\x2a", 16);
    bad |= one("string padding    \"ab\\0c\" \"d\\0\\0\\0\"",
               "/\0\0\0" ",ss\0" "ab\0c" "d\0\0\0", 16);
    bad |= one("blob padding      len 1 'Z' \"XYZ\"",
               "/\0\0\0" ",b\0\0" "\0\0\0\1" "ZXYZ", 16);
    bad |= one("control: address padding \"/a\\0X\"",
               "/a\0X" ",\0\0\0", 8);
    bad |= one("control: clean message",
               "/\0\0\0" ",si\0" "ab\0\0" "\0\0\0\x2a", 16);
    printf(bad ? "VIOLATION: accepted buffers whose padding is not zero\n" : "ok\n");
    return bad;
}
