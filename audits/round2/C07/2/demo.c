// Property C07: the length/validity functions and the accessors must have
// defined behaviour on arbitrary bytes.  Every place that assembles a
// big-endian 32 bit word does   x |= (byte << 24)   with `byte` promoted to a
// *signed* int; for byte >= 0x80 that shift is undefined (C11 6.5.7p4).
//
// case 1: rtosc_message_length on a blob whose size field starts with 0x80
//         (the "blob lengths 0x7fffffff..0xffffffff" class)       rtosc.c:650
// case 2: rtosc_message_length on a bundle whose element size is 0xffffffff
//                                                                  rtosc.c:565
// case 3: a *valid* message "/ ,i -1": rtosc_argument              rtosc.c:480
// case 4: the same through the iterator                            rtosc.c:480
#include <rtosc/rtosc.h>
#include <stdio.h>
#include <stdlib.h>
#include <string.h>

static char *exact(const char *b, size_t n) { char *m = malloc(n); memcpy(m, b, n); return m; }

const char *__asan_default_options(void) { return "detect_leaks=0"; }

int main(int argc, char **argv)
{
    int c = argc > 1 ? atoi(argv[1]) : 0;
    if(c == 1) {
        static const char b[] = "/\0\0\0,b\0\0\x80\0\0\0";
        char *m = exact(b, 12);
        size_t L = rtosc_message_length(m, 12);
        printf("case 1: length=%zu\n", L);
        return L == 0 ? 0 : 1;
    }
    if(c == 2) {
        static const char b[] = "#bundle\0" "\0\0\0\0\0\0\0\1" "\xff\xff\xff\xff";
        char *m = exact(b, 20);
        size_t L = rtosc_message_length(m, 20);
        printf("case 2: length=%zu\n", L);
        return L == 0 ? 0 : 1;
    }
    if(c == 3 || c == 4) {
        static const char b[] = "/\0\0\0,i\0\0\xff\xff\xff\xff";
        char *m = exact(b, 12);
        if(!rtosc_valid_message_p(m, 12)) { printf("not accepted?\n"); return 2; }
        int32_t v;
        if(c == 3)
            v = rtosc_argument(m, 0).i;
        else {
            rtosc_arg_itr_t it = rtosc_itr_begin(m);
            v = rtosc_itr_next(&it).val.i;
        }
        printf("case %d: value=%d\n", c, v);
        return v == -1 ? 0 : 1;
    }
    return 0;
}
