#!/bin/sh
set -u
here=$(cd "$(dirname "$0")" && pwd)
root=$(cd "$here/../.." && pwd)
out=$(mktemp -d)
trap 'rm -rf "$out"' EXIT
gcc -std=gnu11 -O1 -g -DNDEBUG -fsanitize=address,undefined -fno-sanitize-recover=all \
    -I "$root/include" "$here/demo.c" "$root/src/rtosc.c" -o "$out/demo" || exit 77
rc=0
for c in 1 2 3 4; do
    "$out/demo" $c; s=$?
    echo "  -> case $c exit status $s"
    [ $s -eq 0 ] || rc=1
done
exit $rc
