// C19 audit, defect 3: AutomationMgr(slots, per_slot, control_points) allocates
// `control_points` floats per mapping, but every binding writes FOUR floats
// (two (x,y) control points) and setSlotSub reads them back.  A manager built
// for two control points -- all the linear gain/offset mapping ever uses
// (upoints = 2) -- overflows its heap block in createBinding.
#include <rtosc/ports.h>
#include <rtosc/automations.h>
#include <rtosc/port-sugar.h>
#include <cstdio>
#include <cstring>

struct Obj { float foo; };
#define rObject Obj
static rtosc::Ports ports = {
    rParamF(foo, rLinear(-1, 10), "float"),
};

int main()
{
    float got = -100;
    rtosc::AutomationMgr mgr(2, 1, 2); // two control points
    mgr.set_ports(ports);
    mgr.backend = [&got](const char *m) { got = rtosc_argument(m, 0).f; };
    mgr.createBinding(0, "/foo", false);  // heap-buffer-overflow (write)
    mgr.setSlot(0, 1.0f);                 // heap-buffer-overflow (read)
    printf("slot value 1 -> %g (want 10)\n", got);
    return got == 10.0f ? 0 : 1;
}
