#include <rtosc/ports.h>
#include <rtosc/automations.h>
#include <rtosc/port-sugar.h>
#include <cstdio>
#include <cmath>
struct Obj { float foo; float big; };
#define rObject Obj
static rtosc::Ports ports = { rParamF(foo, rLinear(0, 16383), "f"), rParamF(big, rLog(1, 3.4028235e38), "f"), };
int main(){
  rtosc::AutomationMgr mgr(3,1,16); mgr.set_ports(ports);
  mgr.backend=[](const char*m){ printf("  emit %s %g\n", m, rtosc_argument(m,0).f); };
  mgr.createBinding(0,"/foo",true);
  mgr.handleMidi(0,99,1); mgr.handleMidi(0,98,2); mgr.handleMidi(0,6,64); printf("learn step:\n"); mgr.handleMidi(0,38,0);
  printf("nrpn=%d\nsame value again:\n", mgr.slots[0].midi_nrpn);
  mgr.handleMidi(0,38,0);
  // full slot + learn
  mgr.createBinding(1,"/foo",false); mgr.createBinding(1,"/foo",true);
  printf("slot1 learning=%d (full slot, asked for learn)\n", mgr.slots[1].learning);
  mgr.createBinding(2,"/big",false); mgr.setSlot(2,1.0f);
  mgr.setSlot(0, NAN);
}
