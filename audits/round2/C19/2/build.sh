#!/bin/sh
# builds demo.cpp against the worktree sources directly and runs it
set -e
HERE=$(cd "$(dirname "$0")" && pwd)
WT=$(cd "$HERE/../.." && pwd)
T=$(mktemp -d)
trap 'rm -rf "$T"' EXIT
for f in "$WT"/src/rtosc.c "$WT"/src/dispatch.c "$WT"/src/rtosc-time.c \
         "$WT"/src/cpp/util.c "$WT"/src/cpp/pretty-format.c \
         "$WT"/src/cpp/arg-ext.c "$WT"/src/cpp/arg-val.c \
         "$WT"/src/cpp/arg-val-math.c "$WT"/src/cpp/arg-val-cmp.c \
         "$WT"/src/cpp/arg-val-itr.c; do
    gcc -std=gnu99 -g -w -fsanitize=address,undefined -I "$WT/include" \
        -c "$f" -o "$T/$(basename "$f").o"
done
g++ -std=c++17 -g -w -fsanitize=address,undefined -I "$WT/include" \
    "$HERE/demo.cpp" "$WT/src/cpp/ports.cpp" "$WT/src/cpp/ports-runtime.cpp" \
    "$WT/src/cpp/automations.cpp" "$T"/*.o -o "$T/demo"
"$T/demo"
