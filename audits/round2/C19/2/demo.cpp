// C19 audit, defect 2: a (finite) gain or offset large enough to overflow the
// float control points makes the slot emit NaN (float parameters) or INT_MIN
// (integer parameters): the clamp `if(v > mx) .. else if(v < mn)` lets NaN by.
#include <rtosc/ports.h>
#include <rtosc/automations.h>
#include <rtosc/port-sugar.h>
#include <cstdio>
#include <cstring>
#include <cmath>
#include <vector>
#include <string>

struct Obj { float foo; int iv; unsigned char ch; };
#define rObject Obj
static rtosc::Ports ports = {
    rParamF(foo, rLinear(-1, 10), "float"),
    rParamI(iv,  rLinear(0, 1000), "int"),
    rParam(ch, "char 0..127"),
};

static std::vector<std::string> msgs;

static int in_range(const char *what)
{
    int bad = 0;
    for(auto &s : msgs) {
        const char *m = s.c_str();
        char t = rtosc_type(m, 0);
        double v, lo, hi;
        if(!strcmp(m, "/foo"))      { lo = -1; hi = 10;   v = rtosc_argument(m,0).f; bad += t != 'f'; }
        else if(!strcmp(m, "/iv"))  { lo = 0;  hi = 1000; v = rtosc_argument(m,0).i; bad += t != 'i'; }
        else if(!strcmp(m, "/ch"))  { lo = 0;  hi = 127;  v = rtosc_argument(m,0).i; bad += t != 'c'; }
        else { printf("unexpected address %s\n", m); return 1; }
        int ok = (v >= lo && v <= hi); // false for NaN
        printf("%-34s %-4s -> %g %s\n", what, m, v, ok ? "ok" : "OUT OF [min,max]");
        bad += !ok;
    }
    msgs.clear();
    return bad;
}

int main()
{
    rtosc::AutomationMgr mgr(2, 3, 16);
    mgr.set_ports(ports);
    mgr.backend = [](const char *m) {
        msgs.push_back(std::string(m, rtosc_message_length(m, 256))); };
    mgr.createBinding(0, "/foo", false);
    mgr.createBinding(0, "/iv",  false);
    mgr.createBinding(0, "/ch",  false);

    int bad = 0;
    mgr.setSlot(0, 0.5f);
    bad += in_range("default gain, value 0.5");

    // finite gain, finite slot value inside [0,1]
    for(int sub = 0; sub < 3; ++sub) {
        mgr.setSlotSubGain(0, sub, 1e38f);
        mgr.updateMapping(0, sub);
    }
    mgr.setSlot(0, 0.0f); bad += in_range("gain 1e38, value 0");
    mgr.setSlot(0, 0.5f); bad += in_range("gain 1e38, value 0.5");
    mgr.setSlot(0, 1.0f); bad += in_range("gain 1e38, value 1");

    // finite offset
    for(int sub = 0; sub < 3; ++sub) {
        mgr.setSlotSubGain(0, sub, 100.0f);
        mgr.setSlotSubOffset(0, sub, 3e38f);
        mgr.updateMapping(0, sub);
    }
    mgr.setSlot(0, 0.5f); bad += in_range("offset 3e38, value 0.5");

    printf("%d violation(s)\n", bad);
    return bad ? 1 : 0;
}
