// C19 audit, defect 1: integer parameters whose bounds a float cannot hold
// are mapped through float control points -> the slot cannot reach max,
// or cannot move the parameter at all.
#include <rtosc/ports.h>
#include <rtosc/automations.h>
#include <rtosc/port-sugar.h>
#include <cstdio>
#include <cstring>
#include <cmath>

struct Obj { int wide; int narrow; int odd; };
#define rObject Obj
static rtosc::Ports ports = {
    rParamI(narrow, rLinear(2000000000, 2000000100), "100 wide, near 2e9"),
    rParamI(wide,   rLinear(100000000, 100000010),   "10 wide, near 1e8"),
    rParamI(odd,    rLinear(0, 16777217),            "max = 2^24+1"),
};

static int  last_i;
static char last_type;
static char last_addr[128];
static int  nmsg;

static int check(rtosc::AutomationMgr &mgr, int slot, const char *addr,
                 float value, double want)
{
    nmsg = 0;
    mgr.setSlot(slot, value);
    int bad = 0;
    if(nmsg != 1 || strcmp(last_addr, addr) || last_type != 'i')
        bad = 1;
    // linear map min + value*(max-min), rounded to the nearest integer;
    // allow one unit of slack for the rounding
    if(fabs((double)last_i - want) > 1.0)
        bad = 1;
    printf("%-8s slot value %.2f -> %d (want %.0f) %s\n", addr, value, last_i,
           want, bad ? "VIOLATION" : "ok");
    return bad;
}

int main()
{
    rtosc::AutomationMgr mgr(4, 2, 16);
    mgr.set_ports(ports);
    mgr.backend = [](const char *m) {
        ++nmsg;
        strncpy(last_addr, m, sizeof(last_addr)-1);
        last_type = rtosc_type(m, 0);
        last_i    = rtosc_argument(m, 0).i;
    };
    mgr.createBinding(0, "/narrow", false);
    mgr.createBinding(1, "/wide",   false);
    mgr.createBinding(2, "/odd",    false);

    int bad = 0;
    bad += check(mgr, 0, "/narrow", 0.0f, 2000000000.0);
    bad += check(mgr, 0, "/narrow", 0.5f, 2000000050.0);
    bad += check(mgr, 0, "/narrow", 1.0f, 2000000100.0);
    bad += check(mgr, 1, "/wide",   0.0f, 100000000.0);
    bad += check(mgr, 1, "/wide",   1.0f, 100000010.0);
    bad += check(mgr, 2, "/odd",    0.0f, 0.0);
    bad += check(mgr, 2, "/odd",    1.0f, 16777217.0);
    printf("%d violation(s)\n", bad);
    return bad ? 1 : 0;
}
