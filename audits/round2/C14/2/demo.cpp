// C14 / defect 2: rArrayFCb clamps and compares in a `float` local whatever
// the element type is (rParamFCb uses the field's own type).  With `double`
// elements the stored value exceeds the declared maximum, and a change of the
// stored value goes unreported.
#include "capture.h"
using namespace rtosc;

struct Obj {
    double single  = 0.05;                 // rParamF, control
    double arr[4]  = {0.05, 0.05, 0.05, 0.05};
    double free1   = 0.3;                  // rParamF without bounds, control
    double freeA[2]= {0.3, 0.3};           // rArrayF without bounds
    static const Ports ports;
};

#define rObject Obj
const Ports Obj::ports = {
    rParamF(single,   rLinear(0, 0.1), "scalar, double storage"),
    rArrayF(arr, 4,   rLinear(0, 0.1), "array,  double storage"),
    rParamF(free1,                     "scalar, no bounds"),
    rArrayF(freeA, 2,                  "array,  no bounds"),
};
#undef rObject

static int failures = 0;
static void check(const char *what, bool ok)
{
    printf("%-66s %s\n", what, ok ? "ok" : "VIOLATED");
    if(!ok) ++failures;
}

static Capture send(Obj &o, const char *path, float v)
{
    char msg[256];
    rtosc_message(msg, sizeof(msg), path, "f", v);
    Capture d(&o);
    Obj::ports.dispatch(msg, d, true);
    return d;
}

int main()
{
    Obj o;
    const double max = 0.1; // what rLinear(0, 0.1) declares; atof("0.1")

    // (a) beyond the maximum: the stored value must be the maximum
    send(o, "/single", 5.0f);
    printf("single = %.17g\n", o.single);
    check("rParamF double, rLinear(0,0.1), set 5: stored == 0.1 (control)", o.single == max);

    send(o, "/arr1", 5.0f);
    printf("arr[1] = %.17g\n", o.arr[1]);
    check("rArrayF double, rLinear(0,0.1), set 5: stored <= declared max", o.arr[1] <= max);
    check("rArrayF double, rLinear(0,0.1), set 5: stored == 0.1", o.arr[1] == max);
    check("   neighbours untouched", o.arr[0] == 0.05 && o.arr[2] == 0.05 && o.arr[3] == 0.05);

    // (b) exactly one undo event iff the stored value changed
    const float in = 0.3f;                       // 0.300000011920928955...
    {
        double before = o.free1;
        Capture d = send(o, "/free1", in);
        bool changed = before != o.free1;
        printf("free1: %.17g -> %.17g, %d undo event(s)\n", before, o.free1, d.undo_events());
        check("rParamF double: undo event iff stored value changed (control)",
              d.undo_events() == (changed ? 1 : 0));
    }
    {
        double before = o.freeA[1];
        Capture d = send(o, "/freeA1", in);
        bool changed = before != o.freeA[1];
        printf("freeA[1]: %.17g -> %.17g, %d undo event(s)\n", before, o.freeA[1], d.undo_events());
        check("rArrayF double: undo event iff stored value changed",
              d.undo_events() == (changed ? 1 : 0));
    }

    printf("%s\n", failures ? "FAIL: property C14 violated" : "PASS");
    return failures ? 1 : 0;
}
