// Minimal RtData that records every message handed to reply()/broadcast().
// It only overrides the two "finished message" hooks, like the library's own
// tests do; the varargs front-ends are the library's (src/cpp/ports.cpp).
#pragma once
#include <rtosc/rtosc.h>
#include <rtosc/ports.h>
#include <rtosc/port-sugar.h>
#include <cctype>
#include <cstdio>
#include <cstring>
#include <string>
#include <vector>

struct Rec {
    std::string raw;   // complete OSC message ("" if an empty one was delivered)
    bool        bcast;
    const char *path() const { return raw.c_str(); }
    std::string types() const { return raw.empty() ? "" : rtosc_argument_string(raw.data()); }
    rtosc_arg_t arg(int i) const { return rtosc_argument(raw.data(), i); }
};

struct Capture : rtosc::RtData {
    char locbuf[1024];
    std::vector<Rec> out;
    bool in_bcast = false;
    Capture(void *o) {
        memset(locbuf, 0, sizeof(locbuf));
        loc = locbuf; loc_size = sizeof(locbuf); obj = o;
    }
    using rtosc::RtData::reply;
    using rtosc::RtData::broadcast;
    void reply(const char *m) override {
        size_t n = *m ? rtosc_message_length(m, (size_t)-1) : 0;
        out.push_back({std::string(m, n), in_bcast});
    }
    void broadcast(const char *m) override { in_bcast = true; reply(m); in_bcast = false; }

    int undo_events() const {
        int n = 0;
        for(auto &r : out) if(!strcmp(r.path(), "/undo_change")) ++n;
        return n;
    }
    const Rec *first(bool bcast, const char *path) const {
        for(auto &r : out) if(r.bcast == bcast && !strcmp(r.path(), path)) return &r;
        return nullptr;
    }
};
