#!/bin/sh
# Builds the demo against the worktree sources directly (no cmake) and runs it.
# Exit status: 0 = property held for the demonstrated cases, non-zero = violated.
set -e
cd "$(dirname "$0")"
ROOT=../..
OUT=$(mktemp -d)
trap 'rm -rf "$OUT"' EXIT
SAN="-g -w -fsanitize=address,undefined"
# C part of the library (C99).  -fno-sanitize=shift only silences an unrelated
# report in rtosc.c:480 (byte << 24 on a negative int argument); it does not
# influence the demo's verdict.
for f in $ROOT/src/*.c $ROOT/src/cpp/*.c; do
    gcc -std=gnu99 $SAN -fno-sanitize=shift -I $ROOT/include -c "$f" -o "$OUT/$(basename "$f").o"
done
for f in ports.cpp ports-runtime.cpp; do
    g++ -std=c++17 $SAN -I $ROOT/include -c $ROOT/src/cpp/$f -o "$OUT/$f.o"
done
g++ -std=c++17 $SAN -I $ROOT/include demo.cpp "$OUT"/*.o -o "$OUT/demo"
"$OUT/demo"
