// C14 / defect 3: RtData::reply(path,args,...) / broadcast(path,args,...)
// format into a fixed char[8192] and pass the buffer on without looking at the
// result.  A string parameter whose declared length allows more than ~8170
// characters is stored correctly, but the broadcast of the change and the
// reply to a query are delivered as an EMPTY message.
#include "capture.h"
using namespace rtosc;

struct Obj {
    char text[9000];
    static const Ports ports;
};

#define rObject Obj
const Ports Obj::ports = {
    rString(text, 9000, "a long text (declared length 9000)"),
};
#undef rObject

static int failures = 0;
static void check(const char *what, bool ok)
{
    printf("%-62s %s\n", what, ok ? "ok" : "VIOLATED");
    if(!ok) ++failures;
}

static char msg[32768];

static void round_trip(Obj &o, size_t n)
{
    printf("--- string of %zu characters\n", n);
    std::string s(n, 'x');

    // set
    rtosc_message(msg, sizeof(msg), "/text", "s", s.c_str());
    Capture set(&o);
    Obj::ports.dispatch(msg, set, true);
    check("stored value is the incoming string", s == o.text);
    const Rec *b = set.first(true, "/text");
    if(!b)
        for(auto &r : set.out)
            printf("    delivered instead: %s message of %zu bytes, address '%s'\n",
                   r.bcast ? "broadcast" : "reply", r.raw.size(), r.path());
    check("change is broadcast at /text with the new value",
          b && b->types() == "s" && s == b->arg(0).s);

    // query
    rtosc_message(msg, sizeof(msg), "/text", "");
    Capture get(&o);
    Obj::ports.dispatch(msg, get, true);
    const Rec *r = get.first(false, "/text");
    if(!r)
        for(auto &x : get.out)
            printf("    delivered instead: %s message of %zu bytes, address '%s'\n",
                   x.bcast ? "broadcast" : "reply", x.raw.size(), x.path());
    check("query replies the stored value at /text",
          r && r->types() == "s" && s == r->arg(0).s);
    check("query changes nothing", s == o.text);
}

int main()
{
    Obj o;
    memset(o.text, 0, sizeof(o.text));

    round_trip(o, 100);    // fine
    round_trip(o, 8179);   // largest string whose message still fits 8192 bytes
    round_trip(o, 8180);   // one more: still far below the declared length
    round_trip(o, 8999);   // the declared length (9000 incl. terminator)

    printf("%s\n", failures ? "FAIL: property C14 violated" : "PASS");
    return failures ? 1 : 0;
}
