// maybe-item: hashed dispatch hands a message for a NON-EXISTENT address to a
// macro parameter port whose name is a prefix of it.
#include "capture.h"
using namespace rtosc;

struct Obj {
    int b   = 0;
    int vol = 0;
    static const Ports ports;
};
#define rObject Obj
const Ports Obj::ports = {
    rParamI(b,   "b"),
    rParamI(vol, "vol"),
};
#undef rObject

int main()
{
    Obj o;
    char msg[256];
    int bad = 0;
    const char *addrs[] = {"/ba", "/bx", "/b_", "/b7"};
    for(const char *a : addrs) {
        rtosc_message(msg, sizeof(msg), a, "i", 5);
        o.b = 0;
        Capture d(&o);
        Obj::ports.dispatch(msg, d, true);
        printf("%-4s i 5 : matches=%d  b=%d", a, d.matches, o.b);
        for(auto &r : d.out)
            printf("  | %s %s", r.bcast ? "broadcast" : "reply", r.path());
        printf("\n");
        if(d.matches || o.b) ++bad;
    }
    printf("%s\n", bad ? "FAIL: a message for an address that does not exist changed /b"
                       : "PASS");
    return bad ? 1 : 0;
}
