// C14 / defect 1: rLIMIT narrows the declared bound to the storage type before
// comparing, so a bound that lies outside the storage type wraps around and
// every in-range value is "clamped" to garbage.
#include "capture.h"
using namespace rtosc;

struct Obj {
    short       gain    = 1;            // rParamI on a 16 bit field
    signed char depth   = 1;            // rParam   on a signed char
    short       tab[3]  = {1, 1, 1};    // rArrayI  on 16 bit elements
    static const Ports ports;
};

#define rObject Obj
const Ports Obj::ports = {
    // "at most 40000": no restriction at all for a short from above
    rParamI(gain,  rLinear(0, 40000),        "16 bit gain"),
    // the application's own range (takes precedence over 0..127)
    rParam (depth, rLinear(0, 200),          "depth"),
    rArrayI(tab, 3, rLinear(-40000, 40000),  "table"),
};
#undef rObject

static int failures = 0;

template<class T>
static void expect(const char *what, T got, T want)
{
    bool ok = got == want;
    printf("%-52s got %6d, property demands %6d  %s\n", what, (int)got, (int)want,
           ok ? "ok" : "VIOLATED");
    if(!ok) ++failures;
}

static Capture send(Obj &o, const char *path, const char *type, int v)
{
    char msg[256];
    rtosc_message(msg, sizeof(msg), path, type, v);
    Capture d(&o);
    Obj::ports.dispatch(msg, d, true);
    return d;
}

int main()
{
    Obj o;

    // 5 is representable in every storage type involved and lies inside every
    // declared range, so clamp(5, min, max) == 5.
    {
        Capture d = send(o, "/gain", "i", 5);
        expect("rParamI short, rLinear(0,40000), set 5: stored", o.gain, (short)5);
        const Rec *b = d.first(true, "/gain");
        expect("   broadcast value", b ? b->arg(0).i : -999, 5);
        for(auto &r : d.out) if(!strcmp(r.path(), "/undo_change"))
            expect("   undo event new value", r.arg(2).i, 5);
    }
    {
        send(o, "/depth", "c", 5);
        expect("rParam signed char, rLinear(0,200), set 5: stored", o.depth, (signed char)5);
    }
    {
        send(o, "/tab1", "i", 5);
        expect("rArrayI short[3], rLinear(-40000,40000), set 5: tab[1]", o.tab[1], (short)5);
        send(o, "/tab2", "i", -5);
        expect("rArrayI short[3], rLinear(-40000,40000), set -5: tab[2]", o.tab[2], (short)-5);
    }

    printf("%s\n", failures ? "FAIL: property C14 violated" : "PASS");
    return failures ? 1 : 0;
}
