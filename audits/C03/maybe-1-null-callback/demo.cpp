// A port declared without a callback (as test/default-value.cpp does for
// metadata-only tables) and a message that matches it.
#include "hook.h"
#include <rtosc/rtosc.h>
#include <rtosc/ports.h>
#include <exception>
using namespace rtosc;
static const Ports ports = {
    {"A::i", ":documentation\0=described only\0", NULL, NULL},
    {"B::i", ":documentation\0=normal\0", NULL, [](const char*, RtData&){}},
};
int main(){
    char buf[64], loc[128] = {0};
    rtosc_message(buf, sizeof buf, "/A", "i", 1);
    for(int withloc = 0; withloc < 2; ++withloc) {
        RtData d; d.loc = loc; d.loc_size = withloc ? sizeof loc : 0;
        try { RT r(withloc ? "hashed+loc" : "simple"); ports.dispatch(buf, d, true); }
        catch(std::exception &e) { g_rt = 0; fprintf(stderr, "dispatch threw %s\n", e.what()); }
    }
    fprintf(stderr, "allocs=%ld frees=%ld locks=%ld\n", g_allocs, g_frees, g_locks);
    return rt_total() ? 1 : 0;
}
