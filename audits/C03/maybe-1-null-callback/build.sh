#!/bin/sh
set -e
W=$(cd "$(dirname "$0")/../.." && pwd)
T=$(mktemp -d); trap 'rm -rf "$T"' EXIT
for f in $W/src/*.c $W/src/cpp/*.c; do gcc -std=gnu99 -w -g -O1 -I$W/include -c $f -o $T/$(basename $f).o; done
for f in ports ports-runtime; do g++ -std=c++17 -w -g -O1 -I$W/include -c $W/src/cpp/$f.cpp -o $T/$f.o; done
g++ -std=c++17 -w -g -O1 -I$W/include "$(dirname "$0")/demo.cpp" $T/*.o -ldl -o $T/demo
$T/demo
