// Build WITHOUT -DNDEBUG (what a plain `cmake -S . -B build` gives): an option
// port with bounds receives a symbol that is not one of its options.
#include "hook.h"
#include <rtosc/rtosc.h>
#include <rtosc/ports.h>
#include <rtosc/port-sugar.h>
using namespace rtosc;
struct O { int mode; static const Ports ports; };
#define rObject O
const Ports O::ports = { rOption(mode, rOptions(sine, saw, square), rLinear(0,2), "waveform") };
#undef rObject
int main(){
    O o{}; char buf[64], loc[128] = {0};
    rtosc_message(buf, sizeof buf, "/mode", "S", "triangle");
    RtData d; d.obj = &o; d.loc = loc; d.loc_size = sizeof loc;
    { RT r("unknown symbol"); O::ports.dispatch(buf, d, true); }
    fprintf(stderr, "allocs=%ld frees=%ld locks=%ld mode=%d\n", g_allocs, g_frees, g_locks, o.mode);
    return rt_total() ? 1 : 0;
}
