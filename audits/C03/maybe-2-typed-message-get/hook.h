// allocation / lock observer, counted only inside the realtime section
#pragma once
#include <cstdlib>
#include <cstdio>
#include <cstring>
#include <dlfcn.h>
#include <pthread.h>
#include <new>
extern "C" {
void *__libc_malloc(size_t); void __libc_free(void*); void *__libc_calloc(size_t,size_t);
void *__libc_realloc(void*,size_t); void *__libc_memalign(size_t,size_t);
}
static volatile int g_rt = 0;
static volatile long g_allocs = 0, g_frees = 0, g_locks = 0;
static const char *g_tag = "";
static void hit(volatile long &c, const char *what){ if(g_rt){ ++c; int s=g_rt; g_rt=0; fprintf(stderr,"  [RT %s] %s\n", g_tag, what); g_rt=s; } }
extern "C" void *malloc(size_t n){ hit(g_allocs,"malloc"); return __libc_malloc(n);}
extern "C" void free(void *p){ if(p) hit(g_frees,"free"); __libc_free(p);}
extern "C" void *calloc(size_t a,size_t b){ hit(g_allocs,"calloc"); return __libc_calloc(a,b);}
extern "C" void *realloc(void*p,size_t n){ hit(g_allocs,"realloc"); return __libc_realloc(p,n);}
extern "C" void *memalign(size_t a,size_t n){ hit(g_allocs,"memalign"); return __libc_memalign(a,n);}
extern "C" void *aligned_alloc(size_t a,size_t n){ hit(g_allocs,"aligned_alloc"); return __libc_memalign(a,n);}
extern "C" int posix_memalign(void**p,size_t a,size_t n){ hit(g_allocs,"posix_memalign"); *p=__libc_memalign(a,n); return *p?0:12;}
void *operator new(size_t n){ hit(g_allocs,"operator new"); void*p=__libc_malloc(n?n:1); if(!p) abort(); return p;}
void *operator new[](size_t n){ hit(g_allocs,"operator new[]"); void*p=__libc_malloc(n?n:1); if(!p) abort(); return p;}
void operator delete(void*p) noexcept { if(p) hit(g_frees,"operator delete"); __libc_free(p);}
void operator delete[](void*p) noexcept { if(p) hit(g_frees,"operator delete[]"); __libc_free(p);}
void operator delete(void*p,size_t) noexcept { if(p) hit(g_frees,"operator delete"); __libc_free(p);}
void operator delete[](void*p,size_t) noexcept { if(p) hit(g_frees,"operator delete[]"); __libc_free(p);}
extern "C" int pthread_mutex_lock(pthread_mutex_t *m){
    static int (*real)(pthread_mutex_t*) = 0;
    if(!real) real = (int(*)(pthread_mutex_t*))dlsym(RTLD_NEXT,"pthread_mutex_lock");
    hit(g_locks,"pthread_mutex_lock"); return real(m);}
struct RT { RT(const char*t){g_tag=t; g_rt=1;} ~RT(){g_rt=0;} };
static long rt_total(){ return g_allocs+g_frees+g_locks; }
