// Reading a message through the typed accessor when it does not fit the spec.
#include "hook.h"
#include <rtosc/rtosc.h>
#include <rtosc/typed-message.h>
#include <exception>
using namespace rtosc;
int main(){
    char buf[64];
    rtosc_message(buf, sizeof buf, "/x", "f", 1.0);
    try { RT r("typed get"); rtMsg<const char*, int32_t> m(buf); (void)first(m); }
    catch(std::exception &e) { g_rt = 0; fprintf(stderr, "get threw %s\n", e.what()); }
    fprintf(stderr, "allocs=%ld frees=%ld locks=%ld\n", g_allocs, g_frees, g_locks);
    return rt_total() ? 1 : 0;
}
