#!/bin/sh
# Broad allocation/lock sweep over the message path (exit 0 = nothing observed).
set -e
W=$(cd "$(dirname "$0")/../.." && pwd)
T=$(mktemp -d); trap 'rm -rf "$T"' EXIT
for f in $W/src/*.c $W/src/cpp/*.c; do gcc -std=gnu99 -g -O1 -DNDEBUG -I$W/include -c $f -o $T/$(basename $f).o; done
for f in ports ports-runtime thread-link; do g++ -std=c++17 -g -O1 -DNDEBUG -I$W/include -c $W/src/cpp/$f.cpp -o $T/$f.o; done
g++ -std=c++17 -g -O1 -DNDEBUG -I$W/include $W/audit/sweep/sweep.cpp $T/*.o -ldl -o $T/sweep
$T/sweep
