#include "hook.h"
#include <rtosc/rtosc.h>
#include <rtosc/ports.h>
#include <rtosc/port-sugar.h>
#include <rtosc/thread-link.h>
#include <cctype>
#include <climits>
using namespace rtosc;

struct Sub {
    float f; int i; unsigned char c; bool t; int opt; char str[16];
    float af[4]; int ai[4]; bool at[4]; int ao[4]; short as[4];
    void act(){} void acti(int){}
    static const Ports ports;
};
#define rObject Sub
const Ports Sub::ports = {
    rParamF(f, rLinear(-1.5,1e40), "f"),
    rParamI(i, rLinear(-2147483648,2147483647), "i"),
    rParam(c, "c"),
    rToggle(t, "t"),
    rOption(opt, rOptions(alpha,beta,gamma), "o"),
    rString(str, 16, "s"),
    rArrayF(af, 4, rLinear(0,1), "af"),
    rArrayI(ai, 4, rMap(max, 7), "ai"),
    rArrayT(at, 4, "at"),
    rArrayOption(ao, 4, rOptions(x1,x2,x3), "ao"),
    rArrayI(as, 4, rMap(min, -99999999999999999999999999999999), "as"),
    rAction(act, "a"),
    rActioni(acti, "a"),
    rEnabledCondition(cond, obj->t),
    rSelf(Sub),
    rDummy(dummy),
};
#undef rObject
struct Top {
    Sub sub; Sub *psub; Sub subs[3]; Sub *psubs[3]; int v; int arr[4];
    static const Ports ports;
    static const Ports enumd;
};
#define rObject Top
const Ports Top::ports = {   // no '#' -> hashed table
    rRecur(sub, "sub"),
    rRecurp(psub, "psub"),
    rParamI(v, "v"),
    {"verylongportnameverylongportnameverylongportnameverylongportname::i", rDoc("x"), NULL, [](const char*, RtData&d){ d.reply(d.loc?d.loc:"/x","i",1);} },
    {"bc:", rDoc("x"), NULL, [](const char*m, RtData&d){ d.broadcast("/bc","sTFNIhtdcrmb","x",(int64_t)1,(uint64_t)2,2.0,'c',3,"\1\2\3\4",4,"abcd"); d.chain("/a","i",1); d.chain(m); d.forward(); d.replyArray("/a","",0); d.broadcast(m);} },
};
const Ports Top::enumd = {   // has '#' -> linear table
    rRecurs(subs, 3, "subs"),
    rRecursp(psubs, 3, "psubs"),
    rParams(arr, 4, "arr"),
    rRecur(sub, "sub"),
};
#undef rObject

static int dh_calls;
struct WithDefault : Ports { WithDefault():Ports({{"known:i",":documentation\0=x\0",NULL,[](const char*,RtData&d){d.reply("/k","i",1);}},{"other",0,0,[](const char*,RtData&){}}}){ default_handler=[](const char*,RtData&d){++dh_calls; d.reply("/default","");}; } };

struct CountData : RtData { int n=0; char last[8192]; void reply(const char*m) override { ++n; memcpy(last,m,16);} using RtData::reply; };

static void disp(const Ports &p, void *obj, const char *msg, bool withloc, const char *tag)
{
    CountData d; char loc[1024]; memset(loc,0,sizeof loc);
    d.obj=obj; d.loc=loc; d.loc_size = withloc ? sizeof loc : 0;
    { RT r(tag); p.dispatch(msg,d,true); }
}

int main()
{
    Top top; memset(&top,0,sizeof top); top.psub=&top.sub; for(int i=0;i<3;i++) top.psubs[i]=&top.subs[i];
    WithDefault wd;
    ThreadLink tl(256, 4);
    char buf[16384], b2[16384], big[9000];
    memset(big,'x',sizeof big); big[sizeof big-1]=0;

    // ---- building / measuring / reading
    {
        uint8_t midi[4]={1,2,3,4};
        RT r("build");
        size_t n=rtosc_message(buf,sizeof buf,"/p","ihtdfcrmsSbTFNI[ii]",1,(int64_t)2,(uint64_t)3,4.0,5.0,'c',7,midi,"s","S",3,"abc",8,9);
        rtosc_message(NULL,0,"/p","s",big);
        rtosc_message(buf+8192,10,"/p","s",big);
        rtosc_message(buf+8192,8192,"/p","b",INT_MAX-8,NULL);
        rtosc_message_length(buf,n); rtosc_message_length(buf,-1); rtosc_message_length(buf,3);
        rtosc_valid_message_p(buf,n); rtosc_valid_message_p(buf,n-1);
        unsigned na=rtosc_narguments(buf);
        for(unsigned i=0;i<na;i++){ rtosc_type(buf,i); rtosc_argument(buf,i);}
        rtosc_arg_itr_t it=rtosc_itr_begin(buf); while(!rtosc_itr_end(it)) rtosc_itr_next(&it);
        size_t m=rtosc_message(b2,sizeof b2,"/q","");
        size_t bl=rtosc_bundle(buf+4096,4096,77,2,buf,b2);
        rtosc_bundle(buf+8192,8,77,2,buf,b2);
        rtosc_bundle_elements(buf+4096,bl); rtosc_bundle_fetch(buf+4096,1); rtosc_bundle_size(buf+4096,1); rtosc_bundle_size(buf+4096,7);
        rtosc_bundle_p(buf+4096); rtosc_bundle_timetag(buf+4096); rtosc_message_length(buf+4096,bl);
        (void)m;
        // wide variadic
        char types[3000]; memset(types,'i',2999); types[2999]=0;
        rtosc_arg_t *aa=(rtosc_arg_t*)(buf+8192); memset(aa,0,4000);
        rtosc_amessage(NULL,0,"/w",types,(rtosc_arg_t*)b2);
    }
    // ---- matching
    {
        RT r("match");
        rtosc_message(buf,sizeof buf,"/a/b3/c","i",1);
        const char *e;
        const char *pats[]={"a/","b#4/","c::i:f","{x,c}:i","*","a*/","b#4","c:","c::T:F","#","{","{a","b#99999999999999999999/","x#0"};
        for(auto p:pats){ rtosc_match(p,buf+1,&e); rtosc_match(p,"b3/c",NULL); rtosc_match_path(p,"c",&e); }

    }
    // ---- dispatch
    const char *paths[]={"/v","/sub/f","/sub/i","/sub/c","/sub/t","/sub/opt","/sub/str","/sub/af2","/sub/ai3","/sub/at0","/sub/ao1","/sub/as1","/sub/act","/sub/acti","/sub/cond","/sub/self","/sub/dummy","/sub","/psub/f","/psub/opt","/nomatch","/sub/nomatch","/","/sub/","/sub/af9","/sub/af","/verylongportnameverylongportnameverylongportnameverylongportname","/bc","/verylongportnameverylongportnameverylongportnameverylongportnameX","/sub/ai99999999999999999999","v","/v/","/sub/ai3/x",
        "/subs1/f","/subs2/opt","/subs3/f","/psubs0/ai2","/psubs2/str","/arr1","/arr","/arr4","/sub/ao2","/subs/f","/subs0","/subs0/"};
    struct A{const char*t; int kind;} args[]={{"",0},{"i",1},{"f",2},{"c",1},{"T",0},{"F",0},{"s",3},{"S",3},{"S",4},{"S",5},{"ii",1},{"N",0},{"I",0},{"h",6},{"d",7},{"b",8},{"m",9},{"t",6},{"r",1},{"[i]",1},{"s",10}};
    int vals[]={0,-1,1,127,128,255,256,INT_MAX,INT_MIN,5};
    const Ports *tabs[]={&Top::ports,&Top::enumd};
    for(auto tab:tabs) for(auto p:paths) for(auto&a:args) for(int v:vals) for(int loc=0;loc<2;loc++){
        size_t n=0; uint8_t midi[4]={1,2,3,4};
        switch(a.kind){
            case 0: n=rtosc_message(buf,sizeof buf,p,a.t); break;
            case 1: n=(strlen(a.t)==2&&a.t[0]=='i')?rtosc_message(buf,sizeof buf,p,a.t,v,v):rtosc_message(buf,sizeof buf,p,a.t,v); break;
            case 2: n=rtosc_message(buf,sizeof buf,p,a.t,(double)v*1e30f); break;
            case 3: n=rtosc_message(buf,sizeof buf,p,a.t,"beta"); break;
            case 4: n=rtosc_message(buf,sizeof buf,p,a.t,"x3"); break;
            case 5: n=rtosc_message(buf,sizeof buf,p,a.t,"nosuchsymbol"); break;
            case 6: n=rtosc_message(buf,sizeof buf,p,a.t,(int64_t)v<<33); break;
            case 7: n=rtosc_message(buf,sizeof buf,p,a.t,(double)v); break;
            case 8: n=rtosc_message(buf,sizeof buf,p,a.t,4,"abcd"); break;
            case 9: n=rtosc_message(buf,sizeof buf,p,a.t,midi); break;
            case 10: n=rtosc_message(buf,sizeof buf,p,a.t,big+1000); break; // ~8000 char string: reply overflows 8192 buffer
        }
        if(!n) continue;
        // unknown symbols trip an assert-free path only with NDEBUG; skip the two assert cases
        if(a.kind==5 && (strstr(p,"opt")||strstr(p,"ao"))) { }
        char tag[200]; snprintf(tag,sizeof tag,"dispatch %s ,%s v=%d loc=%d tab=%d",p,a.t,v,loc,tab==tabs[1]);
        disp(*tab,&top,buf,loc,tag);
        // ThreadLink with same message
        { RT r("threadlink"); tl.raw_write(buf); tl.write(p,"ii",v,v); tl.hasNext(); tl.hasNextLookahead();
          if(tl.hasNextLookahead()) tl.read_lookahead();
          while(tl.hasNext()) tl.read(); tl.peak(); }
    }
    // default handler table, hashed, with and without loc
    const char *dp[]={"/known","/other","/nomatch","/known/x","/","/zzzzzzzzzzzzzzzzzzzzzzzzzzzzzzzzzzzzzzzzzzzzzzzzzzzzzzzzzz","/k\x80\xff"};
    for(auto p:dp) for(int loc=0;loc<2;loc++){ rtosc_message(buf,sizeof buf,p,"i",1); disp(wd,0,buf,loc,"default-handler"); rtosc_message(buf,sizeof buf,p,""); disp(wd,0,buf,loc,"default-handler"); }
    // ring states: fill up, wrap, oversized
    { RT r("ring");
      for(int k=0;k<50;k++){ for(int j=0;j<7;j++) tl.write("/abcdefghijklmnopqrstuvwxyz","sif","some string payload",k,1.0); tl.write("/x","s",big); tl.writeArray("/y","",NULL);
        int c=0; while(tl.hasNext() && c++<3) tl.read(); }
      while(tl.hasNext()) tl.read();
    }
    fprintf(stderr,"default handler calls %d; allocs=%ld frees=%ld locks=%ld\n",dh_calls,g_allocs,g_frees,g_locks);
    return rt_total()?1:0;
}
