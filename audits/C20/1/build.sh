#!/bin/sh
# -DNDEBUG matches the library's default (RelWithDebInfo/Release) build; without it
# the same history aborts in assert(j == nmapping.size()) inside killMap().
exec sh "$(dirname "$0")/../build-common.sh" "$(cd "$(dirname "$0")" && pwd)" -DNDEBUG
