// Defect 1: a snapshot ("midi-bind") that was not produced by learning a
// controller still pops the realtime side's pending set, so a controller whose
// /midi-use-CC is still in flight is reported a second time and ends up assigned
// to two addresses.
#include "../harness.h"

struct Obj { float a; float b; };
#define rObject Obj
static const rtosc::Ports ports = {
    rParamF(a, rLinear(0, 1),  "a"),
    rParamF(b, rLinear(0, 10), "b"),
};

int main()
{
    int bad = 0;
    Harness h(ports);

    puts("# learn /a <- 5 (fully settled)");
    h.nrt.map("/a", true);  h.sync();
    h.cc(5, 1);             h.sync();
    if(h.cc(5, 64).size() != 1) { puts("setup failed"); return 99; }

    puts("# queue /b ; controller 6 arrives, its /midi-use-CC is in flight");
    h.nrt.map("/b", true);
    h.rt_read();
    h.cc(6, 1);                       // RT: pending={6}, watch=0, use-CC(6) -> nRT (unread)

    puts("# nRT (before reading its inbox) re-learns /a : unMap + queue");
    h.nrt.map("/a", true);            // sends midi-bind (unmap) + midi-add-watch
    h.rt_read();                      // bind pops pending entry 6 (!), watch=1

    puts("# controller 6 moves again before nRT has caught up");
    h.cc(6, 2);                       // reported as free a second time

    puts("# both halves catch up");
    h.sync();

    int ca = h.nrt.getCoarse("/a"), cb = h.nrt.getCoarse("/b");
    printf("nRT: coarse(/a)=%d coarse(/b)=%d\n", ca, cb);
    if(ca == cb && ca != -1) {
        printf("VIOLATION: controller %d is assigned to two addresses\n", ca);
        bad++;
    }
    auto m = h.cc(6, 64);
    bool drives_a = false, drives_b = false;
    for(auto &o : m) { if(o.addr == "/a") drives_a = true; if(o.addr == "/b") drives_b = true; }
    if(cb == 6 && !drives_b) { puts("VIOLATION: /b not driven by its controller 6"); bad++; }
    if(ca == 6 && !drives_a) { puts("VIOLATION: /a not driven by its controller 6"); bad++; }

    puts("# unmap /a : /b's binding must be unaffected, never-assigned CC 0 must stay silent");
    h.nrt.unMap("/a", true);          // assert() abort here unless built with -DNDEBUG
    h.sync();
    m = h.cc(6, 100);
    if(m.size() != 1 || m[0].addr != "/b") { puts("VIOLATION: unmapping /a destroyed /b's binding to 6"); bad++; }
    m = h.cc(0, 100);
    if(!m.empty()) { printf("VIOLATION: never-assigned controller 0 produced a message to %s\n", m[0].addr.c_str()); bad++; }

    printf("%s\n", bad ? "FAIL" : "OK");
    return bad ? 1 : 0;
}
