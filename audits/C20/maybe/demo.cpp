// Reproductions for audit/maybe.md.  usage: demo <case>
#include "../harness.h"
#include <cstdlib>

struct Obj { float a; int b; char c; float onlymin; };
#define rObject Obj
static const rtosc::Ports ports = {
    rParamF(a, rLinear(0, 1),   "a"),
    rParamI(b, rLinear(0, 100), "b"),
    rParam (c, "classic 0..127 char parameter"),
    rParamF(onlymin, rMap(min, 0), "lower bound only"),
};

int main(int argc, char **argv)
{
    int which = argc > 1 ? atoi(argv[1]) : 0;
    Harness h(ports);
    if(which == 1) {            // port with one bound only
        h.nrt.map("/onlymin", true); h.sync();
        h.cc(5, 1); h.sync();   // useFreeID: generateNewBijection()==NULL -> nstorage->mapping
        puts("survived");
    } else if(which == 2) {     // unMap of a queued, not yet learned address
        h.nrt.map("/a", true); h.sync();
        h.nrt.unMap("/a", true); h.sync();
        h.cc(5, 1); h.sync();
        auto m = h.cc(5, 64);
        printf("after map,unMap,CC: coarse(/a)=%d, messages=%zu\n", h.nrt.getCoarse("/a"), m.size());
        return m.empty() ? 0 : 1;
    } else if(which == 3) {     // rParam (::c) gets a float message
        h.nrt.map("/c", true); h.sync();
        h.cc(5, 1); h.sync();
        auto m = h.cc(5, 64);
        Obj o = {0, 0, 7, 0};
        char loc[128] = {0};
        rtosc::RtData d; d.obj = &o; d.loc = loc; d.loc_size = sizeof(loc);
        char buf[256];
        rtosc_message(buf, sizeof buf, "/c", "f", m[0].f);
        ports.dispatch(buf + 1, d);
        printf("type=%c value=%g ; dispatch matches=%d, c stays %d\n", m[0].type, m[0].f, d.matches, o.c);
        return m[0].type == 'f';
    } else if(which == 4) {     // addFineMapper desynchronises values/callbacks sizes
        h.nrt.addNewMapper(5, ports.ports[0], "/a"); h.sync();
        h.nrt.addFineMapper(6, ports.ports[0], "/a");
        h.nrt.map("/b", true); h.sync();
        h.cc(7, 1); h.sync();
        h.cc(7, 64);            // values[ind] with ind == values.size()
        puts("survived");
    } else if(which == 5) {     // fine controller only
        h.nrt.map("/b", false); h.sync();
        h.cc(5, 1); h.sync();
        for(int v : {0, 64, 127}) h.cc(5, v);
    }
    return 0;
}
