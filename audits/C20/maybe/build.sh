#!/bin/sh
# usage: build.sh <case 1..5>
W=$(cd "$(dirname "$0")/../.." && pwd)
D=$(cd "$(dirname "$0")" && pwd)
OUT=$(mktemp -d); trap 'rm -rf "$OUT"' EXIT
SAN="-g -O0 -fsanitize=address,undefined -DNDEBUG"
for f in "$W"/src/*.c "$W"/src/cpp/*.c; do gcc -std=gnu99 $SAN -w -I "$W/include" -c "$f" -o "$OUT/c_$(basename "$f").o"; done
for f in midimapper ports ports-runtime default-value; do g++ -std=c++17 $SAN -w -I "$W/include" -c "$W/src/cpp/$f.cpp" -o "$OUT/$f.o"; done
g++ -std=c++17 $SAN -I "$W/include" "$D/demo.cpp" "$OUT"/*.o -o "$OUT/demo" || exit 99
ASAN_OPTIONS=detect_leaks=0 "$OUT/demo" "$@"
