// Shared test harness: wires MidiMappernRT <-> MidiMapperRT through two explicit
// FIFO queues so the demo decides when each half reads its inbox (order inside
// each direction is preserved, as with a ring buffer).
#pragma once
#include <rtosc/ports.h>
#include <rtosc/port-sugar.h>
#include <rtosc/miditable.h>
#include <rtosc/rtosc.h>
#include <deque>
#include <string>
#include <vector>
#include <cstdio>
#include <cstring>

struct OutMsg { std::string addr; char type; float f; int i; };

struct Harness {
    rtosc::MidiMapperRT  rt;
    rtosc::MidiMappernRT nrt;
    std::deque<std::vector<char>> to_rt, to_nrt;   // in-flight messages
    std::vector<OutMsg> out;                       // backend (parameter) messages

    static std::vector<char> copy(const char *m) {
        size_t n = rtosc_message_length(m, 1024);
        return std::vector<char>(m, m + n);
    }
    Harness(const rtosc::Ports &ports) {
        nrt.base_ports = &ports;
        nrt.rt_cb = [this](const char *m) { to_rt.push_back(copy(m)); };
        rt.setFrontendCb([this](const char *m) { to_nrt.push_back(copy(m)); });
        rt.setBackendCb([this](const char *m) {
            OutMsg o; o.addr = m; o.type = rtosc_type(m, 0); o.f = 0; o.i = 0;
            if(o.type == 'f') o.f = rtosc_argument(m, 0).f;
            if(o.type == 'i') o.i = rtosc_argument(m, 0).i;
            printf("    backend <- %s %c %g\n", o.addr.c_str(), o.type ? o.type : '-',
                   o.type == 'f' ? o.f : (double)o.i);
            out.push_back(o);
        });
    }
    // realtime half reads n messages (all if n<0) from its inbox
    void rt_read(int n = -1) {
        while(!to_rt.empty() && n--) {
            std::vector<char> m = to_rt.front(); to_rt.pop_front();
            const char *msg = m.data();
            printf("  RT  reads %s\n", msg);
            if(!strncmp(msg, "/midi-learn/", 12)) {
                char loc[128] = {0};
                rtosc::RtData d; d.obj = &rt; d.loc = loc; d.loc_size = sizeof(loc);
                rtosc::MidiMapperRT::ports.dispatch(msg + 12, d);
            }
        }
    }
    // non-realtime half reads n messages (all if n<0) from its inbox
    void nrt_read(int n = -1) {
        while(!to_nrt.empty() && n--) {
            std::vector<char> m = to_nrt.front(); to_nrt.pop_front();
            const char *msg = m.data();
            printf("  nRT reads %s %d\n", msg, rtosc_argument(msg, 0).i);
            if(!strcmp(msg, "/midi-use-CC"))
                nrt.useFreeID(rtosc_argument(msg, 0).i);
        }
    }
    void sync() { while(!to_rt.empty() || !to_nrt.empty()) { rt_read(); nrt_read(); } }
    // send a controller value, return the backend messages it caused
    std::vector<OutMsg> cc(int id, int val) {
        printf("  CC(%d,%d)\n", id, val);
        out.clear();
        rt.handleCC(id, val);
        return out;
    }
};
