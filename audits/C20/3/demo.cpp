// Defect 3: the learned address is resolved with Ports::apropos(), which accepts
// the first port whose *name starts with* the requested path.  With two
// parameters whose names share a prefix, learning the shorter one picks up the
// longer one's type and [min,max].
#include "../harness.h"

struct Obj { float volume; int vol; };
#define rObject Obj
static const rtosc::Ports ports = {
    rParamF(volume, rLinear(0, 1000), "master volume, float 0..1000"),
    rParamI(vol,    rLinear(0, 100),  "voice volume, int 0..100"),
};

int main()
{
    int bad = 0;
    Harness h(ports);

    h.nrt.map("/vol", true);  h.sync();
    h.cc(5, 0);               h.sync();

    if(h.nrt.getCoarse("/vol") != 5) { puts("setup failed"); return 99; }
    for(int v : {0, 32, 64, 127}) {
        auto m = h.cc(5, v);
        if(m.size() != 1 || m[0].addr != "/vol") { puts("VIOLATION: not exactly one message to /vol"); bad++; continue; }
        double val = m[0].type == 'f' ? m[0].f : m[0].i;
        if(val < 0 || val > 100) { printf("VIOLATION: CC value %d -> /vol %c %g, outside /vol's range [0,100]\n", v, m[0].type, val); bad++; }
        if(m[0].type != 'i')     { printf("VIOLATION: /vol is an int parameter (vol::i) but got type '%c'\n", m[0].type); bad++; }
    }
    // what the parameter itself does with such a message
    Obj o = {0, 7};
    char loc[128] = {0};
    rtosc::RtData d; d.obj = &o; d.loc = loc; d.loc_size = sizeof(loc);
    auto m = h.cc(5, 127);
    char buf[256];
    if(m[0].type == 'f') rtosc_message(buf, sizeof buf, "/vol", "f", m[0].f);
    else                 rtosc_message(buf, sizeof buf, "/vol", "i", m[0].i);
    ports.dispatch(buf + 1, d);
    printf("dispatching the produced message to the port tree: matches=%d, vol=%d (was 7)\n", d.matches, o.vol);

    printf("%s\n", bad ? "FAIL" : "OK");
    return bad ? 1 : 0;
}
