// Defect 2: clear() empties the non-realtime learn queue but leaves the realtime
// watch count armed.  The next unassigned controller is swallowed into the
// realtime "pending" set, never answered, and can then not be learned although an
// address is queued.  Everything here is fully sequential (both halves read their
// inbox after every step).
#include "../harness.h"

struct Obj { float a; int b; };
#define rObject Obj
static const rtosc::Ports ports = {
    rParamF(a, rLinear(0, 1),   "a"),
    rParamI(b, rLinear(0, 100), "b"),
};

int main()
{
    int bad = 0;
    Harness h(ports);

    puts("# queue /a, then change of mind: clear()");
    h.nrt.map("/a", true);  h.sync();
    h.nrt.clear();          h.sync();

    puts("# knob 5 is touched while nothing is queued (must do nothing - and does)");
    if(!h.cc(5, 10).empty()) { puts("unexpected message"); bad++; }
    h.sync();

    puts("# queue /a again, move the not-yet-assigned controller 5");
    h.nrt.map("/a", true);  h.sync();
    h.cc(5, 11);            h.sync();
    h.cc(5, 12);            h.sync();

    int c = h.nrt.getCoarse("/a");
    printf("nRT: coarse(/a)=%d, still queued=%d\n", c, (int)h.nrt.hasCoarsePending("/a"));
    if(c != 5) { puts("VIOLATION: unassigned controller 5 arrived while /a was the oldest queued address, but was not assigned"); bad++; }
    auto m = h.cc(5, 64);
    if(m.size() != 1 || m[0].addr != "/a") { puts("VIOLATION: controller 5 does not drive /a"); bad++; }

    printf("%s\n", bad ? "FAIL" : "OK");
    return bad ? 1 : 0;
}
