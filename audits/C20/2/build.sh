#!/bin/sh
exec sh "$(dirname "$0")/../build-common.sh" "$(cd "$(dirname "$0")" && pwd)"
