// Reproductions for audit/maybe.md. usage: demo <case>   (a..h)
#include <rtosc/ports.h>
#include <rtosc/automations.h>
#include <rtosc/port-sugar.h>
#include <cstdio>
#include <cstring>
#include <cmath>
#include <string>
struct Obj { float lz, lm, fa, fw, pf; int qi; bool tg; };
#define rObject Obj
#define rChangeCb
static rtosc::Ports ports = {
    rParamF(lz, rLog(0, 100), "log scale, min 0, no logmin"),
    rParamF(lm, rLogWithLogmin(0, 100, 0.01), "log scale, min 0, logmin 0.01"),
    rParamF(fa, rLinear(0.1, 0.7), "decimal bounds"),
    rParamF(fw, rLinear(0.001, 1000), "wide range"),
    rParamF(pf, rLinear(0, 1), "plain"),
    rParamI(qi, rLinear(0, 127), "plain int"),
    rToggle(tg, "toggle"),
};
static void show(const char *msg)
{
    char t = rtosc_type(msg, 0);
    if(t == 'f') printf("  %s f %.9g\n", msg, rtosc_argument(msg,0).f);
    else if(t == 'i') printf("  %s i %d\n", msg, rtosc_argument(msg,0).i);
    else printf("  %s %c\n", msg, t);
}
int main(int argc, char **argv)
{
    char c = argc > 1 ? argv[1][0] : 'a';
    int cp = (c == 'f') ? 2 : 16;
    rtosc::AutomationMgr m(3, 2, cp);
    m.set_ports(ports);
    m.backend = show;
    switch(c) {
    case 'a': // rLog(0,100): logf(0) = -inf -> NaN emitted
        m.createBinding(0, "/lz", false);
        m.setSlot(0, 0.0f); m.setSlot(0, 0.5f); m.setSlot(0, 1.0f); break;
    case 'b': // logmin: slot 0 -> 0.01, never the declared min 0
        m.createBinding(0, "/lm", false);
        m.setSlot(0, 0.0f); m.setSlot(0, 1.0f); break;
    case 'c': // endpoints off by float rounding
        printf("  (float)0.1 = %.9g, (float)0.001 = %.9g\n", 0.1f, 0.001f);
        m.createBinding(0, "/fa", false); m.setSlot(0, 0.0f); m.setSlot(0, 1.0f);
        m.createBinding(1, "/fw", false); m.setSlot(1, 0.0f); m.setSlot(1, 1.0f); break;
    case 'd': // setSlotSubPath: 'ind' is not range-checked (heap overflow under ASan)
        m.setSlotSubPath(0, 2, "/pf"); break;
    case 'e': // createBinding: 'slot' is not range-checked (heap overflow under ASan)
        m.createBinding(3, "/pf", false); break;
    case 'f': // AutomationMgr(slots, per_slot, control_points=2): updateMapping writes 4 floats
        m.createBinding(0, "/pf", false); break;
    case 'g': { // NRPN learn: first value uses the last data byte /127, later ones the 14 bit value /16383
        m.createBinding(0, "/qi", true);
        m.handleMidi(0, C_nrpnhi, 1); m.handleMidi(0, C_nrpnlo, 2);
        m.handleMidi(0, C_dataentryhi, 127); m.handleMidi(0, C_dataentrylo, 0);   // 16256/16383 -> 126
        printf("  bound nrpn=%d; same data again:\n", m.slots[0].midi_nrpn);
        m.handleMidi(0, C_dataentrylo, 0);
        break; }
    case 'h': { // learn request on a full slot is dropped; non-finite results
        m.createBinding(0, "/pf", false); m.createBinding(0, "/qi", false);
        m.createBinding(0, "/tg", true);
        printf("  slot 0 learning=%d queue=%d\n", m.slots[0].learning, m.learn_queue_len);
        m.setSlotSubGain(0, 0, 0.0f); m.updateMapping(0, 0);
        m.setSlot(0, INFINITY);   // inf*0 -> NaN for /pf
        m.setSlotSubGain(0, 1, 3e38f); m.updateMapping(0, 1);
        m.setSlot(0, 0.5f);       // /qi: 127*3e38 overflows to inf -> inf-inf = NaN -> (int)NaN
        break; }
    }
    return 0;
}
