#!/bin/sh
# usage: build.sh <case a..h>   builds demo.cpp with ASan+UBSan against the worktree sources and runs one case
exec "$(dirname "$0")/../build-common.sh" "$(dirname "$0")" "$@"
