// C19 audit #1: a port declared with the library's own rParam() macro ("name::c", min 0, max 127)
// is driven with an 'i' message, which is not the parameter's type and does not even dispatch.
#include <rtosc/ports.h>
#include <rtosc/automations.h>
#include <rtosc/port-sugar.h>
#include <cstdio>
#include <cstring>
#include <string>

struct Obj { unsigned char vol; };
#define rObject Obj
#define rChangeCb
static rtosc::Ports ports = {
    rParam(vol, "volume, 0..127"),          // expands to "vol::c" :min=0 :max=127
};

int main()
{
    Obj o; o.vol = 0;
    int bad = 0, emitted = 0;
    rtosc::AutomationMgr m(2, 1, 16);
    m.set_ports(ports);
    m.backend = [&](const char *msg) {
        ++emitted;
        std::string types = rtosc_argument_string(msg);
        printf("emitted %s ,%s %d\n", msg, types.c_str(), rtosc_argument(msg,0).i);
        if(types != "c") {                     // the bound parameter's type is 'c'
            printf("  -> wrong type: port is \"%s\"\n", ports.ports[0].name);
            bad++;
        }
        char loc[128] = {0};
        rtosc::RtData d; d.loc = loc; d.loc_size = sizeof(loc); d.obj = &o; d.matches = 0;
        ports.dispatch(msg + 1, d, false);
        if(d.matches != 1) {
            printf("  -> message is not accepted by the bound port (matches=%d)\n", d.matches);
            bad++;
        }
    };
    m.createBinding(0, "/vol", false);
    m.setSlot(0, 1.0f);
    if(emitted != 1) { printf("expected exactly one message\n"); bad++; }
    if(o.vol != 127) { printf("parameter not driven: vol=%d, expected 127\n", o.vol); bad++; }
    printf(bad ? "FAIL\n" : "OK\n");
    return bad ? 1 : 0;
}
