// C19 audit #2: two sibling ports whose names share a prefix; the longer one is declared first.
// Binding "/detune" reads type and bounds of "detune2" and drives /detune with them.
#include <rtosc/ports.h>
#include <rtosc/automations.h>
#include <rtosc/port-sugar.h>
#include <cstdio>
#include <cstring>
#include <string>

struct Obj { int detune2; float detune; };
#define rObject Obj
#define rChangeCb
static rtosc::Ports ports = {
    rParamI(detune2, rLinear(0, 1000), "coarse detune, integer 0..1000"),
    rParamF(detune,  rLinear(-1, 1),   "fine detune, float -1..1"),
};

int main()
{
    int bad = 0, emitted = 0;
    rtosc::AutomationMgr m(2, 1, 16);
    m.set_ports(ports);
    m.backend = [&](const char *msg) {
        ++emitted;
        std::string types = rtosc_argument_string(msg);
        double v = types == "f" ? rtosc_argument(msg,0).f : types == "i" ? rtosc_argument(msg,0).i : 0;
        printf("emitted %s ,%s %g\n", msg, types.c_str(), v);
        if(strcmp(msg, "/detune")) { printf("  -> wrong address\n"); bad++; }
        if(types != "f")           { printf("  -> wrong type, /detune is declared ::f\n"); bad++; }
        if(v < -1 || v > 1)        { printf("  -> outside declared [-1,1]\n"); bad++; }
    };
    m.createBinding(0, "/detune", false);
    const rtosc::Automation &au = m.slots[0].automations[0];
    printf("cached: type '%c' min %g max %g\n", au.param_type, au.param_min, au.param_max);
    m.setSlot(0, 0.0f);   // must give -1
    m.setSlot(0, 0.5f);   // must give  0
    m.setSlot(0, 1.0f);   // must give +1
    if(emitted != 3) bad++;
    printf(bad ? "FAIL\n" : "OK\n");
    return bad ? 1 : 0;
}
