#!/bin/sh
# usage: build-common.sh <dir-of-demo>   (compiles demo.cpp against the worktree sources, runs it)
set -e
D=$(cd "$1" && pwd); shift
W=$(cd "$D/../.." && pwd)
T=$(mktemp -d)
trap 'rm -rf "$T"' EXIT
SAN="-fsanitize=address,undefined -g -O1"
sed -e 's/${VERSION_MAJOR}/0/' -e 's/${VERSION_MINOR}/3/' -e 's/${VERSION_PATCH}/1/' "$W/src/cpp/version.c.in" > "$T/version.c"
for f in "$W"/src/*.c "$W"/src/cpp/*.c "$T/version.c"; do
  gcc -std=gnu99 $SAN -w -I "$W/include" -I "$W/src/cpp" -c "$f" -o "$T/$(basename "$f").o"
done
for f in "$W"/src/cpp/*.cpp; do
  g++ -std=c++17 $SAN -w -I "$W/include" -I "$W/src/cpp" -c "$f" -o "$T/$(basename "$f").o"
done
g++ -std=c++17 $SAN -w -I "$W/include" "$D/demo.cpp" "$T"/*.o -o "$T/demo" -lpthread
"$T/demo" "$@"
