// C19 audit #5: integer parameters whose declared bounds are not exactly representable in float.
// param_min/param_max are float, so the clamp limit itself can lie above the declared max;
// for max = INT_MAX the (int) conversion overflows (UB; wraps to INT_MIN on x86).
#include <rtosc/ports.h>
#include <rtosc/automations.h>
#include <rtosc/port-sugar.h>
#include <cstdio>
#include <cstring>
#include <climits>
#include <string>

struct Obj { int length; int seed; };
#define rObject Obj
#define rChangeCb
static rtosc::Ports ports = {
    rParamI(length, rLinear(0, 16777219),   "sample count, 0..2^24+3"),
    rParamI(seed,   rLinear(0, 2147483647), "random seed, 0..INT_MAX"),
};

int main()
{
    int bad = 0;
    long long lo = 0, hi = 0;
    rtosc::AutomationMgr m(2, 1, 16);
    m.set_ports(ports);
    m.backend = [&](const char *msg) {
        int v = rtosc_argument(msg,0).i;
        printf("emitted %s ,%s %d   declared [%lld,%lld]\n", msg, rtosc_argument_string(msg), v, lo, hi);
        if(v < lo || v > hi) { printf("  -> outside the declared range\n"); bad++; }
    };
    lo = 0; hi = 16777219;
    m.createBinding(0, "/length", false);
    m.setSlot(0, 1.0f);                 // must be <= 16777219

    lo = 0; hi = INT_MAX;
    m.createBinding(1, "/seed", false);
    m.setSlot(1, 1.0f);                 // must be <= INT_MAX; UBSan: float-cast-overflow
    printf(bad ? "FAIL\n" : "OK\n");
    return bad ? 1 : 0;
}
