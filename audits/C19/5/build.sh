#!/bin/sh
# builds demo.cpp against the unmodified worktree sources (ASan+UBSan) and runs it; exit status = demo status
exec "$(dirname "$0")/../build-common.sh" "$(dirname "$0")"
