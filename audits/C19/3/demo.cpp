// C19 audit #3: integer parameter with logarithmic scale (rParamI + rLog).
// The 'i' branch of setSlotSub never applies expf(), so log(value) is emitted.
#include <rtosc/ports.h>
#include <rtosc/automations.h>
#include <rtosc/port-sugar.h>
#include <cstdio>
#include <cstring>
#include <cmath>
#include <string>

struct Obj { int cutoff; };
#define rObject Obj
#define rChangeCb
static rtosc::Ports ports = {
    rParamI(cutoff, rLog(20, 20000), "cutoff in Hz, integer, logarithmic"),
};

int main()
{
    int bad = 0;
    rtosc::AutomationMgr m(2, 1, 16);
    m.set_ports(ports);
    float slotval = 0;
    m.backend = [&](const char *msg) {
        std::string types = rtosc_argument_string(msg);
        int v = rtosc_argument(msg,0).i;
        double want = exp(log(20.0) + slotval*(log(20000.0)-log(20.0)));
        printf("slot %.2f -> %s ,%s %d   (declared range [20,20000], log mapping wants ~%.0f)\n",
               slotval, msg, types.c_str(), v, want);
        if(types != "i" || strcmp(msg, "/cutoff")) bad++;
        if(v < 20 || v > 20000) { printf("  -> outside declared [20,20000]\n"); bad++; }
        else if(fabs(v - want) > 0.5 + 1e-5*want) { printf("  -> not the log mapping\n"); bad++; }
    };
    m.createBinding(0, "/cutoff", false);
    for(float s : {0.0f, 0.25f, 0.5f, 1.0f}) { slotval = s; m.setSlot(0, s); }
    printf(bad ? "FAIL\n" : "OK\n");
    return bad ? 1 : 0;
}
