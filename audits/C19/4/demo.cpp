// C19 audit #4: a parameter whose full OSC address is 128 characters or longer.
// createBinding copies the address into Automation::param_path[128] with truncation,
// so the slot emits to a different (non-existent) address.
#include <rtosc/ports.h>
#include <rtosc/automations.h>
#include <rtosc/port-sugar.h>
#include <cstdio>
#include <cstring>
#include <string>

struct Obj { float resonance_amount; };
#define rObject Obj
#define rChangeCb
static rtosc::Ports leaf = {
    rParamF(resonance_amount, rLinear(0, 1), "leaf parameter"),
};
#define DIR(name, sub) {name "/", 0, &sub, [](const char *m, rtosc::RtData &d){ \
        while(*m && *m != '/') ++m; if(*m) ++m; sub.dispatch(m, d, false); }}
static rtosc::Ports l3 = { DIR("voice_oscillator_modulation_section_number_one", leaf) };
static rtosc::Ports l2 = { DIR("additive_synthesis_engine_global_parameters", l3) };
static rtosc::Ports root = { DIR("instrument_part_with_a_descriptive_long_name", l2) };

int main()
{
    const std::string path =
        "/instrument_part_with_a_descriptive_long_name"
        "/additive_synthesis_engine_global_parameters"
        "/voice_oscillator_modulation_section_number_one"
        "/resonance_amount";
    printf("address length: %zu\n", path.size());

    // the address is valid: a hand-written message to it reaches the parameter
    Obj o; o.resonance_amount = 0;
    {
        char msg[512], loc[512] = {0};
        rtosc_message(msg, sizeof(msg), path.c_str(), "f", 0.25f);
        rtosc::RtData d; d.loc = loc; d.loc_size = sizeof(loc); d.obj = &o; d.matches = 0;
        root.dispatch(msg + 1, d, false);
        if(d.matches != 1 || o.resonance_amount != 0.25f) { printf("setup broken\n"); return 2; }
    }

    int bad = 0, emitted = 0;
    rtosc::AutomationMgr m(2, 1, 16);
    m.set_ports(root);
    m.backend = [&](const char *msg) {
        ++emitted;
        printf("emitted to (%zu chars) %s\n", strlen(msg), msg);
        if(path != msg) { printf("  -> not the bound parameter's address\n"); bad++; }
        char loc[512] = {0};
        rtosc::RtData d; d.loc = loc; d.loc_size = sizeof(loc); d.obj = &o; d.matches = 0;
        root.dispatch(msg + 1, d, false);
        if(d.matches != 1) { printf("  -> reaches no port\n"); bad++; }
    };
    m.createBinding(0, path.c_str(), false);
    if(!m.slots[0].automations[0].used) { printf("binding refused\n"); return 2; }
    m.setSlot(0, 1.0f);
    if(emitted != 1) bad++;
    if(o.resonance_amount != 1.0f) { printf("parameter not driven: %g\n", o.resonance_amount); bad++; }
    printf(bad ? "FAIL\n" : "OK\n");
    return bad ? 1 : 0;
}
