// C13 audit, candidate 3
//
// Same declaration as candidate 2 -- rRecur(fx, rEnabledBy(fx/on)), the
// "current level" form of rEnabledBy -- but the effect is on by default, so a
// savefile holds changed ports of fx and no line for /fx/on ("a depended-on
// port is itself absent").  The dependency scan then follows fx/on to its
// directory fx/, finds "enabled by fx/on" there again and calls itself without
// end: load_from_file() overflows the stack for every order of the lines.
//
// exit 0: every permutation of the savefile's lines loads and restores the
// saved state.
#include <rtosc/ports.h>
#include <rtosc/port-sugar.h>
#include <rtosc/savefile.h>
#include <rtosc/rtosc-version.h>
#include <cstdio>
#include <cstring>
#include <string>
#include <vector>
#include <set>
#include <algorithm>
#include <sstream>
#include <csignal>
#include <cstdlib>
#include <unistd.h>

using namespace rtosc;

static std::vector<std::string> applied; // order in which ports were written

struct Fx
{
    bool on    = true;
    int  depth = 0;
    int  rate  = 0;
    static const Ports& ports;
};

#define rObject Fx
static const Ports fx_ports = {
    {"on::T:F", rProp(parameter) rDefault(true) rDoc("effect on/off"), NULL,
        [](const char* m, RtData& d) {
            Fx* o = static_cast<Fx*>(d.obj);
            if(!*rtosc_argument_string(m)) { d.reply(d.loc, o->on ? "T" : "F"); return; }
            applied.push_back(d.loc);
            o->on = rtosc_argument(m, 0).T;
            // switching the effect on starts it from its defaults
            o->depth = 0; o->rate = 0; }},
    {"depth::i", rProp(parameter) rDefault(0) rDoc("depth"), NULL,
        [](const char* m, RtData& d) {
            Fx* o = static_cast<Fx*>(d.obj);
            if(!*rtosc_argument_string(m)) { d.reply(d.loc, "i", o->depth); return; }
            applied.push_back(d.loc);
            o->depth = rtosc_argument(m, 0).i; }},
    {"rate::i", rProp(parameter) rDefault(0) rDoc("rate"), NULL,
        [](const char* m, RtData& d) {
            Fx* o = static_cast<Fx*>(d.obj);
            if(!*rtosc_argument_string(m)) { d.reply(d.loc, "i", o->rate); return; }
            applied.push_back(d.loc);
            o->rate = rtosc_argument(m, 0).i; }},
};
#undef rObject
const Ports& Fx::ports = fx_ports;

struct Synth
{
    Fx  fx;          // (first member: port_is_enabled() hands the enclosing
                     //  object to the toggle inside fx)
    int volume = 100;
    static const Ports& ports;
};
#define rObject Synth
static const Ports synth_ports = {
    rRecur(fx, rEnabledBy(fx/on), "the effect"),
    rParamI(volume, rDefault(100), rLinear(0, 127), "volume"),
};
#undef rObject
const Ports& Synth::ports = synth_ports;

static int pos(const char* p)
{
    for(size_t i = 0; i < applied.size(); ++i) if(applied[i] == p) return (int)i;
    return -1;
}

static void on_segv(int)
{
    const char msg[] = "VIOLATION: load_from_file crashed (endless recursion in scan_deps)\n";
    if(write(2, msg, sizeof(msg)-1)) {}
    _exit(3);
}

int main()
{
    // report a stack overflow as a plain failure
    static char altstack[1 << 16];
    stack_t ss; ss.ss_sp = altstack; ss.ss_size = sizeof(altstack); ss.ss_flags = 0;
    sigaltstack(&ss, NULL);
    struct sigaction sa; memset(&sa, 0, sizeof(sa));
    sa.sa_handler = on_segv; sa.sa_flags = SA_ONSTACK;
    sigaction(SIGSEGV, &sa, NULL);
    sigaction(SIGBUS, &sa, NULL);

    Synth saved;
    saved.fx.on = true /* its default */; saved.fx.depth = 5; saved.fx.rate = 7; saved.volume = 90;

    std::set<std::string> already;
    rtosc_version ver = {1, 2, 3};
    std::string file = save_to_file(synth_ports, &saved, "demo", ver, already, {});
    printf("--- savefile ---\n%s\n----------------\n", file.c_str());
    fflush(stdout);

    std::vector<std::string> header, lines;
    { std::istringstream is(file); std::string l;
      while(std::getline(is, l)) (l[0] == '%' ? header : lines).push_back(l); }
    if(lines.size() != 3) { printf("unexpected savefile\n"); return 2; }

    std::sort(lines.begin(), lines.end());
    int bad = 0, perms = 0;
    do {
        std::string f;
        for(auto& h : header) f += h + "\n";
        for(auto& l : lines)  f += l + "\n";
        Synth s;
        applied.clear();
        int n = load_from_file(f.c_str(), synth_ports, &s, "demo", ver);
        bool ok = n == 3
               && s.fx.on == saved.fx.on && s.fx.depth == saved.fx.depth
               && s.fx.rate == saved.fx.rate && s.volume == saved.volume
               && pos("/fx/depth") >= 0 && pos("/fx/rate") >= 0;
        if(!ok && !bad) {
            printf("first violating order:");
            for(auto& l : lines) printf(" [%s]", l.c_str());
            printf("\n  reported %d messages; ports of fx applied:", n);
            for(auto& a : applied) printf(" %s", a.c_str());
            printf("\n  state: on=%d depth=%d rate=%d volume=%d (saved: 1 5 7 90)\n",
                   s.fx.on, s.fx.depth, s.fx.rate, s.volume);
        }
        if(!ok) ++bad;
        ++perms;
    } while(std::next_permutation(lines.begin(), lines.end()));

    printf("%d of %d permutations violate the property\n", bad, perms);
    return bad ? 1 : 0;
}
