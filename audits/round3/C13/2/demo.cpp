// C13 audit, candidate 2
//
// A sub-tree is enabled by a toggle that lives inside it, declared at the
// recursing port: rRecur(fx, rEnabledBy(fx/on)) -- the "current level" form of
// rEnabledBy (port-sugar.h: "the path of the other port must be at the current
// level or one level above"; ports.cpp, port_is_enabled(): "subport").
// save_to_file() writes "/fx/on true" and the changed ports of fx.  On loading,
// the dependency scan makes "/fx/on" wait for itself: neither it nor any port
// of fx is ever applied, in whatever order the lines stand, and the call still
// reports all messages (with assertions enabled it aborts instead).
//
// exit 0: every permutation of the savefile's lines restores the saved state
// and applies /fx/on before the ports it enables.
#include <rtosc/ports.h>
#include <rtosc/port-sugar.h>
#include <rtosc/savefile.h>
#include <rtosc/rtosc-version.h>
#include <cstdio>
#include <cstring>
#include <string>
#include <vector>
#include <set>
#include <algorithm>
#include <sstream>

using namespace rtosc;

static std::vector<std::string> applied; // order in which ports were written

struct Fx
{
    bool on    = false;
    int  depth = 0;
    int  rate  = 0;
    static const Ports& ports;
};

#define rObject Fx
static const Ports fx_ports = {
    {"on::T:F", rProp(parameter) rDefault(false) rDoc("effect on/off"), NULL,
        [](const char* m, RtData& d) {
            Fx* o = static_cast<Fx*>(d.obj);
            if(!*rtosc_argument_string(m)) { d.reply(d.loc, o->on ? "T" : "F"); return; }
            applied.push_back(d.loc);
            o->on = rtosc_argument(m, 0).T;
            // switching the effect on starts it from its defaults
            o->depth = 0; o->rate = 0; }},
    {"depth::i", rProp(parameter) rDefault(0) rDoc("depth"), NULL,
        [](const char* m, RtData& d) {
            Fx* o = static_cast<Fx*>(d.obj);
            if(!*rtosc_argument_string(m)) { d.reply(d.loc, "i", o->depth); return; }
            applied.push_back(d.loc);
            o->depth = rtosc_argument(m, 0).i; }},
    {"rate::i", rProp(parameter) rDefault(0) rDoc("rate"), NULL,
        [](const char* m, RtData& d) {
            Fx* o = static_cast<Fx*>(d.obj);
            if(!*rtosc_argument_string(m)) { d.reply(d.loc, "i", o->rate); return; }
            applied.push_back(d.loc);
            o->rate = rtosc_argument(m, 0).i; }},
};
#undef rObject
const Ports& Fx::ports = fx_ports;

struct Synth
{
    Fx  fx;          // (first member: port_is_enabled() hands the enclosing
                     //  object to the toggle inside fx)
    int volume = 100;
    static const Ports& ports;
};
#define rObject Synth
static const Ports synth_ports = {
    rRecur(fx, rEnabledBy(fx/on), "the effect"),
    rParamI(volume, rDefault(100), rLinear(0, 127), "volume"),
};
#undef rObject
const Ports& Synth::ports = synth_ports;

static int pos(const char* p)
{
    for(size_t i = 0; i < applied.size(); ++i) if(applied[i] == p) return (int)i;
    return -1;
}

int main()
{
    Synth saved;
    saved.fx.on = true; saved.fx.depth = 5; saved.fx.rate = 7; saved.volume = 90;

    std::set<std::string> already;
    rtosc_version ver = {1, 2, 3};
    std::string file = save_to_file(synth_ports, &saved, "demo", ver, already, {});
    printf("--- savefile ---\n%s\n----------------\n", file.c_str());
    fflush(stdout);

    std::vector<std::string> header, lines;
    { std::istringstream is(file); std::string l;
      while(std::getline(is, l)) (l[0] == '%' ? header : lines).push_back(l); }
    if(lines.size() != 4) { printf("unexpected savefile\n"); return 2; }

    std::sort(lines.begin(), lines.end());
    int bad = 0, perms = 0;
    do {
        std::string f;
        for(auto& h : header) f += h + "\n";
        for(auto& l : lines)  f += l + "\n";
        Synth s;
        applied.clear();
        int n = load_from_file(f.c_str(), synth_ports, &s, "demo", ver);
        bool ok = n == 4
               && s.fx.on == saved.fx.on && s.fx.depth == saved.fx.depth
               && s.fx.rate == saved.fx.rate && s.volume == saved.volume
               && pos("/fx/on") >= 0
               && pos("/fx/on") < pos("/fx/depth") && pos("/fx/on") < pos("/fx/rate");
        if(!ok && !bad) {
            printf("first violating order:");
            for(auto& l : lines) printf(" [%s]", l.c_str());
            printf("\n  reported %d messages; ports of fx applied:", n);
            for(auto& a : applied) printf(" %s", a.c_str());
            printf("\n  state: on=%d depth=%d rate=%d volume=%d (saved: 1 5 7 90)\n",
                   s.fx.on, s.fx.depth, s.fx.rate, s.volume);
        }
        if(!ok) ++bad;
        ++perms;
    } while(std::next_permutation(lines.begin(), lines.end()));

    printf("%d of %d permutations violate the property\n", bad, perms);
    return bad ? 1 : 0;
}
