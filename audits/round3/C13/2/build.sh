#!/bin/sh
# builds demo.cpp against the worktree's sources and runs it
set -e
# NDEBUG as in the library's own RelWithDebInfo build; run with NDBG= to keep
# the assertions: dispatch_printed_messages() then aborts at savefile.cpp:652
NDBG=${NDBG--DNDEBUG}
W=$(cd "$(dirname "$0")/../.." && pwd)
D=$(mktemp -d)
trap 'rm -rf "$D"' EXIT
CF="-g -O1 -w $NDBG -fno-omit-frame-pointer -I$W/include -I$W/src/cpp $SAN"
sed -e 's/${VERSION_MAJOR}/0/;s/${VERSION_MINOR}/3/;s/${VERSION_PATCH}/1/' \
    "$W/src/cpp/version.c.in" > "$D/version.c"
for f in "$W"/src/*.c "$W"/src/cpp/*.c "$D/version.c"; do
    gcc -std=gnu99 $CF -c "$f" -o "$D/$(basename "$f").o"
done
for f in ports ports-runtime savefile default-value; do
    g++ -std=c++17 $CF -c "$W/src/cpp/$f.cpp" -o "$D/$f.cpp.o"
done
g++ -std=c++17 $CF "$(dirname "$0")/demo.cpp" "$D"/*.o -o "$D/demo"
"$D/demo"
