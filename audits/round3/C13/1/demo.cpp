// C13 audit, candidate 1
//
// A directory is enabled from inside (rSelf(..., rEnabledBy(Penabled))) and the
// enabling toggle's default depends on a read-only sibling that tells where the
// Ports struct is located (rDefaultDepends(partno); Guide.adoc, "Default
// Values", case 1).  A savefile written by save_to_file() in which the toggle
// is at its default (so it has no line) cannot be loaded: the dependency scan
// calls itself without end.
//
// exit 0: every permutation of the savefile's lines loads, reports the same
// number of messages and restores the saved state.
#include <rtosc/ports.h>
#include <rtosc/port-sugar.h>
#include <rtosc/savefile.h>
#include <rtosc/rtosc-version.h>
#include <cstdio>
#include <cstring>
#include <string>
#include <vector>
#include <set>
#include <algorithm>
#include <sstream>
#include <csignal>
#include <cstdlib>
#include <unistd.h>

using namespace rtosc;

struct Part
{
    int  partno   = 0;
    bool Penabled = false;
    int  Pvolume  = 96;
    int  Ppanning = 64;
    static const Ports& ports;
};

#define rObject Part
static const Ports part_ports = {
    rSelf(Part, rEnabledBy(Penabled)),
    // read-only: where in the tree is this Part?
    {"partno:", rProp(internal) rDoc("index of this part"), NULL,
        [](const char*, RtData& d) {
            d.reply(d.loc, "i", static_cast<Part*>(d.obj)->partno); }},
    // part 0 is enabled by default, the others are not
    rToggle(Penabled, rDefaultDepends(partno), rPreset(0, true), rDefault(false),
            "part enable"),
    rParamI(Pvolume,  rDefault(96), rLinear(0, 127), "volume"),
    rParamI(Ppanning, rDefault(64), rLinear(0, 127), "panning"),
};
#undef rObject
const Ports& Part::ports = part_ports;

struct Master
{
    Part part[2];
    Master() { part[0].partno = 0; part[0].Penabled = true;
               part[1].partno = 1; part[1].Penabled = false; }
    static const Ports& ports;
};
#define rObject Master
static const Ports master_ports = {
    rRecurs(part, 2, "the parts"),
};
#undef rObject
const Ports& Master::ports = master_ports;

static void on_segv(int)
{
    const char msg[] = "VIOLATION: load_from_file crashed (endless recursion in scan_deps)\n";
    if(write(2, msg, sizeof(msg)-1)) {}
    _exit(3);
}

int main()
{
    // report a stack overflow as a plain failure
    static char altstack[1 << 16];
    stack_t ss; ss.ss_sp = altstack; ss.ss_size = sizeof(altstack); ss.ss_flags = 0;
    sigaltstack(&ss, NULL);
    struct sigaction sa; memset(&sa, 0, sizeof(sa));
    sa.sa_handler = on_segv; sa.sa_flags = SA_ONSTACK;
    sigaction(SIGSEGV, &sa, NULL);
    sigaction(SIGBUS, &sa, NULL);

    Master saved;
    saved.part[0].Pvolume  = 10;   // part 0: enabled (its default), two changes
    saved.part[0].Ppanning = 20;
    saved.part[1].Penabled = true; // part 1: switched on, one change
    saved.part[1].Pvolume  = 30;

    std::set<std::string> already;
    rtosc_version ver = {1, 2, 3};
    std::string file = save_to_file(master_ports, &saved, "demo", ver, already, {});
    printf("--- savefile ---\n%s\n----------------\n", file.c_str());
    fflush(stdout);

    // split into header and message lines
    std::vector<std::string> header, lines;
    { std::istringstream is(file); std::string l;
      while(std::getline(is, l)) (l[0] == '%' ? header : lines).push_back(l); }
    if(lines.size() != 4) { printf("unexpected savefile\n"); return 2; }

    std::sort(lines.begin(), lines.end());
    int bad = 0, perms = 0;
    do {
        std::string f;
        for(auto& h : header) f += h + "\n";
        for(auto& l : lines)  f += l + "\n";
        Master m;
        int n = load_from_file(f.c_str(), master_ports, &m, "demo", ver);
        bool ok = n == 4;
        for(int p = 0; p < 2; ++p)
            ok = ok && m.part[p].Penabled == saved.part[p].Penabled
                    && m.part[p].Pvolume  == saved.part[p].Pvolume
                    && m.part[p].Ppanning == saved.part[p].Ppanning;
        if(!ok) ++bad;
        ++perms;
    } while(std::next_permutation(lines.begin(), lines.end()));

    printf("%d of %d permutations violate the property\n", bad, perms);
    return bad ? 1 : 0;
}
