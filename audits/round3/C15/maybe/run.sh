#!/bin/sh
# usage: ./run.sh leak|reentry|clamp|caporder
HERE=$(cd "$(dirname "$0")" && pwd); W=$(cd "$HERE/../.." && pwd)
OUT=$(mktemp -d); trap 'rm -rf "$OUT"' EXIT
set -e
for f in "$W"/src/*.c "$W"/src/cpp/*.c; do
    gcc -g -O1 -c -fsanitize=address -I "$W/include" "$f" -o "$OUT/$(basename "$f").o"
done
g++ -std=c++17 -g -O1 -fsanitize=address -I "$W/include" "$HERE/$1.cpp" \
   "$W/src/cpp/undo-history.cpp" "$W/src/cpp/ports.cpp" "$W/src/cpp/default-value.cpp" \
   "$W/src/cpp/ports-runtime.cpp" "$OUT"/*.o -o "$OUT/demo"
set +e
"$OUT/demo"; echo "exit code $?"
