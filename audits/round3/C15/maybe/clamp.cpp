// maybe: the value before the first change lies outside the declared range;
// the port clamps the undo message, so undo does not restore it
#include <rtosc/ports.h>
#include <rtosc/port-sugar.h>
#include <rtosc/undo-history.h>
#include <cstdarg>
#include <cstdio>
#include <cstring>
using namespace rtosc;
struct Object { unsigned char b = 255; };   //255: a common "unset" sentinel
#define rObject Object
static Ports ports = { rParam(b, "b") };     //rParam: 0..127
struct Rt : RtData {
    UndoHistory *uh; bool enable = true; char locbuf[128]; char rbuf[256];
    Rt(Object *o, UndoHistory *u) : uh(u) { memset(locbuf,0,sizeof locbuf); loc = locbuf; loc_size = sizeof locbuf; obj = o; }
    void reply(const char *path, const char *args, ...) override {
        if(strcmp(path, "/undo_change") || !enable) return;
        va_list va; va_start(va, args);
        rtosc_vmessage(rbuf, sizeof rbuf, path, args, va);
        va_end(va);
        uh->recordEvent(rbuf);
    }
    void broadcast(const char *, const char *, ...) override {}
};
int main()
{
    Object o; UndoHistory h; Rt rt(&o, &h);
    h.setCallback([&](const char *m){ ports.dispatch(m+1, rt); });
    char msg[64];
    rtosc_message(msg, sizeof msg, "b", "c", 64); ports.dispatch(msg, rt);
    printf("after set: b=%d matches=%d size=%zu\n", o.b, rt.matches, h.size());
    rt.enable = false;
    h.seekHistory(-1);
    printf("after undo: b=%d (was 255 before the change)\n", o.b);
    return o.b != 255;
}
