// maybe: an application that records every /undo_change reply (as the Guide
// describes) and does not switch recording off while seeking
#include <rtosc/ports.h>
#include <rtosc/port-sugar.h>
#include <rtosc/undo-history.h>
#include <cstdarg>
#include <cstdio>
#include <cstring>
using namespace rtosc;
struct Object { int i = 0; };
#define rObject Object
static Ports ports = { rParamI(i, "i") };
struct Rt : RtData {
    UndoHistory *uh; char locbuf[128]; char rbuf[256];
    Rt(Object *o, UndoHistory *u) : uh(u) { memset(locbuf,0,sizeof locbuf); loc = locbuf; loc_size = sizeof locbuf; obj = o; }
    void reply(const char *path, const char *args, ...) override {
        if(strcmp(path, "/undo_change")) return;
        va_list va; va_start(va, args);
        rtosc_vmessage(rbuf, sizeof rbuf, path, args, va);
        va_end(va);
        uh->recordEvent(rbuf);
    }
    void broadcast(const char *, const char *, ...) override {}
};
int main()
{
    Object o; UndoHistory h; Rt rt(&o, &h);
    h.setCallback([&](const char *m){ ports.dispatch(m+1, rt); });
    char msg[64];
    rtosc_message(msg, sizeof msg, "i", "i", 1); ports.dispatch(msg, rt);
    printf("after set: i=%d matches=%d size=%zu\n", o.i, rt.matches, h.size());
    //(more than two seconds apart in a real session; same effect)
    h.seekHistory(-1);
    printf("after undo: i=%d pos=%u size=%zu (want i=0 pos=0 size=1)\n", o.i, h.getPos(), h.size());
    h.seekHistory(+1);
    printf("after redo: i=%d pos=%u size=%zu (want i=1 pos=1 size=1)\n", o.i, h.getPos(), h.size());
    return !(o.i == 1 && h.getPos() == 1);
}
