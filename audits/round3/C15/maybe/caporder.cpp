// maybe: an entry refreshed by a merge keeps its (oldest) position and is the
// first to fall out at the 20-event cap, although it holds the latest change
#include <rtosc/rtosc.h>
#include <rtosc/undo-history.h>
#include <cstdio>
#include <cstring>
#include <ctime>
static time_t fake_now = 1000;
extern "C" time_t time(time_t *t) { if(t) *t = fake_now; return fake_now; }
int main()
{
    rtosc::UndoHistory h;
    h.setCallback([](const char*){});
    char buf[128], addr[16];
    rtosc_message(buf, sizeof buf, "/undo_change", "sii", "/a", 0, 1);
    h.recordEvent(buf);                                   //t=1000
    for(int k = 1; k < 20; ++k) {
        snprintf(addr, sizeof addr, "/b%d", k);
        rtosc_message(buf, sizeof buf, "/undo_change", "sii", addr, 0, 1);
        h.recordEvent(buf);                               //t=1000
    }
    fake_now += 2;
    rtosc_message(buf, sizeof buf, "/undo_change", "sii", "/a", 1, 2);
    h.recordEvent(buf);                                   //t=1002: merged into entry 0
    fake_now += 10;
    rtosc_message(buf, sizeof buf, "/undo_change", "sii", "/c", 0, 1);
    h.recordEvent(buf);                                   //21st entry: entry 0 falls out
    bool a_retained = false;
    for(unsigned i = 0; i < h.size(); ++i)
        if(!strcmp(rtosc_argument(h.getHistory(i), 0).s, "/a")) a_retained = true;
    printf("size=%zu, the /a event (last changed at t=1002, after every /b) retained: %s\n",
           h.size(), a_retained ? "yes" : "no");
    return !a_retained;
}
