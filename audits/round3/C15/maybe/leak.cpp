// maybe: the undone tail is dropped without being freed (LeakSanitizer reports it)
#include <rtosc/rtosc.h>
#include <rtosc/undo-history.h>
int main()
{
    rtosc::UndoHistory h;
    h.setCallback([](const char*){});
    char buf[128];
    rtosc_message(buf, sizeof buf, "/undo_change", "sii", "/a", 0, 1);
    h.recordEvent(buf);
    rtosc_message(buf, sizeof buf, "/undo_change", "sii", "/b", 0, 1);
    h.recordEvent(buf);
    h.seekHistory(-1);                  //undo /b
    rtosc_message(buf, sizeof buf, "/undo_change", "sii", "/c", 0, 1);
    h.recordEvent(buf);                 //drops the /b event: its buffer is never deleted
    return !(h.size() == 2 && h.getPos() == 2);
}
