// C15 audit, candidate 1: a merge whose surviving OLD value has a payload-free
// OSC type (T, F, N, I) and whose NEW value carries a payload (i, f, c, ...)
// stores the wrong new value: redo then replays a value nobody ever set.
#include <rtosc/rtosc.h>
#include <rtosc/undo-history.h>
#include <cstdio>
#include <cstring>
#include <string>
#include <vector>

struct Seen { std::string addr; char type; int i; };

static int run(const char *label,
               const std::vector<std::vector<char>> &events,
               char want_old_type, char want_new_type, int want_new)
{
    rtosc::UndoHistory h;
    std::vector<Seen> seen;
    h.setCallback([&](const char *m) {
        Seen s{m, rtosc_narguments(m) ? rtosc_type(m, 0) : '?', 0};
        if(s.type == 'i' || s.type == 'c')
            s.i = rtosc_argument(m, 0).i;
        seen.push_back(s);
    });
    for(auto &e : events)           //all recorded within the same two seconds
        h.recordEvent(e.data());

    int bad = 0;
    if(h.size() != 1 || h.getPos() != 1) {
        printf("%s: expected one merged event, got size=%zu pos=%u\n",
               label, h.size(), h.getPos());
        return 1;
    }
    h.seekHistory(-1);              //undo: must send the first old value
    h.seekHistory(+1);              //redo: must send the last new value
    if(seen.size() != 2) {
        printf("%s: expected 2 messages, got %zu\n", label, seen.size());
        return 1;
    }
    if(seen[0].type != want_old_type) {
        printf("%s: undo sent type %c, expected %c\n", label, seen[0].type, want_old_type);
        bad = 1;
    }
    if(seen[1].type != want_new_type || seen[1].i != want_new) {
        printf("%s: redo sent %s %c %d, expected %c %d  <-- VIOLATION\n", label,
               seen[1].addr.c_str(), seen[1].type, seen[1].i, want_new_type, want_new);
        bad = 1;
    } else
        printf("%s: ok (redo sent %c %d)\n", label, seen[1].type, seen[1].i);
    return bad;
}

static std::vector<char> ev(const char *types, const char *addr, int a = 0, int b = 0)
{
    //rtosc_message takes varargs only for payload-carrying types
    std::vector<char> buf(256);
    int n_payload = 0;
    for(const char *t = types + 1; *t; ++t)
        if(*t == 'i' || *t == 'c') ++n_payload;
    if(n_payload == 0)      rtosc_message(buf.data(), buf.size(), "/undo_change", types, addr);
    else if(n_payload == 1) rtosc_message(buf.data(), buf.size(), "/undo_change", types, addr, a);
    else                    rtosc_message(buf.data(), buf.size(), "/undo_change", types, addr, a, b);
    return buf;
}

int main()
{
    int bad = 0;
    //(a) a switch that takes T/F from the GUI and i 0/1 from a controller:
    //    off->on (T), on->off (F), off->on (i 1), all within two seconds.
    //    merged event must be  /on : F -> i 1
    bad |= run("toggle F->T, T->F, i 0->1",
               {ev("sFT", "/on"), ev("sTF", "/on"), ev("sii", "/on", 0, 1)},
               'F', 'i', 1);
    //(b) an optional parameter: unset (N) -> 3, then 3 -> 7.
    //    merged event must be  /detune : N -> i 7
    bad |= run("optional N->3, 3->7",
               {ev("sNi", "/detune", 3), ev("sii", "/detune", 3, 7)},
               'N', 'i', 7);
    //(c) control: old value with payload, new value without - this works
    bad |= run("control i 0->1, then T->F",
               {ev("sii", "/on", 0, 1), ev("sTF", "/on")},
               'i', 'F', 0);
    return bad;
}
