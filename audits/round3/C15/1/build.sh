#!/bin/sh
# builds the demo against the worktree sources directly and runs it
set -e
HERE=$(cd "$(dirname "$0")" && pwd)
W=$(cd "$HERE/../.." && pwd)
OUT=$(mktemp -d)
trap 'rm -rf "$OUT"' EXIT
gcc -g -O1 -c -fsanitize=address -I "$W/include" "$W/src/rtosc.c" -o "$OUT/rtosc.o"
g++ -std=c++17 -g -O1 -fsanitize=address -I "$W/include" \
    "$HERE/demo.cpp" "$W/src/cpp/undo-history.cpp" "$OUT/rtosc.o" -o "$OUT/demo"
"$OUT/demo"
