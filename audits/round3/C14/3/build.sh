#!/bin/sh
# builds demo.cpp against the worktree sources directly and runs it
set -e
HERE=$(cd "$(dirname "$0")" && pwd)
W=$(cd "$HERE/../.." && pwd)
T=$(mktemp -d)
trap 'rm -rf "$T"' EXIT
SAN="-g -O1 -fsanitize=address,undefined"
sed -e 's/\${VERSION_MAJOR}/0/' -e 's/\${VERSION_MINOR}/3/' -e 's/\${VERSION_PATCH}/1/' \
    "$W/src/cpp/version.c.in" > "$T/version.c"
for f in "$W"/src/*.c "$W"/src/cpp/*.c "$T/version.c"; do
    gcc -std=gnu99 $SAN -w -I "$W/include" -c "$f" -o "$T/$(basename "$f").o"
done
g++ -std=c++17 $SAN -w -I "$W/include" "$HERE/demo.cpp" \
    "$W/src/cpp/ports.cpp" "$W/src/cpp/ports-runtime.cpp" \
    "$W/src/cpp/default-value.cpp" "$W/src/cpp/savefile.cpp" \
    "$T"/*.o -o "$T/demo"
"$T/demo"
