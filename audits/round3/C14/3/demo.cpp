// C14 audit, finding 3: rParams(name, length) = rArray(name, length) plus the
// alias port "name:" that "gets all data from the aliased array".  Since
// rArrayI keeps the element type of the array (int, short, ...), the alias
// still replies a blob of `length` BYTES: for an int array that is the first
// quarter of the stored value.
#include <rtosc/ports.h>
#include <rtosc/port-sugar.h>
#include <rtosc/rtosc.h>
#include <cstdio>
#include <cstdarg>
#include <cstring>
#include <string>
#include <vector>
using namespace rtosc;

struct Obj { int steps[4]; char bytes[4]; static const Ports ports; };
#define rObject Obj
const Ports Obj::ports = {
    rParams(steps, 4, rLinear(-1000,1000), "int steps"),
    rParams(bytes, 4, "char steps"),
};
#undef rObject

struct D : RtData {
    char locbuf[128];
    std::vector<std::vector<char>> msgs;
    D() { loc = locbuf; loc_size = sizeof locbuf; memset(locbuf, 0, sizeof locbuf); }
    void reply(const char *m) override { msgs.emplace_back(m, m + rtosc_message_length(m, 2048)); }
    void reply(const char *path, const char *args, ...) override {
        va_list va; va_start(va,args); char buf[2048];
        rtosc_vmessage(buf,sizeof buf,path,args,va); va_end(va); reply(buf); }
    void broadcast(const char *path, const char *args, ...) override {
        va_list va; va_start(va,args); char buf[2048];
        rtosc_vmessage(buf,sizeof buf,path,args,va); va_end(va); (void)buf; }
    void broadcast(const char *) override {}
};

static void set(Obj &o, const char *addr, int v)
{
    char msg[64]; D d; d.obj = &o;
    rtosc_message(msg, sizeof msg, addr, "i", v);
    Obj::ports.dispatch(msg, d, true);
}

static int check(Obj &o, const char *addr, const void *stored, size_t stored_size)
{
    char msg[64]; D d; d.obj = &o;
    rtosc_message(msg, sizeof msg, addr, "");
    Obj::ports.dispatch(msg, d, true);
    if(d.msgs.size() != 1 || strcmp(d.msgs[0].data(), addr) ||
       rtosc_type(d.msgs[0].data(), 0) != 'b') {
        printf("%s: no blob reply\n", addr);
        return 1;
    }
    rtosc_blob_t b = rtosc_argument(d.msgs[0].data(), 0).b;
    printf("%s: stored array is %zu bytes, reply carries %d bytes\n", addr, stored_size, (int)b.len);
    if((size_t)b.len != stored_size || memcmp(b.data, stored, stored_size)) {
        printf("  -> the reply is not the stored value\n");
        return 1;
    }
    return 0;
}

int main()
{
    int bad = 0;
    Obj o{};
    // the element ports work for both arrays
    set(o, "/steps0", 100); set(o, "/steps1", 200); set(o, "/steps2", 300); set(o, "/steps3", 5000);
    set(o, "/bytes0", 1);   set(o, "/bytes1", 2);    set(o, "/bytes2", 3);   set(o, "/bytes3", 4);
    printf("steps = {%d,%d,%d,%d}\n", o.steps[0], o.steps[1], o.steps[2], o.steps[3]);
    if(o.steps[0] != 100 || o.steps[1] != 200 || o.steps[2] != 300 || o.steps[3] != 1000) bad++;

    bad += check(o, "/bytes", o.bytes, sizeof o.bytes);   // char array: complete
    bad += check(o, "/steps", o.steps, sizeof o.steps);   // int array: 4 of 16 bytes

    printf(bad ? "FAIL (%d)\n" : "PASS\n", bad);
    return bad ? 1 : 0;
}
