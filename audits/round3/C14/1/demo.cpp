// C14 audit, finding 1: in a port table that contains an array port (linear
// dispatch), a parameter whose full address fits the location buffer is not
// dispatched at all when the buffer is only a few bytes larger than the
// address: the fit test counts the ":..." argument specification of the port
// name, which is never written to the location.
#include <rtosc/ports.h>
#include <rtosc/port-sugar.h>
#include <rtosc/rtosc.h>
#include <cstdio>
#include <cstdarg>
#include <cstring>
#include <string>
#include <vector>
using namespace rtosc;

struct Lin    { int volume; int mode; float g[2]; static const Ports ports; };
struct Hashed { int volume; int mode;             static const Ports ports; };

#define rObject Lin
const Ports Lin::ports = {           // has an array -> linear dispatch
    rParamI(volume, rLinear(0,100), "volume"),
    rOption(mode,   rOptions(a,b,c), "mode"),
    rArrayF(g, 2, "gains"),
};
#undef rObject
#define rObject Hashed
const Ports Hashed::ports = {        // same two ports, no array -> hashed dispatch
    rParamI(volume, rLinear(0,100), "volume"),
    rOption(mode,   rOptions(a,b,c), "mode"),
};
#undef rObject

struct D : RtData {
    std::vector<std::string> log;
    void reply(const char *m) override { log.push_back(m); }
    void reply(const char *path, const char *args, ...) override {
        va_list va; va_start(va,args); char buf[1024];
        rtosc_vmessage(buf,sizeof buf,path,args,va); va_end(va); log.push_back(buf); }
    void broadcast(const char *path, const char *args, ...) override {
        va_list va; va_start(va,args); char buf[1024];
        rtosc_vmessage(buf,sizeof buf,path,args,va); va_end(va); log.push_back(buf); }
    void broadcast(const char *m) override { log.push_back(m); }
};

template<class O>
static bool set_and_query(size_t loc_size, const char *addr, int val, int O::*field)
{
    std::vector<char> loc(loc_size);
    char msg[64];
    O o{};
    D d; d.loc = loc.data(); d.loc_size = loc_size; d.obj = &o;
    rtosc_message(msg, sizeof msg, addr, "i", val);
    O::ports.dispatch(msg, d, true);
    bool stored = (o.*field == val);
    D q; q.loc = loc.data(); q.loc_size = loc_size; q.obj = &o;
    rtosc_message(msg, sizeof msg, addr, "");
    O::ports.dispatch(msg, q, true);
    bool replied = q.log.size() == 1 && q.log[0] == addr;
    return stored && replied;
}

int main()
{
    int bad = 0;
    // "/volume" needs 8 bytes including the terminator, "/mode" needs 6
    for(size_t sz = 8; sz <= 16; ++sz) {
        bool lin  = set_and_query<Lin>(sz, "/volume", 5, &Lin::volume);
        bool hash = set_and_query<Hashed>(sz, "/volume", 5, &Hashed::volume);
        printf("loc_size=%2zu  /volume i 5 : table with array %-8s  table without array %s\n",
               sz, lin ? "ok" : "IGNORED", hash ? "ok" : "IGNORED");
        if(!lin) bad++;
        if(!hash) bad++;
    }
    for(size_t sz = 6; sz <= 16; ++sz) {
        bool lin  = set_and_query<Lin>(sz, "/mode", 2, &Lin::mode);
        bool hash = set_and_query<Hashed>(sz, "/mode", 2, &Hashed::mode);
        printf("loc_size=%2zu  /mode i 2   : table with array %-8s  table without array %s\n",
               sz, lin ? "ok" : "IGNORED", hash ? "ok" : "IGNORED");
        if(!lin) bad++;
        if(!hash) bad++;
    }
    if(bad) printf("FAIL: %d set/query pairs whose address fits the location buffer were not dispatched\n", bad);
    else    printf("PASS\n");
    return bad ? 1 : 0;
}
