// C14 audit, finding 2: a float parameter (rParamF, rArrayF) with a declared
// range stores NaN unclamped, and every further NaN emits another undo event
// although the stored value does not change.
#include <rtosc/ports.h>
#include <rtosc/port-sugar.h>
#include <rtosc/rtosc.h>
#include <cstdio>
#include <cstdarg>
#include <cstring>
#include <cmath>
#include <string>
#include <vector>
using namespace rtosc;

struct Obj { float cutoff; float gain[4]; static const Ports ports; };
#define rObject Obj
const Ports Obj::ports = {
    rParamF(cutoff, rLinear(-1.5, 2.25), "a bounded float"),
    rArrayF(gain, 4, rLinear(0, 1),      "bounded floats"),
};
#undef rObject

struct D : RtData {
    char locbuf[128];
    int undo = 0, bcast = 0;
    D() { loc = locbuf; loc_size = sizeof locbuf; memset(locbuf, 0, sizeof locbuf); }
    void reply(const char *m) override { if(!strcmp(m, "/undo_change")) undo++; }
    void reply(const char *path, const char *args, ...) override {
        va_list va; va_start(va,args); char buf[1024];
        rtosc_vmessage(buf,sizeof buf,path,args,va); va_end(va); reply(buf); }
    void broadcast(const char *path, const char *args, ...) override { bcast++; (void)path; (void)args; }
    void broadcast(const char *) override { bcast++; }
};

static int send(Obj &o, const char *addr, float v)
{
    char msg[64];
    D d; d.obj = &o;
    rtosc_message(msg, sizeof msg, addr, "f", v);
    Obj::ports.dispatch(msg, d, true);
    return d.undo;
}

int main()
{
    int bad = 0;
    Obj o{};
    o.cutoff = 1.0f;
    o.gain[2] = 0.5f;

    int ev1 = send(o, "/cutoff", NAN);
    printf("/cutoff f nan : stored %g (declared range -1.5..2.25), undo events %d\n", o.cutoff, ev1);
    if(!(o.cutoff >= -1.5f && o.cutoff <= 2.25f)) { printf("  -> stored value is outside the declared range\n"); bad++; }

    unsigned before, after;
    memcpy(&before, &o.cutoff, 4);
    int ev2 = send(o, "/cutoff", NAN);
    memcpy(&after, &o.cutoff, 4);
    printf("/cutoff f nan (again): stored bits %08x -> %08x, undo events %d\n", before, after, ev2);
    if(before == after && ev2 != 0) { printf("  -> undo event although the stored value did not change\n"); bad++; }

    int ev3 = send(o, "/gain2", NAN);
    printf("/gain2 f nan  : stored %g (declared range 0..1), undo events %d\n", o.gain[2], ev3);
    if(!(o.gain[2] >= 0.f && o.gain[2] <= 1.f)) { printf("  -> stored value is outside the declared range\n"); bad++; }

    // for comparison: the infinities are clamped
    send(o, "/cutoff", INFINITY);
    printf("/cutoff f inf : stored %g\n", o.cutoff);
    if(o.cutoff != 2.25f) bad++;

    printf(bad ? "FAIL (%d)\n" : "PASS\n", bad);
    return bad ? 1 : 0;
}
