// C14 audit, finding 4: a bound declared through a named constant that is
// written the usual way - parenthesised, e.g. #define DETUNE_MIN (-64) - is
// stringified to "(-64)" and read back with atoi/atof, which yield 0.
// The port then clamps to 0 instead of the declared bound.
#include <rtosc/ports.h>
#include <rtosc/port-sugar.h>
#include <rtosc/rtosc.h>
#include <cstdio>
#include <cstdarg>
#include <cstring>
#include <string>
#include <vector>
using namespace rtosc;

#define DETUNE_MIN (-64)          // parenthesised as every style guide asks
#define DETUNE_MAX 63
#define PLAIN_MIN  -64            // unparenthesised spelling, for comparison
#define PAN_MIN    (-1.0f)
#define PAN_MAX    (1.0f)

struct Obj { int detune; int detune2; float pan; short tune[3]; static const Ports ports; };
#define rObject Obj
const Ports Obj::ports = {
    rParamI(detune,  rLinear(DETUNE_MIN, DETUNE_MAX), "detune"),
    rParamI(detune2, rLinear(PLAIN_MIN,  DETUNE_MAX), "detune, other spelling"),
    rParamF(pan,     rLinear(PAN_MIN, PAN_MAX),       "panning"),
    rArrayI(tune, 3, rLinear(DETUNE_MIN, DETUNE_MAX), "tunings"),
};
#undef rObject

struct D : RtData {
    char locbuf[128];
    D() { loc = locbuf; loc_size = sizeof locbuf; memset(locbuf, 0, sizeof locbuf); }
    void reply(const char *) override {}
};

template<class T> static void send(Obj &o, const char *addr, const char *type, T v)
{
    char msg[64]; D d; d.obj = &o;
    rtosc_message(msg, sizeof msg, addr, type, v);
    Obj::ports.dispatch(msg, d, true);
}

int main()
{
    int bad = 0;
    Obj o{};
    printf("metadata: detune min='%s'  detune2 min='%s'  pan min='%s' max='%s'\n",
           Obj::ports["detune"]->meta()["min"], Obj::ports["detune2"]->meta()["min"],
           Obj::ports["pan"]->meta()["min"],    Obj::ports["pan"]->meta()["max"]);

    send(o, "/detune",  "i", -10);
    send(o, "/detune2", "i", -10);
    printf("/detune  i -10 (declared %d..%d): stored %d\n", DETUNE_MIN, DETUNE_MAX, o.detune);
    printf("/detune2 i -10 (declared %d..%d): stored %d\n", PLAIN_MIN,  DETUNE_MAX, o.detune2);
    if(o.detune  != -10) bad++;
    if(o.detune2 != -10) bad++;

    send(o, "/tune1", "i", -64);
    printf("/tune1   i -64 (declared %d..%d): stored %d\n", DETUNE_MIN, DETUNE_MAX, (int)o.tune[1]);
    if(o.tune[1] != -64) bad++;

    send(o, "/pan", "f", 0.5f);
    printf("/pan     f 0.5 (declared %g..%g): stored %g\n", (double)PAN_MIN, (double)PAN_MAX, o.pan);
    if(o.pan != 0.5f) bad++;
    send(o, "/pan", "f", -0.5f);
    printf("/pan     f -0.5                : stored %g\n", o.pan);
    if(o.pan != -0.5f) bad++;

    printf(bad ? "FAIL (%d)\n" : "PASS\n", bad);
    return bad ? 1 : 0;
}
