// C19 audit candidate 2: an integer parameter whose declared upper bound lies
// above INT_MAX (an unsigned counter) is driven with INT_MIN in the upper part
// of the slot's travel: outside [min,max] and decreasing.
#include <rtosc/ports.h>
#include <rtosc/port-sugar.h>
#include <rtosc/automations.h>
#include <cstdio>
#include <cmath>
#include <vector>
#include <string>

struct Obj { unsigned count; };
#define rObject Obj
static const rtosc::Ports ports = {
    rParamI(count, rLinear(0, 3000000000), "an unsigned counter"),
};

int main()
{
    rtosc::AutomationMgr mgr(2, 1, 16);
    mgr.set_ports(ports);
    std::vector<std::string> addr;
    std::vector<char>        type;
    std::vector<int>         val;
    mgr.backend = [&](const char *m) {
        addr.push_back(m);
        type.push_back(rtosc_type(m, 0));
        val.push_back(rtosc_type(m, 0) == 'i' ? rtosc_argument(m, 0).i : 0);
    };
    mgr.createBinding(0, "count", false);   // default gain 100, offset 0

    int bad = 0;
    long long prev = -1;
    const float in[] = {0.f, 0.25f, 0.5f, 0.7f, 0.75f, 1.f};
    for(float x : in) {
        addr.clear(); type.clear(); val.clear();
        mgr.setSlot(0, x);
        if(addr.size() != 1 || addr[0] != "count" || type[0] != 'i') {
            puts("no 'i' message to the bound address");
            return 1;
        }
        const long long v = val[0];
        // declared range is [0, 3000000000]; an 'i' argument can carry
        // [0, 2147483647] of it
        const bool ok = v >= 0 && v <= 3000000000LL && v >= prev;
        printf("slot %-4g -> %-12lld %s\n", x, v, ok ? "ok" : "VIOLATION");
        if(!ok)
            bad = 1;
        prev = v;
    }
    puts(bad ? "FAIL: property C19 violated" : "PASS");
    return bad;
}
