#!/bin/sh
# builds demo.cpp against the worktree sources directly and runs it
set -e
here=$(cd "$(dirname "$0")" && pwd)
root=$(cd "$here/../.." && pwd)
tmp=$(mktemp -d)
trap 'rm -rf "$tmp"' EXIT
for f in "$root"/src/*.c "$root"/src/cpp/*.c; do
    gcc -std=gnu99 -g -w -fsanitize=address,undefined -I "$root/include" -c "$f" -o "$tmp/$(basename "$f").o"
done
for f in automations ports ports-runtime default-value; do
    g++ -std=c++17 -g -w -fsanitize=address,undefined -I "$root/include" -c "$root/src/cpp/$f.cpp" -o "$tmp/$f.o"
done
g++ -std=c++17 -g -w -fsanitize=address,undefined -I "$root/include" "$here/demo.cpp" "$tmp"/*.o -o "$tmp/demo"
"$tmp/demo"
