// C19 audit candidate 1: a float parameter whose declared span exceeds
// FLT_MAX/100 is driven with NaN for every slot value.
#include <rtosc/ports.h>
#include <rtosc/port-sugar.h>
#include <rtosc/automations.h>
#include <cstdio>
#include <cmath>
#include <cstring>
#include <vector>
#include <string>

struct Obj { float wide; float pos; };
#define rObject Obj
static const rtosc::Ports ports = {
    // both bounds are ordinary floats (FLT_MAX is 3.4e38)
    rParamF(wide, rLinear(-1e37, 1e37), "symmetric, span 2e37"),
    rParamF(pos,  rLinear(0, 1e37),     "one-sided, span 1e37"),
};

struct Emit { std::string addr; char type; float f; };

static int check(const char *path, double mn, double mx)
{
    rtosc::AutomationMgr mgr(2, 1, 16);
    mgr.set_ports(ports);
    std::vector<Emit> got;
    mgr.backend = [&](const char *m) {
        Emit e{m, rtosc_type(m, 0), 0.f};
        if(e.type == 'f')
            e.f = rtosc_argument(m, 0).f;
        got.push_back(e);
    };
    mgr.createBinding(0, path, false);     // default gain 100, offset 0

    int bad = 0;
    const float in[] = {0.f, 0.25f, 0.5f, 0.75f, 1.f};
    float prev = -INFINITY;
    for(float x : in) {
        got.clear();
        mgr.setSlot(0, x);
        if(got.size() != 1 || got[0].addr != path || got[0].type != 'f') {
            printf("%s: slot %g: no float message to the bound address\n",
                   path, x);
            return 1;
        }
        const float v = got[0].f;
        const double want = mn + (double)x*(mx - mn);
        // in range, linear (1e-6 of the span is far more than float rounding
        // needs), never decreasing
        const bool ok = v >= mn && v <= mx
                     && fabs(v - want) <= 1e-6*(mx - mn)
                     && v >= prev;
        printf("%s: slot %-4g -> %-14g (want %-14g) %s\n",
               path, x, v, want, ok ? "ok" : "VIOLATION");
        if(!ok)
            bad = 1;
        prev = v;
    }
    return bad;
}

int main()
{
    int bad = 0;
    bad |= check("wide", -1e37, 1e37);
    bad |= check("pos",   0,    1e37);
    puts(bad ? "FAIL: property C19 violated" : "PASS");
    return bad;
}
