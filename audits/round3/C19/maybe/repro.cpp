// Reproduces the behaviours listed in ../maybe.md (prints, always exits 0).
#include <rtosc/ports.h>
#include <rtosc/port-sugar.h>
#include <rtosc/automations.h>
#include <cstdio>
#include <cmath>
#include <string>
struct Obj { int vol; float gain; float tenth; float dec; float lg0; int arr[4]; };
#define rObject Obj
static const rtosc::Ports ports = {
    rParamI(vol,   rLinear(0, 100), "int"),
    rParamF(gain,  rLinear(0, 100), "float"),
    rParamF(tenth, rLinear(0, 0.1), "max is not a float"),
    rParamF(dec,   rLinear(0.1, 10), "decimal bounds"),
    rParamF(lg0,   rLog(0, 100), "log scale from 0, no logmin"),
    rArrayI(arr, 4, rLinear(0, 10), "array"),
};
static void show(const char *m)
{
    char t = rtosc_type(m, 0);
    if(t == 'i')      printf("    %s i %d\n", m, rtosc_argument(m, 0).i);
    else if(t == 'f') printf("    %s f %.9g\n", m, rtosc_argument(m, 0).f);
    else              printf("    %s %c\n", m, t);
}
int main()
{
    {
        puts("M1 simpleSlope(slope 20, offset 50) then setSlot(0.5): int vs float parameter");
        rtosc::AutomationMgr mgr(2, 2, 16); mgr.set_ports(ports); mgr.backend = show;
        mgr.createBinding(0, "vol", false); mgr.createBinding(0, "gain", false);
        mgr.simpleSlope(0, 0, 20, 50); mgr.simpleSlope(0, 1, 20, 50);
        for(float x : {0.f, 1.f}) { printf("  slot %g\n", x); mgr.setSlot(0, x); }
        puts("M2 setSlotSubGain(50) without updateMapping, setSlot(1)");
        mgr.clearSlot(0);
        mgr.createBinding(0, "vol", false); mgr.createBinding(0, "gain", false);
        mgr.setSlotSubGain(0, 0, 50); mgr.setSlotSubGain(0, 1, 50);
        mgr.setSlot(0, 1);
    }
    {
        puts("M3 NRPN learn: value 8192/16383 (msb 64, lsb 0) is the learning message");
        rtosc::AutomationMgr mgr(2, 1, 16); mgr.set_ports(ports); mgr.backend = show;
        mgr.createBinding(0, "gain", true);
        mgr.handleMidi(0, 99, 1); mgr.handleMidi(0, 98, 2);
        mgr.handleMidi(0, 6, 64); mgr.handleMidi(0, 0x26, 0);
        printf("  bound to nrpn %d; same message again:\n", mgr.slots[0].midi_nrpn);
        mgr.handleMidi(0, 0x26, 0);
        puts("M4 RPN 0 (pitch bend range) data entry after that NRPN stays selected");
        mgr.handleMidi(0, 101, 0); mgr.handleMidi(0, 100, 0);
        mgr.handleMidi(0, 6, 12);
    }
    {
        puts("M5 float bounds that are not floats / decimal bounds, default gain");
        rtosc::AutomationMgr mgr(2, 2, 16); mgr.set_ports(ports); mgr.backend = show;
        mgr.createBinding(0, "tenth", false); mgr.setSlot(0, 1);
        printf("    (declared max as double: %.17g)\n", 0.1);
        mgr.createBinding(1, "dec", false); mgr.setSlot(1, 0);
        printf("    (declared min as float: %.9g)\n", 0.1f);
    }
    {
        puts("M6 rLog(0,100) without logmin");
        rtosc::AutomationMgr mgr(2, 1, 16); mgr.set_ports(ports); mgr.backend = show;
        mgr.createBinding(0, "lg0", false); mgr.setSlot(0, 0.5);
    }
    {
        puts("M7 createBinding(0, \"arr\") (index left out)");
        rtosc::AutomationMgr mgr(2, 1, 16); mgr.set_ports(ports); mgr.backend = show;
        mgr.createBinding(0, "arr", false); mgr.setSlot(0, 1);
    }
    puts("M8/M9 (out-of-range indices, control_points < 4) are heap overflows: see maybe.md");
    return 0;
}
