#!/bin/sh
# usage: ./build.sh   (run from anywhere)
set -u
HERE=$(cd "$(dirname "$0")" && pwd)
WT=$(cd "$HERE/../.." && pwd)
OUT=$(mktemp -d)
trap 'rm -rf "$OUT"' EXIT
gcc -std=gnu11 -g -fsanitize=address,undefined -I "$WT/include" \
    "$HERE/demo.c" "$WT/src/rtosc.c" -o "$OUT/demo" || exit 99
rc=0
"$OUT/demo" stream; a=$?
echo "scenario stream: exit $a"
"$OUT/demo" exact 2>&1 | head -12; b=$?
"$OUT/demo" exact >/dev/null 2>&1; b=$?
echo "scenario exact: exit $b"
[ $a -eq 0 ] && [ $b -eq 0 ] || rc=1
exit $rc
