#define _GNU_SOURCE
/* C02 / defect 1: a bundle that rtosc_bundle() itself produced into a buffer of
 * exactly the size it returns cannot be nested: rtosc_bundle() sizes a bundle
 * element by scanning for a zero word BEHIND the element (there is none inside
 * [elem, elem+size)), so it reads past the element and returns a size that is
 * not the encoded size of what it was given.
 *
 * scenario "stream": the inner bundle sits in a size-prefixed packet stream
 *                    (OSC over TCP framing), i.e. it is followed by live data.
 *                    No sanitizer needed: wrong return value / foreign bytes.
 * scenario "exact":  the inner bundle sits in a heap block of exactly `needed`
 *                    bytes.  ASan: heap-buffer-overflow (read) in rtosc_bundle.
 */
#include <rtosc/rtosc.h>
#include <stdio.h>
#include <stdlib.h>
#include <string.h>
#include <stdint.h>

static void put32(char *p, uint32_t v)
{ p[0]=v>>24; p[1]=v>>16; p[2]=v>>8; p[3]=v; }

int main(int argc, char **argv)
{
    const int exact = argc > 1 && !strcmp(argv[1], "exact");
    char m1[32], m2[32];
    const size_t l1 = rtosc_message(m1, sizeof m1, "/a", "i", 1);   /* 12 */
    const size_t l2 = rtosc_message(m2, sizeof m2, "/zz", "i", 2);  /* 12 */
    const size_t inner_needed = 16 + 4 + l1;                        /* 32 */

    if(exact) {
        char *inner = (char*)malloc(inner_needed);
        memset(inner, 0x55, inner_needed);
        size_t r = rtosc_bundle(inner, inner_needed, 1, 1, m1);
        if(r != inner_needed) { printf("inner: %zu\n", r); return 2; }
        char outer[256];
        size_t ro = rtosc_bundle(outer, sizeof outer, 2, 1, inner);
        printf("exact: outer=%zu expected=%zu\n", ro, 16+4+inner_needed);
        free(inner);
        return ro == 16+4+inner_needed ? 0 : 1;
    }

    /* a stream of packets: [size][packet][size][packet][0] */
    char stream[128];
    memset(stream, 0, sizeof stream);
    size_t p = 0;
    /* packet 1: the inner bundle, built in place with exactly the capacity
     * that a NULL-less size computation (16 + 4 + len(m1)) says it needs */
    size_t r = rtosc_bundle(stream+p+4, inner_needed, 1, 1, m1);
    if(r != inner_needed) { printf("inner: %zu\n", r); return 2; }
    put32(stream+p, r);           p += 4 + r;
    char *inner = stream + 4;
    /* packet 2: an unrelated message */
    put32(stream+p, l2);          memcpy(stream+p+4, m2, l2); p += 4 + l2;

    /* the inner bundle is a valid 32 byte OSC bundle */
    if(rtosc_message_length(inner, inner_needed) != inner_needed) return 2;

    const size_t expected = 16 + 4 + inner_needed;   /* 52 */
    int rc = 0;
    for(size_t cap = 0; cap <= expected + 8 + 16; ++cap) {
        char *outer = (char*)malloc(cap ? cap : 1);
        memset(outer, 0x55, cap ? cap : 1);
        size_t ro = rtosc_bundle(outer, cap, 2, 1, inner);
        if(cap >= expected && ro != expected) {
            if(!rc)
                printf("stream: capacity %zu: rtosc_bundle returned %zu, the "
                       "encoded size of {inner} is %zu\n", cap, ro, expected);
            if(ro > expected && memmem(outer, ro, "/zz", 3) && cap == expected+16)
                printf("stream: capacity %zu: the result carries the unrelated "
                       "message /zz\n", cap);
            rc = 1;
        }
        free(outer);
    }
    return rc;
}
