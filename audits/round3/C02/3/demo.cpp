/* C02 / defect 3: subtree_serialize() builds a bundle into the caller's
 * buffer of capacity buffer_size.  When the bundle does not fit it returns 0,
 * but the buffer is left holding a partial bundle (header + the elements that
 * did fit) instead of being zero-filled.
 */
#include <rtosc/rtosc.h>
#include <rtosc/ports.h>
#include <rtosc/port-sugar.h>
#include <rtosc/subtree-serialize.h>
#include <cstdio>
#include <cstdlib>
#include <cstring>
using namespace rtosc;

struct Object {
    char  foo;
    float bar;
    int   baz;
    static Ports ports;
};
#define rObject Object
Ports Object::ports = {
    rParam(foo,  "a character field"),
    rParamF(bar, "a float field"),
    rToggle(baz, "a toggle"),
};
#undef rObject

int main()
{
    Object o; o.foo = 12; o.bar = 1.5f; o.baz = 1;

    static char big[2048];
    const size_t needed = subtree_serialize(big, sizeof big, &o, &Object::ports);
    printf("needed = %zu, elements = %zu\n", needed,
           rtosc_bundle_elements(big, needed));
    if(!needed) return 2;

    int rc = 0;
    for(size_t cap = 0; cap <= needed + 8; ++cap) {
        char *buf = (char*)malloc(cap ? cap : 1);
        memset(buf, 0x55, cap ? cap : 1);
        const size_t r = subtree_serialize(buf, cap, &o, &Object::ports);
        if(cap >= needed) {
            if(r != needed) { printf("cap %zu: returned %zu\n", cap, r); rc = 1; }
        } else {
            if(r != 0)      { printf("cap %zu: returned %zu\n", cap, r); rc = 1; }
            size_t dirty = 0;
            for(size_t i = 0; i < cap; ++i) dirty += buf[i] != 0;
            if(dirty) {
                if(cap == 16 || cap == needed-1)
                    printf("cap %zu: returned 0 but left %zu non-zero bytes, "
                           "\"%s\" with %zu element(s)\n", cap, dirty, buf,
                           cap >= 20 ? rtosc_bundle_elements(buf, cap) : (size_t)0);
                rc = 3;
            }
        }
        free(buf);
    }
    return rc;
}
