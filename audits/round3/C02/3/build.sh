#!/bin/sh
set -u
HERE=$(cd "$(dirname "$0")" && pwd)
WT=$(cd "$HERE/../.." && pwd)
OUT=$(mktemp -d)
trap 'rm -rf "$OUT"' EXIT
S="$WT/src"
for f in rtosc.c dispatch.c rtosc-time.c cpp/pretty-format.c cpp/arg-ext.c cpp/arg-val.c \
         cpp/arg-val-math.c cpp/arg-val-cmp.c cpp/arg-val-itr.c cpp/util.c; do
    gcc -std=gnu11 -g -fsanitize=address,undefined -I "$WT/include" -c "$S/$f" \
        -o "$OUT/$(echo $f | tr / _).o" || exit 99
done
g++ -std=c++17 -g -fsanitize=address,undefined -I "$WT/include" \
    "$HERE/demo.cpp" "$S/cpp/ports.cpp" "$S/cpp/ports-runtime.cpp" \
    "$S/cpp/default-value.cpp" "$S/cpp/subtree-serialize.cpp" \
    "$OUT"/*.o -o "$OUT/demo" || exit 99
"$OUT/demo"; a=$?
echo "demo: exit $a"
[ $a -eq 0 ] || exit 1
exit 0
