/* C02 / defect 2: rtosc_bundle() sizes its elements twice -- once before it
 * has written anything (after memset(buffer,0,len)) and once more, element by
 * element, after it has written "#bundle" into the destination.  A bundle has
 * no length of its own: its size is found by scanning for the zero word behind
 * it.  If an element bundle ends exactly where the destination starts (bundles
 * packed back to back in one zero-filled arena), pass 1 sees the zero word
 * (the memset just made it), pass 2 sees "#bun" = 0x2362756e and walks ~593 MB
 * forward: wild read, and if that memory is readable, a memcpy of that many
 * bytes into a destination whose capacity check said 52.
 */
#include <rtosc/rtosc.h>
#include <stdio.h>
#include <stdlib.h>
#include <string.h>

int main(void)
{
    char m1[32];
    const size_t l1 = rtosc_message(m1, sizeof m1, "/a", "i", 1);   /* 12 */

    const size_t cap = 4096;
    char *arena = (char*)calloc(1, cap);        /* zero filled */
    size_t p = 0;

    /* record 1: {m1}; the arena behind it is zero: the bundle is terminated */
    size_t r1 = rtosc_bundle(arena+p, cap-p, 1, 1, m1);
    if(r1 != 16+4+l1) return 2;
    if(rtosc_message_length(arena, (size_t)-1) != r1) return 2;
    p += r1;

    /* record 2: {record 1}, appended right behind record 1 */
    const size_t expected = 16+4+r1;
    size_t r2 = rtosc_bundle(arena+p, cap-p, 2, 1, arena);
    printf("record 2: returned %zu, expected %zu\n", r2, expected);
    int rc = r2 == expected ? 0 : 1;
    free(arena);
    return rc;
}
