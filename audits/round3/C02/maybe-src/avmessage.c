#include <rtosc/rtosc.h>
#include <rtosc/arg-val.h>
#include <rtosc/arg-ext.h>
#include <stdio.h>
#include <string.h>
int main(int argc,char**argv){
    char buf[256];
    if(argc>1){ size_t r=rtosc_avmessage(buf,256,"/x",0,NULL); printf("r=%zu\n",r); return 0;}
    rtosc_arg_val_t av[4]; memset(av,0,sizeof av);
    av[0].type='a'; rtosc_av_arr_type_set(&av[0],'i'); rtosc_av_arr_len_set(&av[0],2);
    av[1].type='i'; av[1].val.i=1; av[2].type='i'; av[2].val.i=2;
    av[3].type='s'; av[3].val.s="hello";
    size_t r=rtosc_avmessage(buf,256,"/x",4,av);
    printf("r=%zu types=%s\n",r,rtosc_argument_string(buf));
    return 0;
}
