#!/bin/bash
# usage: ./maybe-repro.sh nrpn|chan|norange|unmapqueued
cd "$(dirname "$0")" && . ./common.sh
T=$(mktemp -d)
for f in $W/src/*.c $W/src/cpp/*.c; do gcc -std=c99 -O1 -I $W/include -c $f -o $T/$(basename $f).o; done
for f in midimapper ports ports-runtime default-value; do g++ -std=c++17 -O1 -I $W/include -c $W/src/cpp/$f.cpp -o $T/$f.o; done
g++ -std=c++17 -O1 -I $W/include maybe-repro.cpp $T/*.o -o $T/mb && $T/mb "$1"; rc=$?
rm -rf $T; exit $rc
