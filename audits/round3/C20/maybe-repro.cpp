#include <rtosc/miditable.h>
#include <rtosc/port-sugar.h>
#include <rtosc/ports.h>
#include <cstdio>
#include <cstring>
using namespace rtosc;
struct Obj { float fa; int ia; bool t;};
#define rObject Obj
static const Ports ports = {
    rParamF(fa, rLinear(0,1), "float"),
    rParamI(ia, rLinear(-10,50), "int"),
    rToggle(t, "no range"),
};
int main(int argc, char**argv){
    MidiMapperRT rt; MidiMappernRT nrt; nrt.base_ports=&ports;
    nrt.rt_cb=[&](const char*m){char loc[64]; RtData d; d.loc=loc; d.loc_size=64; d.obj=&rt; MidiMapperRT::ports.dispatch(m+12,d,false);};
    rt.setFrontendCb([&](const char*m){nrt.useFreeID(rtosc_argument(m,0).i);});
    rt.setBackendCb([&](const char*m){ printf("  %s %c ", m, rtosc_type(m,0)); if(rtosc_type(m,0)=='f') printf("%f\n", rtosc_argument(m,0).f); else printf("%d\n", rtosc_argument(m,0).i);});
    if(argc>1 && !strcmp(argv[1],"nrpn")) {
        nrt.map("/fa",true); rt.handleCC(300, 0, 1, true);
        printf("NRPN 300 with 14-bit data 200, 8000, 16383:\n");
        rt.handleCC(300, 200, 1, true); rt.handleCC(300, 8000, 1, true); rt.handleCC(300, 16383, 1, true);
    } else if(argc>1 && !strcmp(argv[1],"chan")) {
        nrt.map("/fa",true); rt.handleCC(7, 0, 1);
        printf("controller 7 on channel 1 learned; controller 7 on channel 0 and 17 (never assigned):\n");
        rt.handleCC(7, 64, 0); rt.handleCC(7, 64, 17);
    } else if(argc>1 && !strcmp(argv[1],"norange")) {
        nrt.map("/t",true); rt.handleCC(7, 0);
        printf("survived\n");
    } else if(argc>1 && !strcmp(argv[1],"unmapqueued")) {
        nrt.map("/fa",true); nrt.unMap("/fa",true); nrt.unMap("/fa",false);
        printf("after unMap: hasPending=%d watch=%u\n", (int)nrt.hasPending("/fa"), rt.watchSize);
        rt.handleCC(7, 0); rt.handleCC(7,64);
    }
}
