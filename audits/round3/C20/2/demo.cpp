// C20 audit, candidate 2: the realtime half wired with the (deprecated but
// public) port constructors addWatchPort/removeWatchPort/bindPort has no
// handler for /midi-learn/midi-unuse-CC, the answer the repaired protocol
// relies on.  A controller reported for a request that clear() dropped stays
// in the pending set for ever and can never be learned again.
#include <rtosc/miditable.h>
#include <rtosc/port-sugar.h>
#include <rtosc/ports.h>
#include <cstdio>
#include <cstring>
#include <deque>
#include <string>
using namespace rtosc;
struct Obj { float fa, fb; };
#define rObject Obj
static const Ports ports = {
    rParamF(fa, rLinear(0,1), "float"),
    rParamF(fb, rLinear(-2,2), "float"),
};
struct Sys {
    MidiMapperRT rt; MidiMappernRT nrt;
    Ports learn;                           // the application's "midi-learn/" sub-tree
    std::deque<std::string> toRT, toNRT;   // the two FIFOs
    std::deque<std::string> out;           // parameter messages
    int unhandled = 0;
    Sys() : learn({rt.addWatchPort(), rt.removeWatchPort(), rt.bindPort()}) {
        nrt.base_ports = &ports;
        nrt.rt_cb = [this](const char *m){ toRT.emplace_back(m, rtosc_message_length(m,1024)); };
        rt.setFrontendCb([this](const char *m){ toNRT.emplace_back(m, rtosc_message_length(m,1024)); });
        rt.setBackendCb([this](const char *m){ out.emplace_back(m, rtosc_message_length(m,1024)); });
    }
    bool delRT() {
        if(toRT.empty()) return false;
        std::string m = toRT.front(); toRT.pop_front();
        char loc[128]; RtData d; d.loc = loc; d.loc_size = 128; d.obj = &rt; d.matches = 0;
        learn.dispatch(m.c_str()+strlen("/midi-learn/"), d, false);
        printf("   nRT->RT  %s%s\n", m.c_str(), d.matches ? "" : "   <-- no port takes it");
        if(!d.matches) unhandled++;
        return true;
    }
    bool delNRT() {
        if(toNRT.empty()) return false;
        std::string m = toNRT.front(); toNRT.pop_front();
        printf("   RT->nRT  %s %d\n", m.c_str(), rtosc_argument(m.data(),0).i);
        nrt.useFreeID(rtosc_argument(m.data(),0).i);
        return true;
    }
    void drain() { while(delRT() || delNRT()); }
};
int main()
{
    Sys s; int bad = 0;
    printf("map(/fa)\n");   s.nrt.map("/fa", true); s.drain();
    printf("CC(5)   (report in flight)\n"); s.rt.handleCC(5, 64);
    printf("clear()\n");    s.nrt.clear();
    s.drain();              // remove-watch, bind, then the report, then its answer
    printf("quiescent: learnQueue=%zu watchSize=%u pending=%d\n",
           s.nrt.learnQueue.size(), s.rt.watchSize, s.rt.pending.size);
    printf("map(/fb)\n");   s.nrt.map("/fb", true); s.drain();
    printf("CC(5)   (not assigned to anything, /fb is the oldest queued address)\n");
    s.rt.handleCC(5, 64);   s.drain();
    printf("/fb bound to %d (statement: 5)\n", s.nrt.getCoarse("/fb"));
    if(s.nrt.getCoarse("/fb") != 5) bad = 1;
    for(int i = 0; i < 3; ++i) { s.rt.handleCC(5, 10*i); s.drain(); }  // try harder
    s.out.clear();
    s.rt.handleCC(5, 100);
    if(s.out.size() != 1 || strcmp(s.out.front().c_str(), "/fb")) {
        printf("FAIL: controller 5 does not drive /fb (%zu messages); request /fb still queued: %d; "
               "5 still parked as reported: %d\n", s.out.size(),
               (int)s.nrt.hasPending("/fb"), (int)s.rt.pending.has(5));
        bad = 1;
    }
    printf(bad ? "property violated\n" : "property held\n");
    return bad;
}
