// C20 audit, candidate 1: after clear() the realtime half keeps a watch that
// no request owns; a controller moved while nothing is queued is reported and
// ends up bound to an address that was queued only afterwards.
#include <rtosc/miditable.h>
#include <rtosc/port-sugar.h>
#include <rtosc/ports.h>
#include <cstdio>
#include <cstring>
#include <deque>
#include <string>
using namespace rtosc;
struct Obj { int ia; float fa, fb; };
#define rObject Obj
static const Ports ports = {
    rParamI(ia, rLinear(-10,50), "int"),
    rParamF(fa, rLinear(0,1), "float"),
    rParamF(fb, rLinear(-2,2), "float"),
};
struct Sys {
    MidiMapperRT rt; MidiMappernRT nrt;
    std::deque<std::string> toRT, toNRT;   // the two FIFOs
    std::deque<std::string> out;           // parameter messages
    Sys() {
        nrt.base_ports = &ports;
        nrt.rt_cb = [this](const char *m){ toRT.emplace_back(m, rtosc_message_length(m,1024)); };
        rt.setFrontendCb([this](const char *m){ toNRT.emplace_back(m, rtosc_message_length(m,1024)); });
        rt.setBackendCb([this](const char *m){ out.emplace_back(m, rtosc_message_length(m,1024)); });
    }
    bool delRT() {
        if(toRT.empty()) return false;
        std::string m = toRT.front(); toRT.pop_front();
        char loc[128]; RtData d; d.loc = loc; d.loc_size = 128; d.obj = &rt;
        printf("   nRT->RT  %s\n", m.c_str());
        MidiMapperRT::ports.dispatch(m.c_str()+strlen("/midi-learn/"), d, false);
        return true;
    }
    bool delNRT() {
        if(toNRT.empty()) return false;
        std::string m = toNRT.front(); toNRT.pop_front();
        printf("   RT->nRT  %s %d\n", m.c_str(), rtosc_argument(m.data(),0).i);
        nrt.useFreeID(rtosc_argument(m.data(),0).i);
        return true;
    }
    void drain() { while(delRT() || delNRT()); }
};
int main()
{
    Sys s; int bad = 0;
    printf("map(/fa)\n");        s.nrt.map("/fa", true); s.drain();
    printf("CC(5)  (report stays in flight)\n"); s.rt.handleCC(5, 64);
    printf("clear()\n");         s.nrt.clear();
    printf("map(/fb)\n");        s.nrt.map("/fb", true);
    printf("deliver everything\n"); s.drain();
    // quiescent now: nothing in flight in either direction
    printf("quiescent: learnQueue=%zu watchSize=%u pending=%d  /fb bound to %d\n",
           s.nrt.learnQueue.size(), s.rt.watchSize, s.rt.pending.size, s.nrt.getCoarse("/fb"));
    if(s.rt.watchSize != s.nrt.learnQueue.size()) {
        printf("FAIL: realtime half has %u watch(es) armed for %zu queued request(s)\n",
               s.rt.watchSize, s.nrt.learnQueue.size());
        bad = 1;
    }
    // nothing is queued anywhere. A controller that moves now must be nobody's.
    printf("CC(30) while nothing is queued\n"); s.rt.handleCC(30, 10);
    if(!s.toNRT.empty()) {
        printf("FAIL: controller 30 is reported to the non-realtime half although no request exists\n");
        bad = 1;
    }
    printf("map(/ia)  (queued after controller 30 moved)\n"); s.nrt.map("/ia", true);
    s.drain();
    printf("CC(31)  (first unassigned controller after /ia was queued)\n"); s.rt.handleCC(31, 10);
    s.drain();
    printf("/ia bound to %d (statement: 31)\n", s.nrt.getCoarse("/ia"));
    if(s.nrt.getCoarse("/ia") != 31) bad = 1;
    s.out.clear();
    s.rt.handleCC(31, 100);
    if(s.out.size() != 1 || strcmp(s.out.front().c_str(), "/ia")) {
        printf("FAIL: controller 31 does not drive /ia (%zu messages)\n", s.out.size());
        bad = 1;
    }
    s.out.clear();
    s.rt.handleCC(30, 100);
    if(!s.out.empty()) {
        printf("FAIL: controller 30 (moved only while nothing was queued) drives %s\n", s.out.front().c_str());
        bad = 1;
    }
    printf(bad ? "property violated\n" : "property held\n");
    return bad;
}
