#!/bin/bash
cd "$(dirname "$0")" && . ../common.sh && build_demo demo.cpp
