# shared by the build.sh files: compile the library sources the demos need
# usage: . ../common.sh ; build_demo demo.cpp
W=$(cd "$(dirname "${BASH_SOURCE[0]}")/.." && pwd)
build_demo() {
    local T; T=$(mktemp -d)
    for f in $W/src/*.c $W/src/cpp/*.c; do
        gcc -std=c99 -g -O1 -fsanitize=address,undefined -I $W/include -c $f -o $T/$(basename $f).o || return 2
    done
    for f in midimapper ports ports-runtime default-value; do
        g++ -std=c++17 -g -O1 -fsanitize=address,undefined -I $W/include -c $W/src/cpp/$f.cpp -o $T/$f.o || return 2
    done
    g++ -std=c++17 -g -O1 -fsanitize=address,undefined -I $W/include $1 $T/*.o -o $T/demo || return 2
    # the library never frees snapshots (documented TODO) - not what is shown here
    ASAN_OPTIONS=detect_leaks=0 $T/demo; local rc=$?
    rm -rf $T
    return $rc
}
