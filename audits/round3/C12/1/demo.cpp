// C12 audit, candidate 1: an integer array whose elements form an arithmetic
// progression only in wrapped 32-bit arithmetic is "compressed" into a range
// by the savefile printer; the resulting line cannot be loaded.
#include <rtosc/rtosc.h>
#include <rtosc/ports.h>
#include <rtosc/port-sugar.h>
#include <rtosc/savefile.h>
#include <cstdio>
#include <cstring>
#include <climits>
#include <string>
#include <set>
using namespace rtosc;

struct App {
    int steps[5] = {0,0,0,0,0};
    static const Ports ports;
};
#define rObject App
const Ports App::ports = {
    // no rLinear: the declared range is the whole int range
    rArrayI(steps, 5, rDefault([0 0 0 0 0]), "five integer parameters"),
};
#undef rObject

static void set(App& a, const char* path, int v)
{
    char buf[256]; rtosc_message(buf, sizeof buf, path, "i", v);
    char loc[256] = ""; RtData d; d.obj = &a; d.loc = loc; d.loc_size = sizeof loc;
    App::ports.dispatch(buf, d, true);
}

int main()
{
    App a;
    // five legal values, each sent as an ordinary parameter message
    const int vals[5] = { INT_MAX-1, INT_MAX, INT_MIN, INT_MIN+1, INT_MIN+2 };
    for(int k = 0; k < 5; ++k) {
        char p[32]; snprintf(p, sizeof p, "/steps%d", k); set(a, p, vals[k]);
    }
    for(int k = 0; k < 5; ++k) if(a.steps[k] != vals[k]) { puts("setup failed"); return 2; }

    std::set<std::string> w;
    std::string file = save_to_file(App::ports, &a, "demo", rtosc_version{1,0,0}, w, {});
    printf("savefile:\n%s\n", file.c_str());

    App b;
    int r = load_from_file(file.c_str(), App::ports, &b, "demo", rtosc_version{1,0,0}, nullptr);
    printf("load_from_file = %d (expected 1)\n", r);
    bool same = !memcmp(a.steps, b.steps, sizeof a.steps);
    for(int k = 0; k < 5; ++k) printf("steps[%d]: saved %d, loaded %d\n", k, a.steps[k], b.steps[k]);
    return (r == 1 && same) ? 0 : 1;
}
