// C12 audit, candidate 4: the text-format reader dereferences a NULL string
// buffer whenever the value next to an ellipsis "..." is a symbol.
//  (a) a legal default for an option array, rDefault([saw sine ...])
//      ("first element saw, all others sine"), makes save_to_file crash even
//      for an untouched application;
//  (b) a savefile line with a malformed range, "/wave [0 1 ... x]", crashes
//      load_from_file instead of being rejected with a negative result.
// Each case runs in a child process so that both can be shown.
#include <rtosc/rtosc.h>
#include <rtosc/ports.h>
#include <rtosc/port-sugar.h>
#include <rtosc/savefile.h>
#include <cstdio>
#include <cstring>
#include <string>
#include <set>
#include <unistd.h>
#include <sys/wait.h>
using namespace rtosc;

struct App {
    int wave[4] = {1, 0, 0, 0};   // saw sine sine sine
    static const Ports ports;
};
#define rObject App
const Ports App::ports = {
    rArrayOption(wave, 4, rOptions(sine, saw, square),
                 rDefault([saw sine ...]), "waveform per oscillator"),
};
#undef rObject

// same application, default spelled out (to show (b) on its own)
struct App2 {
    int wave[4] = {1, 0, 0, 0};
    static const Ports ports;
};
#define rObject App2
const Ports App2::ports = {
    rArrayOption(wave, 4, rOptions(sine, saw, square),
                 rDefault([saw sine sine sine]), "waveform per oscillator"),
};
#undef rObject

// run f in a child so that both parts can be shown; returns true if it crashed
template<class F> static bool crashes(F f)
{
    fflush(stdout);
    pid_t pid = fork();
    if(pid == 0) { int rc = f(); fflush(stdout); _exit(rc); }
    int st = 0; waitpid(pid, &st, 0);
    if(WIFSIGNALED(st)) { printf("   -> killed by signal %d\n", WTERMSIG(st)); return true; }
    if(WEXITSTATUS(st) > 1) { printf("   -> abnormal exit %d\n", WEXITSTATUS(st)); return true; }
    return WEXITSTATUS(st) != 0;
}

int main()
{
    int bad = 0;
    puts("(a) untouched application, default [saw sine ...]: expecting a savefile of two header lines");
    bad |= crashes([]{
        App a; std::set<std::string> w;
        std::string file = save_to_file(App::ports, &a, "demo", rtosc_version{1,0,0}, w, {});
        printf("%s\n", file.c_str());
        return file.find('/') == std::string::npos ? 0 : 1;
    });
    puts("(b) loading a file with the line \"/wave [0 1 ... x]\": expecting a negative result");
    bad |= crashes([]{
        App2 b;
        int r = load_from_file("% RT OSC v0.3.1 savefile\n% demo v1.0.0\n/wave [0 1 ... x]\n",
                               App2::ports, &b, "demo", rtosc_version{1,0,0}, nullptr);
        printf("   load_from_file = %d\n", r);
        return r < 0 ? 0 : 1;
    });
    return bad;
}
