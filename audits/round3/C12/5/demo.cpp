// C12 audit, candidate 5: a float parameter holding +infinity.
// The printer writes it as "inf (inf)"; the reader takes the bare word "inf"
// for the OSC Infinitum 'I' and cannot parse "(inf)". (-infinity, printed as
// "-inf (-inf)", is read back fine.) With assertions enabled save_to_file
// itself aborts in remove_trailing_zeroes().
#include <rtosc/rtosc.h>
#include <rtosc/ports.h>
#include <rtosc/port-sugar.h>
#include <rtosc/savefile.h>
#include <cstdio>
#include <cmath>
#include <string>
#include <set>
using namespace rtosc;

struct App {
    float cutoff  = 1000.0f;   // no rLinear/rLog: any float is in range
    float floor_  = 0.0f;
    static const Ports ports;
};
#define rObject App
const Ports App::ports = {
    rParamF(cutoff, rDefault(1000.0), "upper limit, may be unlimited"),
    rParamF(floor_, rDefault(0.0),    "lower limit, may be unlimited"),
};
#undef rObject

static void set(App& a, const char* path, float v)
{
    char buf[256]; rtosc_message(buf, sizeof buf, path, "f", v);
    char loc[256] = ""; RtData d; d.obj = &a; d.loc = loc; d.loc_size = sizeof loc;
    App::ports.dispatch(buf, d, true);
}

static int roundtrip(const char* path, float v)
{
    App a; set(a, path, v);
    std::set<std::string> w;
    std::string file = save_to_file(App::ports, &a, "demo", rtosc_version{1,0,0}, w, {});
    printf("savefile:\n%s\n", file.c_str());
    App b;
    int r = load_from_file(file.c_str(), App::ports, &b, "demo", rtosc_version{1,0,0}, nullptr);
    printf("load_from_file = %d (expected 1); cutoff %g -> %g, floor_ %g -> %g\n\n",
           r, a.cutoff, b.cutoff, a.floor_, b.floor_);
    return (r == 1 && a.cutoff == b.cutoff && a.floor_ == b.floor_) ? 0 : 1;
}

int main()
{
    int bad = 0;
    bad |= roundtrip("/floor_", -INFINITY);  // fine (unless assertions are on)
    bad |= roundtrip("/cutoff",  INFINITY);  // not loadable
    return bad;
}
