#!/bin/sh
# usage: ./build.sh [-DNDEBUG]   (extra flags are passed to the compilers)
# builds demo.cpp against the worktree sources (asan+ubsan) and runs it
set -e
D=$(cd "$(dirname "$0")" && pwd)
W=$(cd "$D/../.." && pwd)
T=$(mktemp -d)
trap 'rm -rf "$T"' EXIT
sed -e 's/\${VERSION_MAJOR}/0/;s/\${VERSION_MINOR}/3/;s/\${VERSION_PATCH}/1/' "$W/src/cpp/version.c.in" > "$T/version.c"
FL="-g -O1 -fsanitize=address,undefined -I$W/include -I$W/src/cpp $*"
for f in "$W"/src/*.c "$W"/src/cpp/*.c "$T/version.c"; do
    gcc -std=gnu99 $FL -c "$f" -o "$T/$(basename "$f").o" &
done
for f in ports.cpp ports-runtime.cpp default-value.cpp savefile.cpp; do
    g++ -std=c++17 $FL -c "$W/src/cpp/$f" -o "$T/$f.o" &
done
wait
g++ -std=c++17 $FL "$D/demo.cpp" "$T"/*.o -o "$T/demo"
ASAN_OPTIONS=detect_leaks=0 "$T/demo"
