// C12 audit, candidate 3: a sub-tree enabled by a toggle that lives inside it,
// declared on the directory port as rRecur(sub, rEnabledBy(sub/on)).
// port_is_enabled() has an explicit branch for this form ("subport"), but
//  (a) it queries the child's toggle with the PARENT's runtime object, so the
//      savefile is built from a foreign byte, and
//  (b) the loader's dependency scan recurses for ever as soon as a line inside
//      the sub-tree is present while the toggle itself has no line.
#include <rtosc/rtosc.h>
#include <rtosc/ports.h>
#include <rtosc/port-sugar.h>
#include <rtosc/savefile.h>
#include <cstdio>
#include <string>
#include <set>
using namespace rtosc;

struct Sub {
    bool on = true;
    int  x  = 0;
    static const Ports ports;
};
#define rObject Sub
const Ports Sub::ports = {
    rToggle(on, rDefault(true), "enables this sub-tree"),
    rParamI(x,  rDefault(0),    "a parameter of the sub-tree"),
};
#undef rObject

// layout A: the sub-tree is not the first member
struct AppA {
    bool unrelated = false; // not a port at all
    Sub  sub;
    static const Ports ports;
};
#define rObject AppA
const Ports AppA::ports = {
    rRecur(sub, rEnabledBy(sub/on), "sub-tree, enabled by its own toggle"),
};
#undef rObject

// layout B: the sub-tree is the first member (hides (a), shows (b))
struct AppB {
    Sub  sub;
    static const Ports ports;
};
#define rObject AppB
const Ports AppB::ports = {
    rRecur(sub, rEnabledBy(sub/on), "sub-tree, enabled by its own toggle"),
};
#undef rObject

template<class App> static void set(App& a, const char* path, int v)
{
    char buf[256]; rtosc_message(buf, sizeof buf, path, "i", v);
    char loc[256] = ""; RtData d; d.obj = &a; d.loc = loc; d.loc_size = sizeof loc;
    App::ports.dispatch(buf, d, true);
}

int main()
{
    int bad = 0;
    {
        AppA a;
        set(a, "/sub/x", 5);            // sub.on stays true (its default)
        std::set<std::string> w;
        std::string file = save_to_file(AppA::ports, &a, "demo", rtosc_version{1,0,0}, w, {});
        printf("layout A, state {sub.on=true, sub.x=5}; savefile:\n%s\n", file.c_str());
        std::string expected_tail = "\n/sub/x 5";
        if(file.size() < expected_tail.size() ||
           file.compare(file.size()-expected_tail.size(), std::string::npos, expected_tail) ||
           file.find("/sub/on") != std::string::npos) {
            puts("=> WRONG: expected exactly one line, \"/sub/x 5\"");
            bad = 1;
        }
        AppA b;
        int r = load_from_file(file.c_str(), AppA::ports, &b, "demo", rtosc_version{1,0,0}, nullptr);
        printf("load = %d; loaded sub.on=%d sub.x=%d (saved: 1, 5)\n\n", r, b.sub.on, b.sub.x);
        if(b.sub.on != a.sub.on || b.sub.x != a.sub.x) bad = 1;
    }
    fflush(stdout);
    {
        AppB a;
        set(a, "/sub/x", 5);
        std::set<std::string> w;
        std::string file = save_to_file(AppB::ports, &a, "demo", rtosc_version{1,0,0}, w, {});
        printf("layout B, state {sub.on=true, sub.x=5}; savefile:\n%s\nloading it...\n", file.c_str());
        fflush(stdout);
        AppB b;
        int r = load_from_file(file.c_str(), AppB::ports, &b, "demo", rtosc_version{1,0,0}, nullptr);
        printf("load = %d; loaded sub.on=%d sub.x=%d (saved: 1, 5)\n", r, b.sub.on, b.sub.x);
        if(r != 1 || b.sub.on != a.sub.on || b.sub.x != a.sub.x) bad = 1;
    }
    return bad;
}
