// C12 audit, candidate 2: save_to_file's documented append mode
// ("fileStr: If given, the new savefile will be appended to this passed
// savefile") glues the first appended line onto the last line of the file it
// is given, so the combined savefile cannot be loaded.
#include <rtosc/rtosc.h>
#include <rtosc/ports.h>
#include <rtosc/port-sugar.h>
#include <rtosc/savefile.h>
#include <cstdio>
#include <string>
#include <set>
#include <vector>
using namespace rtosc;

struct App {
    int volume = 0;
    int pan = 64;
    static const Ports ports;
};
#define rObject App
const Ports App::ports = {
    rParamI(volume, rDefault(0), "saved in the first pass"),
    // "late" is an application-defined property used to save this port in a
    // second pass (propsToExclude is the documented way to leave ports out)
    rParamI(pan, rProp(late), rDefault(64), "saved in the second pass"),
};
#undef rObject

static void set(App& a, const char* path, int v)
{
    char buf[256]; rtosc_message(buf, sizeof buf, path, "i", v);
    char loc[256] = ""; RtData d; d.obj = &a; d.loc = loc; d.loc_size = sizeof loc;
    App::ports.dispatch(buf, d, true);
}

int main()
{
    App a;
    set(a, "/volume", 5);
    set(a, "/pan", 3);

    std::set<std::string> written;
    // pass 1: everything but the "late" ports
    std::string file = save_to_file(App::ports, &a, "demo", rtosc_version{1,0,0},
                                    written, {"late"});
    // pass 2: append the rest (ports of pass 1 are in `written`)
    file = save_to_file(App::ports, &a, "demo", rtosc_version{1,0,0},
                        written, {}, file);
    printf("savefile:\n%s\n", file.c_str());

    App b;
    int r = load_from_file(file.c_str(), App::ports, &b, "demo", rtosc_version{1,0,0}, nullptr);
    printf("load_from_file = %d (expected 2)\n", r);
    printf("volume: saved %d, loaded %d\npan: saved %d, loaded %d\n", a.volume, b.volume, a.pan, b.pan);
    return (r == 2 && a.volume == b.volume && a.pan == b.pan) ? 0 : 1;
}
