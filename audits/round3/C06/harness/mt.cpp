#include <rtosc/rtosc.h>
#include <rtosc/thread-link.h>
#include <thread>
#include <atomic>
#include <vector>
#include <string>
#include <cstdio>
#include <cstring>
using namespace rtosc;
// writer sends messages/bundles carrying a sequence number; it can't know acceptance,
// so reader checks: seq strictly increasing, content regenerated from seq matches.
static std::string make(unsigned seq, size_t MaxMsg)
{
    char buf[512]; memset(buf,0,sizeof buf);
    unsigned k = seq*2654435761u;
    int kind = k%5;
    char s[40]; int sl=(k>>3)%20; for(int i=0;i<sl;i++) s[i]='a'+(k>>(i%13))%26; s[sl]=0;
    char m1[128], m2[128];
    size_t l1 = rtosc_message(m1,sizeof m1,"/seq","is",(int)seq,s);
    if(kind<3) return std::string(m1,l1);
    size_t l2 = rtosc_message(m2,sizeof m2,"/x","i",(int)seq);
    if(kind==3){ size_t l=rtosc_bundle(buf,sizeof buf,seq,2,m2,m1); return std::string(buf,l);}
    char in[256]; memset(in,0,sizeof in); rtosc_bundle(in,sizeof in,1,1,m1);
    size_t l=rtosc_bundle(buf,sizeof buf,seq,2,m2,in); return std::string(buf,l);
}
static unsigned seq_of(const char*m){
    if(m[0]=='#'){ return rtosc_argument(m+20,0).i; }
    return rtosc_argument(m,0).i;
}
int main(){
    const size_t MaxMsg=80;
    for(int nmsg=2;nmsg<=3;nmsg++){
    ThreadLink tl(MaxMsg,nmsg);
    const unsigned N=400000;
    std::atomic<bool> done{false};
    std::thread w([&]{ for(unsigned i=1;i<=N;i++){ std::string m=make(i,MaxMsg); std::vector<char> b(m.size()+4,0); memcpy(b.data(),m.data(),m.size()); tl.raw_write(b.data()); } done=true; });
    unsigned last=0; long got=0; int bad=0;
    while(true){
        bool d=done;
        if(tl.hasNext()){
            // lookahead sweep first sometimes
            std::vector<unsigned> la;
            if(got%3==0){ int n=0; while(tl.hasNextLookahead() && n<3){ const char*m=tl.read_lookahead(); la.push_back(seq_of(m)); std::string e=make(la.back(),MaxMsg); if(memcmp(m,e.data(),e.size())){bad++; printf("la torn seq %u\n",la.back());} n++; } }
            size_t i=0;
            do {
                const char*m=tl.read(); unsigned s=seq_of(m); std::string e=make(s,MaxMsg);
                if(memcmp(m,e.data(),e.size())){bad++; printf("torn seq %u\n",s);}
                if(s<=last){bad++; printf("order %u after %u\n",s,last);}
                if(i<la.size() && la[i]!=s){bad++; printf("lookahead mismatch\n");}
                last=s; got++; i++;
            } while(i<la.size());
            if(bad>10) return 1;
        } else if(d) break;
    }
    printf("nmsg %d got=%ld of %u bad=%d\n",nmsg,got,N,bad);
    w.join();
    if(bad) return 1;
    }
    return 0;
}
