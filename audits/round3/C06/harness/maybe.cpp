#include <rtosc/rtosc.h>
#include <rtosc/thread-link.h>
#include <cstdio>
#include <cstring>
#include <cstdlib>
using namespace rtosc;
int main(int argc,char**argv){
    int which=atoi(argv[1]);
    char m1[64],m2[64]; size_t l1=rtosc_message(m1,64,"/a","i",1), l2=rtosc_message(m2,64,"/b","i",2);
    if(which==1){
        // two bundles packed back to back: first has no zero word behind it
        char b[256]; memset(b,0,sizeof b);
        size_t n1=rtosc_bundle(b,16+4+l1,1,1,m1); // exact fit: legal, returns n1
        size_t n2=rtosc_bundle(b+n1,sizeof b-n1,2,1,m2);
        printf("n1=%zu n2=%zu len(b,-1)=%zu\n",n1,n2,rtosc_message_length(b,-1));
        ThreadLink tl(128,4); tl.raw_write(b);
        printf("hasNext=%d\n",tl.hasNext());
        if(tl.hasNext()){const char*r=tl.read(); printf("read len=%zu elements=%zu\n",rtosc_message_length(r,-1), rtosc_bundle_elements(r,128));}
    }
    if(which==2){
        ThreadLink tl(64,4);
        tl.write("#bundle","i",5);
        tl.write("/x","i",7);
        for(int i=0;i<4 && tl.hasNext();i++){ const char*r=tl.read(); printf("read '%s' hasNext=%d\n",r,tl.hasNext()); }
    }
    if(which==3){
        char in[128]; memset(in,0,128); rtosc_bundle(in,128,1,1,m1);
        char out[256]; memset(out,0,256); size_t n=rtosc_bundle(out,256,2,2,in,m2);
        const char*e=rtosc_bundle_fetch(out,0);
        printf("outer=%zu inner size=%zu, len(e,-1)=%zu\n",n,rtosc_bundle_size(out,0),rtosc_message_length(e,-1));
    }
    if(which==4){
        ThreadLink tl(64,4);
        tl.write("#bundle","");
        printf("hasNext=%d\n",tl.hasNext()); tl.read(); printf("after read hasNext=%d\n",tl.hasNext());
    }
}
// appended: case 5 -- "#bundle" message alone in the ring
struct Case5 { Case5(){ if(getenv("CASE5")){ ThreadLink tl(64,4); tl.write("#bundle","i",5);
  printf("hasNext=%d\n",tl.hasNext()); tl.read(); printf("after one read hasNext=%d (nothing else was written)\n",tl.hasNext()); exit(0);} } } case5;
