#!/bin/sh
# rebuilds and runs the three harnesses used for the audit (from this directory)
set -e
cd "$(dirname "$0")"
R=../..
g++ -std=c++17 -g -O1 -fsanitize=address,undefined -I $R/include fuzz.cpp $R/src/rtosc.c $R/src/cpp/thread-link.cpp -o /tmp/c06-fuzz && /tmp/c06-fuzz 6000
g++ -std=c++17 -g -O1 -fsanitize=thread -pthread -I $R/include mt.cpp $R/src/rtosc.c $R/src/cpp/thread-link.cpp -o /tmp/c06-mt && /tmp/c06-mt
g++ -std=c++17 -g -O1 -DNDEBUG -fsanitize=address,undefined -I $R/include maybe.cpp $R/src/rtosc.c $R/src/cpp/thread-link.cpp -o /tmp/c06-maybe
for i in 1 2 3 4; do echo "== maybe $i"; /tmp/c06-maybe $i 2>&1 | head -6 || true; done
rm -f /tmp/c06-fuzz /tmp/c06-mt /tmp/c06-maybe
