#include <rtosc/rtosc.h>
#include <rtosc/thread-link.h>
#include <deque>
#include <string>
#include <vector>
#include <cstdio>
#include <cstdlib>
#include <cstring>
using namespace rtosc;
static unsigned rs=1; static long cov_max=0,cov_maxacc=0,cov_bun=0,cov_tagwrap=0,cov_zwrap=0,cov_la_bun=0, wpos=0;
static unsigned rnd(){ rs = rs*1103515245u+12345u; return (rs>>8)&0xffffff; }

static std::string gen_msg(size_t maxlen)
{
    char buf[4096]; 
    for(int tries=0; tries<100; ++tries){
        memset(buf,0,sizeof buf);
        std::string path="/";
        int pl = rnd()%12;
        for(int i=0;i<pl;i++) path += char('a'+rnd()%26);
        std::string types; rtosc_arg_t args[8]; int na=rnd()%5; 
        static char strs[8][40]; static unsigned char blobs[8][40];
        int ai=0;
        for(int i=0;i<na;i++){
            switch(rnd()%8){
                case 0: types+='i'; args[ai++].i = rnd()%3? (int)rnd() : 0; break;
                case 1: types+='f'; args[ai++].f = 1.5f; break;
                case 2: { types+='s'; int l=rnd()%10; for(int k=0;k<l;k++) strs[ai][k]='A'+rnd()%26; strs[ai][l]=0; args[ai].s=strs[ai]; ai++; break;}
                case 3: { types+='b'; int l=rnd()%13; for(int k=0;k<l;k++) blobs[ai][k]=rnd()%256; args[ai].b.len=l; args[ai].b.data=blobs[ai]; ai++; break;}
                case 4: types+='h'; args[ai++].h = rnd()%2? 0 : 0x2362756e646c6500LL; break;
                case 5: types+='T'; break;
                case 6: types+='N'; break;
                case 7: types+='c'; args[ai++].i = rnd()%2?0:'#'; break;
            }
        }
        size_t l = rtosc_amessage(buf, sizeof buf, path.c_str(), types.c_str(), args);
        if(l && l<=maxlen) return std::string(buf,l);
    }
    return std::string("/a\0\0,\0\0\0",8);
}
static std::string gen_bundle(size_t maxlen, int depth)
{
    std::string b("#bundle\0",8);
    for(int i=0;i<8;i++) b += char(rnd()%3?0:rnd()%256);
    int n = rnd()%4;
    for(int i=0;i<n;i++){
        if(b.size()+4+8 > maxlen) break;
        std::string e;
        if(depth<2 && rnd()%4==0 && maxlen-b.size()-4>=16) e = gen_bundle(maxlen-b.size()-4, depth+1);
        else e = gen_msg(maxlen-b.size()-4);
        if(b.size()+4+e.size()>maxlen) break;
        unsigned L=e.size();
        b += char(L>>24); b+=char(L>>16); b+=char(L>>8); b+=char(L);
        b += e;
    }
    return b;
}

int main(int argc, char**argv)
{
    int fails=0;
    for(unsigned seed=1; seed<= (argc>1?atoi(argv[1]):2000); ++seed){
        rs=seed;
        size_t MaxMsg = 24 + (rnd()%2? 4*(rnd()%12) : rnd()%48);
        size_t nmsg = 1+rnd()%4;
        ThreadLink tl(MaxMsg, nmsg);
        size_t size = MaxMsg*nmsg;
        wpos=0; std::deque<std::string> q; size_t used=0; size_t la=0;
        for(int step=0; step<400; ++step){
            int op = rnd()%10;
            if(op<5){
                bool bun = rnd()%3==0;
                size_t lim = rnd()%4==0 ? MaxMsg+8 : MaxMsg;
                std::string m = bun? gen_bundle(lim,0) : gen_msg(lim);
                if(bun && rnd()%2==0 && m.size()+4+12<=MaxMsg && (MaxMsg-m.size())%4==0){
                    size_t rem = MaxMsg-m.size()-4; size_t n=rem-12;
                    std::string e("/a\0\0,b\0\0",8); e+=char(0);e+=char(0);e+=char(0);e+=char(n);
                    for(size_t k=0;k<n;k++) e+=char(rnd()%256);
                    unsigned L=e.size(); m += char(L>>24); m+=char(L>>16); m+=char(L>>8); m+=char(L); m+=e;
                    if(m.size()==MaxMsg) cov_max++;
                }
                std::vector<char> src(m.size()+4,0); memcpy(src.data(), m.data(), m.size());
                if(rtosc_message_length(src.data(), -1)!=m.size()){ printf("gen bad\n"); continue;}
                size_t tail = bun?4:0;
                bool accept = m.size()<=MaxMsg && size-1-used >= m.size()+tail;
                tl.raw_write(src.data());
                if(accept){ q.push_back(m); 
                    if(bun){cov_bun++; if(m.size()==MaxMsg)cov_maxacc++; if(wpos+8>size && wpos<size) cov_tagwrap++; size_t z=(wpos+m.size())%size; if(z+4>size) cov_zwrap++;}
                    wpos=(wpos+m.size()+tail)%size; used += m.size()+tail; }
            } else if(op<8){
                bool hn = tl.hasNext();
                if(hn != !q.empty()){ printf("seed %u step %d: hasNext=%d model=%zu\n",seed,step,hn,q.size()); fails++; break;}
                if(hn){
                    const char *r = tl.read();
                    std::string &m=q.front();
                    if(memcmp(r,m.data(),m.size())){ printf("seed %u step %d: read mismatch (len %zu, bundle=%d)\n",seed,step,m.size(),m[0]=='#'); fails++; break;}
                    used -= m.size() + (m[0]=='#'?4:0);
                    q.pop_front(); la=0;
                }
            } else {
                bool hn = tl.hasNextLookahead();
                if(hn != (la<q.size())){ printf("seed %u step %d: hasNextLookahead=%d model la=%zu q=%zu\n",seed,step,hn,la,q.size()); fails++; break;}
                if(hn){
                    const char *r = tl.read_lookahead();
                    std::string &m=q[la];
                    if(memcmp(r,m.data(),m.size())){ printf("seed %u step %d: lookahead mismatch\n",seed,step); fails++; break;}
                    la++; if(m[0]=='#')cov_la_bun++;
                }
            }
        }
    }
    printf("fails=%d max=%ld maxacc=%ld bun=%ld tagwrap=%ld zwrap=%ld labun=%ld\n",fails,cov_max,cov_maxacc,cov_bun,cov_tagwrap,cov_zwrap,cov_la_bun);
    return fails?1:0;
}
