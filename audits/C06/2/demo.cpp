// C06 audit 2: a bundle queued in a ThreadLink is only framed correctly while
// it is the LAST thing in the ring.  As soon as the writer manages to queue
// one more message before the reader polls, read() frames the bundle with
// length 0: it returns a stale buffer, consumes nothing, and hasNext() stays
// true forever (everything behind the bundle is lost, later writes are
// dropped once the ring is full).
//
// schedule A (reader polls between the two writes)   : works
// schedule B (writer does both writes, then reader)  : stuck
//
// exit 0 : both schedules deliver bundle, then message, then hasNext()==false
// exit !=0 otherwise
#include <rtosc/thread-link.h>
#include <cstdio>
#include <cstring>

static char   bundle[128];
static size_t bundle_len;
static char   msg[32];
static size_t msg_len;

static int run(bool reader_polls_in_between)
{
    rtosc::ThreadLink link(64, 4);
    int rc = 0;
    rtosc::msg_t m;

    link.raw_write(bundle);
    if(reader_polls_in_between) {
        if(!link.hasNext()) return 10;
        m = link.read();
        if(memcmp(m, bundle, bundle_len)) { printf("  bundle differs\n"); rc = 11; }
    }
    link.write("/after", "i", 7);
    if(!reader_polls_in_between) {
        if(!link.hasNext()) return 12;
        m = link.read();
        if(memcmp(m, bundle, bundle_len)) {
            printf("  read() #1 did not return the bundle (returned \"%s\")\n", m);
            rc = 13;
        }
    }
    if(!link.hasNext()) { printf("  message after bundle lost\n"); return 14; }
    m = link.read();
    if(memcmp(m, msg, msg_len)) {
        printf("  read() #2 did not return /after (returned \"%s\")\n", m);
        rc = 15;
    }
    // everything accepted has been consumed by two reads
    if(link.hasNext()) {
        int spins = 0;
        while(link.hasNext() && spins < 1000) { link.read(); ++spins; }
        printf("  hasNext() still true after reading both entries "
               "(%d further read()s did not drain it)\n", spins);
        rc = 16;
    }
    return rc;
}

int main()
{
    char a[32], b[32];
    rtosc_message(a, sizeof a, "/one", "i", 1);
    rtosc_message(b, sizeof b, "/two", "i", 2);
    memset(bundle, 0, sizeof bundle); // zero word behind the bundle, as rtosc_bundle leaves it
    bundle_len = rtosc_bundle(bundle, sizeof bundle, 0xdeadbeef, 2, a, b);
    msg_len    = rtosc_message(msg, sizeof msg, "/after", "i", 7);
    printf("bundle is %zu bytes, rtosc_message_length says %zu\n",
           bundle_len, rtosc_message_length(bundle, -1));

    printf("schedule A: write bundle, READ, write msg, read\n");
    int ra = run(true);
    printf("  -> %s\n", ra ? "FAIL" : "ok");
    printf("schedule B: write bundle, write msg, read, read\n");
    int rb = run(false);
    printf("  -> %s\n", rb ? "FAIL" : "ok");
    return ra ? ra : rb;
}
