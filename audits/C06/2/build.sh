#!/bin/sh
# usage: sh build.sh   (run from anywhere)
set -e
HERE=$(cd "$(dirname "$0")" && pwd)
W=$(cd "$HERE/../.." && pwd)
OUT=$(mktemp -d)
trap 'rm -rf "$OUT"' EXIT
gcc -c -g -O1 -fsanitize=address,undefined -I "$W/include" "$W/src/rtosc.c" -o "$OUT/rtosc.o"
g++ -std=c++17 -g -O1 -fsanitize=address,undefined -I "$W/include" \
    "$HERE/demo.cpp" "$W/src/cpp/thread-link.cpp" "$OUT/rtosc.o" -o "$OUT/demo" -lpthread
"$OUT/demo"
