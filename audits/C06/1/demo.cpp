// C06 audit 1: ThreadLink::buffer_size() reports the RING size as the length
// of the MaxMsg-byte write buffer returned by ThreadLink::buffer().
//
// History (exactly the reply()/broadcast() idiom of example/complex/synth.cpp):
//   link.write(...)                       -> one message queued
//   rtosc_message(link.buffer(), link.buffer_size(), ...)   (message > MaxMsg)
//   link.raw_write(link.buffer())
// Property: the oversized write is dropped whole and disturbs nothing queued.
//
// exit 0  : property held (queued message intact, oversized one dropped)
// exit !=0: violated (or ASan abort: heap-buffer-overflow in rtosc_amessage)
#include <rtosc/thread-link.h>
#include <cstdio>
#include <cstring>
#include <string>

int main()
{
    const size_t MaxMsg = 32, NMsg = 8;
    rtosc::ThreadLink link(MaxMsg, NMsg);

    // accessor contract: "Raw write buffer access" / "Access to write buffer length"
    printf("buffer() is %zu bytes long, buffer_size() says %zu\n",
           MaxMsg, link.buffer_size());

    // 1. something already queued
    link.write("/queued", "i", 1234);
    char expect[64];
    size_t elen = rtosc_message(expect, sizeof expect, "/queued", "i", 1234);

    // 2. compose a message that exceeds MaxMsg (but not buffer_size()) in the
    //    write buffer, using the size the accessor reports, then raw_write it
    std::string big(100, 'x');
    size_t len = rtosc_message(link.buffer(), link.buffer_size(),
                               "/too/big", "s", big.c_str());
    printf("composed %zu bytes into the %zu byte write buffer\n", len, MaxMsg);
    if(len)
        link.raw_write(link.buffer());

    // 3. the queued message must still be there, unchanged, and be the only one
    int rc = 0;
    if(len > MaxMsg) {
        printf("FAIL: rtosc_message was allowed to write %zu bytes into buffer() "
               "(only %zu bytes)\n", len, MaxMsg);
        rc = 1;
    }
    if(!link.hasNext()) { printf("FAIL: queued message lost\n"); return 2; }
    rtosc::msg_t m = link.read();
    if(memcmp(m, expect, elen)) { printf("FAIL: queued message changed\n"); rc = 3; }
    if(link.hasNext()) { printf("FAIL: oversized message not dropped\n"); rc = 4; }
    if(!rc) printf("ok\n");
    return rc;
}
