// C12 audit, defect 3: loading sorts the messages so that a port named in
// "default depends" / "depends" / "enabled by" is dispatched before the
// ports depending on it.  The metadata of a saved line's own port is found
// with Ports::apropos(), which at the leaf level accepts the FIRST port
// whose name merely STARTS WITH the searched name.  If a sibling declared
// earlier shares the prefix ("gain_db" vs "gain"), the sibling's metadata
// is read, the dependency edge is never created, and the preset selector is
// dispatched after the dependent value - which the application then
// overwrites with the preset's default.
//
// exit 0: the saved state is reproduced
// exit 1: it is not
#include <rtosc/rtosc.h>
#include <rtosc/ports.h>
#include <rtosc/savefile.h>
#include <rtosc/port-sugar.h>
#include <cstdio>
#include <cstring>
#include <string>
#include <set>
using namespace rtosc;

struct App {
    int gain_db = 0;    // unrelated parameter, declared first
    int gain    = 10;   // default depends on preset: 10, 20, 30
    int preset  = 0;
    // selecting a preset loads the preset's values, as in test/default-value.cpp
    void apply_preset() { gain = preset == 0 ? 10 : preset == 1 ? 20 : 30; }
    static const Ports ports;
};
#define rObject App
const Ports App::ports = {
    rParamI(gain_db, rDefault(0), "unrelated, shares the prefix 'gain'"),
    rParamI(gain, rDefaultDepends(preset), rPresets(10, 20, 30), "gain"),
    {"preset::i", rProp(parameter) rDefault(0) rDoc("preset selector"), NULL,
        [](const char* m, RtData& d) {
            App* o = (App*)d.obj;
            if(!*rtosc_argument_string(m))
                d.reply(d.loc, "i", o->preset);
            else {
                o->preset = rtosc_argument(m, 0).i;
                o->apply_preset();
            }
        }},
};
#undef rObject

static int send_i(App& a, const char* path, int v)
{
    char buf[256];
    rtosc_message(buf, sizeof buf, path, "i", v);
    char loc[1024] = "";
    RtData d; d.obj = &a; d.loc = loc; d.loc_size = sizeof loc;
    App::ports.dispatch(buf, d, true);
    return d.matches;
}

// Scenario B: the prefix-sharing sibling is itself the dependent port
// ("type_param" depends on "type").  Looking up "/type" finds "type_param",
// whose "default depends" names "type": the message "/type" becomes its own
// prerequisite.  With assertions compiled in, loading aborts
// (savefile.cpp:625); with NDEBUG the line is silently dropped while
// load_from_file still counts it.
struct App2 {
    int type_param = 10;
    int type = 0;
    static const Ports ports;
};
#define rObject App2
const Ports App2::ports = {
    rParamI(type_param, rDefaultDepends(type), rPresets(10, 20, 30), "p"),
    rParamI(type, rDefault(0), "selector"),
};
#undef rObject

static int scenario_b()
{
    App2 a;
    a.type = 1; a.type_param = 20; // reachable by "/type 1", "/type_param 20"
    std::set<std::string> written;
    std::string s = save_to_file(App2::ports, &a, "app", rtosc_version{1,0,0}, written, {});
    printf("B: savefile:\n%s\n----\n", s.c_str());
    fflush(stdout);
    App2 b;
    int r = load_from_file(s.c_str(), App2::ports, &b, "app", rtosc_version{1,0,0});
    printf("B: load_from_file -> %d (expected 1), restored type=%d (expected 1)\n", r, b.type);
    return (r == 1 && b.type == 1) ? 0 : 1;
}

static int scenario_a()
{
    App a;
    send_i(a, "/preset", 1);   // gain becomes 20
    send_i(a, "/gain", 55);    // user changes gain

    std::set<std::string> written;
    std::string s = save_to_file(App::ports, &a, "app", rtosc_version{1,0,0}, written, {});
    printf("A: savefile:\n%s\n----\n", s.c_str());

    App b;
    int r = load_from_file(s.c_str(), App::ports, &b, "app", rtosc_version{1,0,0});
    printf("A: load_from_file -> %d (expected 2)\n", r);
    printf("A: saved:    preset=%d gain=%d gain_db=%d\n", a.preset, a.gain, a.gain_db);
    printf("A: restored: preset=%d gain=%d gain_db=%d\n", b.preset, b.gain, b.gain_db);

    bool ok = r == 2 && a.preset == b.preset && a.gain == b.gain && a.gain_db == b.gain_db;
    fflush(stdout);
    return ok ? 0 : 1;
}

int main()
{
    int fa = scenario_a();
    int fb = scenario_b();
    return (fa || fb) ? 1 : 0;
}
