#!/bin/sh
# Builds the unmodified library sources of this worktree into a static
# archive with ASan+UBSan.  Usage: buildlib.sh [ndebug]
# Prints the archive path on stdout.  Objects live in audit/_lib (untracked).
set -e
A=$(cd "$(dirname "$0")" && pwd)
W=$(cd "$A/.." && pwd)
VAR=${1:-debug}
OUT=$A/_lib/$VAR
LIB=$OUT/librtosc_audit.a
if [ ! -f "$LIB" ]; then
    mkdir -p "$OUT"
    FLAGS="-g -O1 -fsanitize=address,undefined -fno-omit-frame-pointer -I$W/include -I$W/src/cpp"
    [ "$VAR" = ndebug ] && FLAGS="$FLAGS -DNDEBUG"
    # src/cpp/version.c.in is a cmake template
    sed -e 's/\${VERSION_MAJOR}/0/;s/\${VERSION_MINOR}/3/;s/\${VERSION_PATCH}/1/' \
        "$W/src/cpp/version.c.in" > "$OUT/version.c"
    for f in "$W"/src/*.c "$W"/src/cpp/*.c "$OUT/version.c"; do
        gcc $FLAGS -c "$f" -o "$OUT/$(basename "$f").o" >&2
    done
    for f in "$W"/src/cpp/*.cpp; do
        g++ -std=c++17 $FLAGS -c "$f" -o "$OUT/$(basename "$f").o" >&2
    done
    ar rcs "$LIB" "$OUT"/*.o >&2
fi
echo "$LIB"
