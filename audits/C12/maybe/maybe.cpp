// Reproducers for audit/maybe.md.  Usage: maybe.bin <case>   (M1 ... M10)
#include <rtosc/rtosc.h>
#include <rtosc/ports.h>
#include <rtosc/savefile.h>
#include <rtosc/port-sugar.h>
#include <cstdio>
#include <cstring>
#include <cmath>
#include <string>
#include <set>
using namespace rtosc;

struct Sub { int si = 5; static const Ports ports; };
#define rObject Sub
const Ports Sub::ports = { rParamI(si, rDefault(5), "si") };
#undef rObject

struct App {
    float pf = 1.5f;
    int   v = 0;
    int   opt = 0;
    unsigned char c64 = 64;
    float g = 1.0f;
    int   arr[4] = {3, 3, 3, 3};
    bool  tg[4] = {true, false, false, false};
    bool  en = false;
    Sub   sub;
    static const Ports ports;
};
#define rObject App
const Ports App::ports = {
    rParamF(pf, rDefault(1.5), "float without bounds"),
    rParamI(v, rDefault(0), "int"),
    rOption(opt, rOptions(a, b, c), rDefault(a), "option without bounds"),
#ifdef M7
    rParam(c64, rDefault(64), "char port, default written as int literal"),
    rParamF(g, rDefault(1), "float port, default written as int literal"),
#endif
#ifdef M8
    rArrayI(arr, 4, rDefault(3), "array port with scalar default"),
#endif
#ifdef M10
    rArrayT(tg, 4, rDefault([true false ...]), "toggle array, 'delta' range"),
#endif
    rToggle(en, rDefault(false), "enables sub"),
    rRecur(sub, rEnabledBy(en), "sub"),
};
#undef rObject

struct Big { int big[2048] = {0}; static const Ports ports; };
#define rObject Big
const Ports Big::ports = { rArrayI(big, 2048, rDefault([2048x0]), "2048 ints") };
#undef rObject

static int send(App& a, const char* path, const char* args, ...)
{
    char buf[2048];
    va_list va; va_start(va, args);
    rtosc_vmessage(buf, sizeof buf, path, args, va);
    va_end(va);
    char loc[1024] = "";
    RtData d; d.obj = &a; d.loc = loc; d.loc_size = 1024;
    App::ports.dispatch(buf, d, true);
    return d.matches;
}
static std::string save(App& a, const char* appname = "app")
{
    std::set<std::string> w;
    return save_to_file(App::ports, &a, appname, rtosc_version{1,0,0}, w, {});
}
static int load(App& b, const std::string& s, const char* appname = "app")
{
    return load_from_file(s.c_str(), App::ports, &b, appname, rtosc_version{1,0,0});
}
#define HDR "% RT OSC v0.3.1 savefile\n% app v1.0.0\n"

int main(int argc, char** argv)
{
    std::string c = argc > 1 ? argv[1] : "";
    App a, b;
    if(c == "M1") {        // infinite float
        send(a, "/pf", "f", (double)INFINITY);
        std::string s = save(a);          // assert in pretty-format.c:78 without NDEBUG
        printf("%s\nload -> %d\n", s.c_str(), load(b, s));   // "/pf inf (inf)" -> -38 with NDEBUG
    } else if(c == "M2") { // array with 2048 elements: stack-buffer-overflow while saving
        Big big; std::set<std::string> w;
        std::string s = save_to_file(Big::ports, &big, "app", rtosc_version{1,0,0}, w, {});
        printf("%s\n", s.c_str());
    } else if(c == "M3") { // application name with a blank
        send(a, "/v", "i", 4);
        std::string s = save(a, "My Synth");
        printf("%s\nload -> %d (own file, own name)\n", s.c_str(), load(b, s, "My Synth")); // -25
    } else if(c == "M4") { // unknown option symbol
        int r = load(b, HDR "/opt bogus");
        printf("load -> %d, opt=%d\n", r, b.opt);     // 1, -2147483648
    } else if(c == "M5") { // line without / with too many arguments
        int r1 = load(b, HDR "/v");
        int r2 = load(b, HDR "/v 1 2");
        printf("'/v' -> %d, '/v 1 2' -> %d (v=%d)\n", r1, r2, b.v);   // 1, 1
    } else if(c == "M6") { // wrong argument type: assert(…) in savefile.cpp:690 unless NDEBUG
        int r = load(b, HDR "/v 1.5");
        printf("load -> %d\n", r);                    // abort (debug) / -45 (NDEBUG)
    } else if(c == "M7" || c == "M8" || c == "M10") { // untouched application
        printf("%s\n", save(a).c_str());
    } else if(c == "M9") { // change inside a sub-tree that is disabled at saving time
        send(a, "/sub/si", "i", 7);
        std::string s = save(a);
        int r = load(b, s);
        printf("%s\nload -> %d, a.sub.si=%d b.sub.si=%d\n", s.c_str(), r, a.sub.si, b.sub.si);
    } else
        printf("usage: %s M1..M10 (M7, M8, M10 need -DM7 / -DM8 / -DM10)\n", argv[0]);
    return 0;
}
