#!/bin/sh
# usage: build.sh <case> [debug|ndebug]     e.g.  ./build.sh M1 ndebug
set -e
D=$(cd "$(dirname "$0")" && pwd)
W=$(cd "$D/../.." && pwd)
CASE=${1:?case M1..M10}
VARIANT=${2:-debug}
LIB=$("$D/../buildlib.sh" "$VARIANT")
DEF="-D$CASE"; [ "$VARIANT" = ndebug ] && DEF="$DEF -DNDEBUG"
g++ -std=c++17 -g -O1 $DEF -fsanitize=address,undefined -fno-omit-frame-pointer \
    -I"$W/include" "$D/maybe.cpp" "$LIB" -o "$D/maybe.bin"
set +e
"$D/maybe.bin" "$CASE" 2>&1 | head -${LINES_MAX:-25}
