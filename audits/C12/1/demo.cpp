// C12 audit, defect 1: a char parameter (rParam, "::c") whose value is 0
// is written as a NUL byte into the savefile text; the line is cut off
// after the opening quote and the file can not be loaded again.
//
// exit 0: every value 0..127 of the rParam port survived save -> load
// exit 1: at least one value did not
#include <rtosc/rtosc.h>
#include <rtosc/ports.h>
#include <rtosc/savefile.h>
#include <rtosc/port-sugar.h>
#include <cstdio>
#include <cstring>
#include <string>
#include <set>
#include <algorithm>
using namespace rtosc;

struct App {
    unsigned char vol = 64;
    static const Ports ports;
};
#define rObject App
const Ports App::ports = {
    // stock macro: "vol::c", min 0, max 127; the default is spelled as the
    // char the port replies with (doc/Guide.adoc, "Default Values")
    rParam(vol, rDefault('@'), "volume"),
};
#undef rObject

static int send_c(App& a, const char* path, int v)
{
    char buf[256];
    rtosc_message(buf, sizeof buf, path, "c", v);
    char loc[1024] = "";
    RtData d; d.obj = &a; d.loc = loc; d.loc_size = sizeof loc;
    App::ports.dispatch(buf, d, true);
    return d.matches;
}

static std::string save(App& a)
{
    std::set<std::string> written;
    return save_to_file(App::ports, &a, "app", rtosc_version{1,0,0}, written, {});
}

int main()
{
    int failures = 0;
    {
        App fresh;
        std::string s = save(fresh);
        // header only?
        if(std::count(s.begin(), s.end(), '\n') != 2) {
            printf("untouched application does not save only its header:\n%s\n", s.c_str());
            ++failures;
        }
    }
    for(int v = 0; v <= 127; ++v)
    {
        App a;
        if(send_c(a, "/vol", v) != 1 || a.vol != v) { printf("can not set %d\n", v); return 2; }
        std::string s = save(a);
        App b;
        int r = load_from_file(s.c_str(), App::ports, &b, "app", rtosc_version{1,0,0});
        int expected_msgs = (v == 64) ? 0 : 1;
        if(r != expected_msgs || b.vol != a.vol)
        {
            ++failures;
            printf("vol=%d: load_from_file -> %d (expected %d), restored vol=%d\n"
                   "savefile was:\n%s\n----\n", v, r, expected_msgs, b.vol, s.c_str());
        }
    }
    printf("%d value(s) of the char parameter did not survive\n", failures);
    return failures ? 1 : 0;
}
