// C12 audit, defect 5: option symbols are written into the savefile as bare
// identifiers.  Identifiers which the pretty-format scanner reserves for
// other types ("true", "false", "nil", "inf", "now", "immediately", and "MIDI" when another line follows)
// are read back as bool / nil / float / timestamp / midi instead of a
// symbol, the rebuilt message has a type the option port does not accept,
// and the library rejects (NDEBUG) or aborts on (assert, savefile.cpp:690)
// the file it has just written.
//
// exit 0: every option value survived save -> load; exit 1: some did not
//
// Built with -DNDEBUG by default (like the project's RelWithDebInfo build)
// so that all symbols are reported; VARIANT=debug ./build.sh shows the abort.
#include <rtosc/rtosc.h>
#include <rtosc/ports.h>
#include <rtosc/savefile.h>
#include <rtosc/port-sugar.h>
#include <cstdio>
#include <cstring>
#include <string>
#include <set>
using namespace rtosc;

struct App {
    int sync = 0;      // when to apply a change
    int voices = 0;    // polyphony limit
    int flag = 0;      // tri-state
    int src = 0;       // clock source
    static const Ports ports;
};
#define rObject App
const Ports App::ports = {
    rOption(src,    rOptions(internal, MIDI, nowhere, information), rDefault(internal), "clock"),
    rOption(sync,   rOptions(later, now, immediately), rDefault(later), "apply when"),
    rOption(voices, rOptions(one, two, inf),           rDefault(one),   "voice limit"),
    rOption(flag,   rOptions(automatic, true, false, nil), rDefault(automatic), "tri-state"),
};
#undef rObject

static int send_i(App& a, const char* path, int v)
{
    char buf[256];
    rtosc_message(buf, sizeof buf, path, "i", v);
    char loc[1024] = "";
    RtData d; d.obj = &a; d.loc = loc; d.loc_size = sizeof loc;
    App::ports.dispatch(buf, d, true);
    return d.matches;
}

int main()
{
    struct { const char* path; int nopts; } ports[] = {
        {"/sync", 3}, {"/voices", 3}, {"/flag", 4}, {"/src", 4} };
    int failures = 0;
    for(auto& p : ports)
    for(int v = 1; v < p.nopts; ++v)
    {
        App a;
        if(send_i(a, p.path, v) != 1) return 2;
        std::set<std::string> written;
        std::string s = save_to_file(App::ports, &a, "app", rtosc_version{1,0,0}, written, {});
        const char* line = strrchr(s.c_str(), '\n') + 1;
        fflush(stdout);
        App b;
        int r = load_from_file(s.c_str(), App::ports, &b, "app", rtosc_version{1,0,0});
        bool ok = r == 1 && !memcmp(&a, &b, sizeof a);
        printf("%-22s load_from_file -> %3d  %s\n", line, r, ok ? "ok" : "VIOLATION");
        failures += !ok;
    }
    {   // "MIDI" is only misread when something follows it
        App a;
        if(send_i(a, "/src", 1) != 1 || send_i(a, "/voices", 1) != 1) return 2;
        std::set<std::string> written;
        std::string s = save_to_file(App::ports, &a, "app", rtosc_version{1,0,0}, written, {});
        fflush(stdout);
        App b;
        int r = load_from_file(s.c_str(), App::ports, &b, "app", rtosc_version{1,0,0});
        bool ok = r == 2 && !memcmp(&a, &b, sizeof a);
        printf("/src MIDI + /voices two load_from_file -> %3d  %s\n", r, ok ? "ok" : "VIOLATION");
        failures += !ok;
    }
    printf("%d option value(s) could not be loaded from the library's own savefile\n", failures);
    return failures ? 1 : 0;
}
