// C12 audit, defect 2: the preset-dependent default is looked up with the
// wrong preset number when the Ports object has no perfect hash (any '#'
// port is enough) and a port is called <selector name><selector value>.
//
// get_default_value() asks the runtime for the value of the port named in
// "default depends".  The reply is pretty-printed INTO the message that is
// being dispatched, directly behind the address ("pre1" + "0" = "pre10").
// The linear dispatch loop goes on matching the remaining ports against
// that modified message, calls "pre10" as well, and its reply replaces the
// selector's value.
//
// exit 0: untouched application saves only the header, and a changed value
//         survives save -> load
// exit 1: otherwise
#include <rtosc/rtosc.h>
#include <rtosc/ports.h>
#include <rtosc/savefile.h>
#include <rtosc/default-value.h>
#include <rtosc/port-sugar.h>
#include <cstdio>
#include <cstring>
#include <string>
#include <set>
#include <algorithm>
using namespace rtosc;

struct App {
    int steps[2] = {0, 0};
    int pre1  = 0;   // selects the preset for slot 1: 0, 1 or 2
    int pre10 = 3;   // slot 10; its default depends on pre1: 3, 4 or 5
    static const Ports ports;
};
#define rObject App
const Ports App::ports = {
    // any enumerated port switches Ports::dispatch to its linear scan
    rArrayI(steps, 2, rDefault([0 0]), "some array"),
    rParamI(pre1,  rDefault(0), rLinear(0, 2), "preset selector"),
    rParamI(pre10, rDefaultDepends(pre1), rPresets(3, 4, 5), rDefault(9),
            rLinear(0, 100), "parameter with preset-dependent default"),
};
#undef rObject

static int send_i(App& a, const char* path, int v)
{
    char buf[256];
    rtosc_message(buf, sizeof buf, path, "i", v);
    char loc[1024] = "";
    RtData d; d.obj = &a; d.loc = loc; d.loc_size = sizeof loc;
    App::ports.dispatch(buf, d, true);
    return d.matches;
}

static std::string save(App& a)
{
    std::set<std::string> written;
    return save_to_file(App::ports, &a, "app", rtosc_version{1,0,0}, written, {});
}

int main()
{
    int failures = 0;

    {   // (a) "an untouched application saves only the two header lines"
        App fresh;
        printf("default of pre10 for an untouched runtime (pre1=0): %s (declared: 3)\n",
               get_default_value("pre10::i", App::ports, &fresh));
        std::string s = save(fresh);
        if(std::count(s.begin(), s.end(), '\n') != 2 || s.back() != '\n') {
            printf("(a) untouched application saved more than its header:\n%s\n----\n", s.c_str());
            ++failures;
        }
    }
    {   // (b) "a parameter appears in the savefile exactly when its current
        //      value differs from its default" / "reproduces exactly that state"
        App a;
        send_i(a, "/pre10", 9);  // 9 != 3, the default selected by pre1 == 0
        std::string s = save(a);
        App b;
        int r = load_from_file(s.c_str(), App::ports, &b, "app", rtosc_version{1,0,0});
        if(r != 1 || b.pre10 != 9) {
            printf("(b) pre10 was set to 9 (default for pre1=0 is 3); savefile:\n%s\n"
                   "load_from_file -> %d (expected 1), restored pre10=%d (expected 9)\n----\n",
                   s.c_str(), r, b.pre10);
            ++failures;
        }
    }
    return failures ? 1 : 0;
}
