#!/bin/sh
# Compiles demo.cpp against the unmodified worktree sources (ASan+UBSan) and runs it.
# exit 0 = property held for the demonstrated case, non-zero = violated.
set -e
D=$(cd "$(dirname "$0")" && pwd)
W=$(cd "$D/../.." && pwd)
VARIANT=${VARIANT:-debug}
LIB=$("$D/../buildlib.sh" "$VARIANT")
DEF=""; [ "$VARIANT" = ndebug ] && DEF="-DNDEBUG"
g++ -std=c++17 -g -O1 $DEF -fsanitize=address,undefined -fno-omit-frame-pointer \
    -I"$W/include" "$D/demo.cpp" "$LIB" -o "$D/demo.bin"
set +e
"$D/demo.bin"
rc=$?
echo "demo exit code: $rc"
exit $rc
