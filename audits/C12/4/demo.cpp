// C12 audit, defect 4: an option array (rArrayOption) in which one element
// holds a value without symbolic name is saved as an array mixing symbols
// and integers, e.g. "/filt [lp 3]".  The savefile scanner rejects arrays
// whose elements differ in type, so the library can not load its own file.
// The scalar flavour (rOption) of the very same value works: "/one 3".
//
// rOptionsBound(lp, hp, bp) declares min 0 and max 3 (= number of options),
// so 3 is inside the port's declared range; without bounds any int is.
//
// exit 0: state reproduced, exit 1: not
#include <rtosc/rtosc.h>
#include <rtosc/ports.h>
#include <rtosc/savefile.h>
#include <rtosc/port-sugar.h>
#include <cstdio>
#include <cstring>
#include <string>
#include <set>
using namespace rtosc;

struct App {
    int one = 0;
    int filt[3] = {0, 0, 0};
    static const Ports ports;
};
#define rObject App
const Ports App::ports = {
    rOption(one, rOptionsBound(lp, hp, bp), rDefault(lp), "scalar option"),
    rArrayOption(filt, 3, rOptionsBound(lp, hp, bp), rDefault([lp lp lp]),
                 "option array"),
};
#undef rObject

static int send_i(App& a, const char* path, int v)
{
    char buf[256];
    rtosc_message(buf, sizeof buf, path, "i", v);
    char loc[1024] = "";
    RtData d; d.obj = &a; d.loc = loc; d.loc_size = sizeof loc;
    App::ports.dispatch(buf, d, true);
    return d.matches;
}

static int roundtrip(const char* what, App& a, int expected_msgs)
{
    std::set<std::string> written;
    std::string s = save_to_file(App::ports, &a, "app", rtosc_version{1,0,0}, written, {});
    App b;
    int r = load_from_file(s.c_str(), App::ports, &b, "app", rtosc_version{1,0,0});
    bool ok = r == expected_msgs && !memcmp(&a, &b, sizeof a);
    printf("%s: savefile:\n%s\n"
           "load_from_file -> %d (expected %d); one=%d filt={%d,%d,%d} (expected one=%d filt={%d,%d,%d}) => %s\n----\n",
           what, s.c_str(), r, expected_msgs, b.one, b.filt[0], b.filt[1], b.filt[2],
           a.one, a.filt[0], a.filt[1], a.filt[2], ok ? "ok" : "VIOLATION");
    return ok ? 0 : 1;
}

int main()
{
    int failures = 0;
    {   // control: the scalar port with the same value
        App a;
        if(send_i(a, "/one", 3) != 1 || a.one != 3) return 2;
        failures += roundtrip("scalar rOption = 3", a, 1);
    }
    {   // control: array, all values have symbols
        App a;
        if(send_i(a, "/filt1", 2) != 1 || a.filt[1] != 2) return 2;
        failures += roundtrip("rArrayOption [lp bp lp]", a, 1);
    }
    {   // the defect
        App a;
        if(send_i(a, "/filt1", 3) != 1 || a.filt[1] != 3) return 2;
        failures += roundtrip("rArrayOption [lp 3 lp]", a, 1);
    }
    return failures ? 1 : 0;
}
