// maybe: string-valued events. Merge buffer is sized by the NEW event only;
// if the surviving old value (from the earlier event) is longer than the new
// event's old value, rtosc_amessage() fails, the slot becomes an all-zero
// buffer and the next seek/showHistory trips assert(msg && *msg) in rtosc.c
// (or reads garbage with NDEBUG).
#include <rtosc/rtosc.h>
#include <rtosc/undo-history.h>
#include <cstdio>
#include <cstring>
#include <string>
int main()
{
    setbuf(stdout, NULL);
    rtosc::UndoHistory h;
    std::string name = "a rather long old string value";
    h.setCallback([&](const char *m) { printf("emitted '%s'\n", m); if(*m) name = rtosc_argument(m,0).s; });
    char ev[512];
    rtosc_message(ev, sizeof ev, "/undo_change", "sss", "/name", name.c_str(), "b");
    h.recordEvent(ev);
    rtosc_message(ev, sizeof ev, "/undo_change", "sss", "/name", "b", "c");
    h.recordEvent(ev);                 // same second -> merge
    name = "c";
    printf("size=%zu, slot0 first byte=%d (0 means the slot was wiped)\n", h.size(), h.getHistory(0)[0]);
    h.seekHistory(-1);                 // aborts here on the unmodified library
    return name == "a rather long old string value" ? 0 : 1;
}
