// C15 audit, candidate 3: merging two events of the same address whose value
// types differ (a port that accepts both "f" and "i", each branch reporting
// its change with rCAPPLY(..., f, ...) resp. rCAPPLY(..., i, ...)) keeps the
// first event's old value as raw union bits but labels it with the second
// event's type: the float 0.5 comes back as the integer 1056964608.
#include <rtosc/rtosc.h>
#include <rtosc/undo-history.h>
#include <cstdio>
#include <cstring>
#include <ctime>
#include <string>
#include <vector>

static time_t fake_now = 100000;
extern "C" time_t time(time_t *t) { if(t) *t = fake_now; return fake_now; }

int main()
{
    setbuf(stdout, NULL);
    rtosc::UndoHistory h;
    double vol = 0.5;                 // application state behind "/vol::f:i"
    std::vector<std::string> log;
    h.setCallback([&](const char *m) {
        char t = rtosc_type(m, 0);
        vol = (t == 'f') ? rtosc_argument(m, 0).f : rtosc_argument(m, 0).i;
        char line[128]; snprintf(line, sizeof line, "%s %c %g", m, t, vol);
        log.push_back(line);
        printf("  emitted: %s\n", line);
    });

    char ev[256];
    // t=0: /vol 0.5 -> 1.5 (sent as float)
    rtosc_message(ev, sizeof ev, "/undo_change", "sff", "/vol", 0.5f, 1.5f);
    h.recordEvent(ev); vol = 1.5;
    // t=1: /vol 1.5 -> 2   (sent as int; app reports the integer view 1 -> 2)
    fake_now += 1;
    rtosc_message(ev, sizeof ev, "/undo_change", "sii", "/vol", 1, 2);
    h.recordEvent(ev); vol = 2;

    printf("size=%zu pos=%u\n", h.size(), h.getPos());
    h.seekHistory(-10);
    printf("after undo-all: vol=%g (before its oldest retained change it was 0.5)\n", vol);
    if(vol != 0.5) {
        printf("VIOLATION: merged event does not carry the first old value\n");
        return 1;
    }
    return 0;
}
