// maybe: boolean events "sTF"/"sFT". rewind() takes the type tag from
// argument_string+2, i.e. the NEW value's tag, so undo re-sends the new value.
#include <rtosc/rtosc.h>
#include <rtosc/undo-history.h>
#include <cstdio>
#include <cstring>
int main()
{
    setbuf(stdout, NULL);
    rtosc::UndoHistory h;
    bool on = true;
    h.setCallback([&](const char *m) { printf("emitted %s %s\n", m, rtosc_argument_string(m)); on = rtosc_argument(m,0).T; });
    char ev[256];
    rtosc_message(ev, sizeof ev, "/undo_change", "sTF", "/on");   // on: true -> false
    h.recordEvent(ev); on = false;
    h.seekHistory(-1);
    printf("after undo on=%d (expected 1)\n", on);
    return on ? 0 : 1;
}
