// maybe: recording after an undo drops the redo tail with deque::resize()
// without delete[]-ing the message buffers -> LeakSanitizer reports and the
// process exits non-zero. Semantically the tail IS discarded.
#include <rtosc/rtosc.h>
#include <rtosc/undo-history.h>
#include <cstdio>
int main()
{
    rtosc::UndoHistory h;
    h.setCallback([](const char *) {});
    char ev[256];
    rtosc_message(ev, sizeof ev, "/undo_change", "sii", "/a", 0, 1);
    h.recordEvent(ev);
    h.seekHistory(-1);
    rtosc_message(ev, sizeof ev, "/undo_change", "sii", "/b", 0, 1);
    h.recordEvent(ev);      // history.resize(0) leaks the "/a" buffer
    return 0;
}
