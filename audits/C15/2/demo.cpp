// C15 audit, candidate 2: a merge refreshes an OLD slot in place, so the
// most recent change of an address can sit in history[0] and is the first
// thing the 20-event cap throws away, while 19 older events are kept.
// Undo-everything then never touches that address.
#include <rtosc/rtosc.h>
#include <rtosc/undo-history.h>
#include <cstdio>
#include <cstring>
#include <ctime>
#include <map>
#include <string>

// controllable wall clock (undo-history.cpp calls time(NULL))
static time_t fake_now = 100000;
extern "C" time_t time(time_t *t) { if(t) *t = fake_now; return fake_now; }

static rtosc::UndoHistory h;
static std::map<std::string,int> state;   // the "application"

static void change(const char *addr, int nv)
{
    char ev[256];
    int old = state[addr];
    rtosc_message(ev, sizeof ev, "/undo_change", "sii", addr, old, nv);
    state[addr] = nv;
    h.recordEvent(ev);
}

int main()
{
    setbuf(stdout, NULL);
    int a_msgs = 0;
    h.setCallback([&](const char *m) {
        if(!strcmp(m, "/a")) a_msgs++;
        state[m] = rtosc_argument(m, 0).i;
    });

    state["/a"] = 0;
    change("/a", 1);                       // event #1           t = 0
    for(int i = 1; i <= 19; ++i) {         // events #2..#20     t = 0
        char addr[16]; snprintf(addr, sizeof addr, "/b%d", i);
        state[addr] = 0;
        change(addr, 1);
    }
    fake_now += 1;
    change("/a", 2);                       // event #21, t = 1: merges into slot 0
    printf("after 21 changes: size=%zu pos=%u, slot0 is '%s' %d->%d\n", h.size(), h.getPos(),
           rtosc_argument(h.getHistory(0),0).s, rtosc_argument(h.getHistory(0),1).i,
           rtosc_argument(h.getHistory(0),2).i);
    state["/c"] = 0;
    change("/c", 1);                       // event #22, t = 1: cap pops slot 0

    // The change of /a to 2 is the second most recent thing that happened;
    // "only the 20 most recent events are retained" keeps it, and
    // undoing everything retained must therefore move /a away from 2.
    h.seekHistory(-1000);
    printf("after undo-all: pos=%u /a=%d (messages for /a: %d) /b1=%d /c=%d\n",
           h.getPos(), state["/a"], a_msgs, state["/b1"], state["/c"]);
    if(a_msgs == 0 || state["/a"] == 2) {
        printf("VIOLATION: the 2nd most recent change (/a -> 2) was evicted while the 20th most recent (/b1) was kept\n");
        return 1;
    }
    return 0;
}
