#!/bin/sh
# usage: ./build.sh   (run from anywhere)
set -e
HERE=$(cd "$(dirname "$0")" && pwd)
W=$(cd "$HERE/../.." && pwd)
OUT=$(mktemp -d)
trap 'rm -rf "$OUT"' EXIT
gcc -c -g -fsanitize=address,undefined -I "$W/include" "$W/src/rtosc.c" -o "$OUT/rtosc.o"
g++ -std=c++17 -g -fsanitize=address,undefined -I "$W/include" "$HERE/demo.cpp" \
    "$W/src/cpp/undo-history.cpp" "$OUT/rtosc.o" -o "$OUT/demo"
"$OUT/demo"
