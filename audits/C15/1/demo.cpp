// C15 audit, candidate 1: an event whose address makes the set-message longer
// than the 256-byte static scratch buffer in undo-history.cpp is recorded
// fine, but seeking over it emits an EMPTY message (rewind) or nothing at all
// (replay), while the cursor still moves.
#include <rtosc/rtosc.h>
#include <rtosc/undo-history.h>
#include <cstdio>
#include <cstring>
#include <string>
#include <vector>

struct Seen { std::string addr; std::string types; int val; };

int main()
{
    rtosc::UndoHistory h;
    std::vector<Seen> seen;
    h.setCallback([&](const char *m) {
        Seen s;
        s.addr  = m;
        s.types = *m ? rtosc_argument_string(m) : "";
        s.val   = (*m && rtosc_narguments(m) == 1) ? rtosc_argument(m, 0).i : -12345;
        seen.push_back(s);
    });

    // A legal OSC address of 248 characters (deeply nested application path).
    // 247 characters still works, 248 does not.
    std::string addr = "/";
    while(addr.size() < 240) addr += "part0/";
    while(addr.size() < 248) addr += "x";

    char ev[1024];
    size_t n = rtosc_message(ev, sizeof ev, "/undo_change", "sii", addr.c_str(), 3, 9);
    if(!n) { printf("could not build event\n"); return 2; }
    h.recordEvent(ev);
    if(h.size() != 1 || h.getPos() != 1) { printf("record failed\n"); return 2; }

    int bad = 0;
    h.seekHistory(-1);
    printf("after undo: pos=%u, callbacks=%zu\n", h.getPos(), seen.size());
    if(seen.size() != 1 || seen[0].addr != addr || seen[0].types != "i" || seen[0].val != 3) {
        printf("VIOLATION: undo did not emit '<addr> i 3' (got %zu msgs, first addr='%.20s' types='%s' val=%d)\n",
               seen.size(), seen.empty() ? "" : seen[0].addr.c_str(),
               seen.empty() ? "" : seen[0].types.c_str(), seen.empty() ? 0 : seen[0].val);
        bad = 1;
    }
    seen.clear();
    h.seekHistory(+1);
    printf("after redo: pos=%u, callbacks=%zu\n", h.getPos(), seen.size());
    if(seen.size() != 1 || seen[0].addr != addr || seen[0].types != "i" || seen[0].val != 9) {
        printf("VIOLATION: redo did not emit '<addr> i 9' (got %zu msgs)\n", seen.size());
        bad = 1;
    }
    return bad;
}
