// C14 / defect 3: an array address whose index is >= 2^32 is accepted and
// silently lands on element (index mod 2^32).
#include "cap.h"
using namespace rtosc;

struct Obj {
    int   gain[4];
    float pan[4];
    bool  mute[4];
    static const Ports ports;
};
#define rObject Obj
const Ports Obj::ports = {
    rArrayI(gain, 4, rLinear(-3, 3),    "gain"),
    rArrayF(pan,  4, rLinear(-1.0, 1.0), "pan"),
    rArrayT(mute, 4,                     "mute"),
};

static bool untouched(const Obj &o)
{
    for(int i = 0; i < 4; ++i)
        if(o.gain[i] || o.pan[i] != 0.0f || o.mute[i]) return false;
    return true;
}

int main()
{
    Obj o; memset(&o, 0, sizeof o);
    Cap c(&o);

    printf("sanity: an index just past the end is rejected\n");
    snd(Obj::ports, c, "/gain4", "i", 1);
    CHECK(untouched(o) && c.ev.empty(), "gain4 must not match a 4 element array");

    printf("index 4294967298 (= 2^32 + 2) does not exist in a 4 element array\n");
    snd(Obj::ports, c, "/gain4294967298", "i", 3);
    CHECK(o.gain[2] == 0, "element 2 was not named by the address, it must stay 0");
    CHECK(c.ev.empty(), "nothing may be reported for a non-existent element");

    snd(Obj::ports, c, "/pan8589934593", "f", 0.5f);     // 2*2^32 + 1
    CHECK(o.pan[1] == 0.0f, "pan[1] was not named by the address");

    snd(Obj::ports, c, "/mute4294967296", "T");          // 2^32 + 0
    CHECK(!o.mute[0], "mute[0] was not named by the address");

    printf(fails ? "FAILED (%d violations)\n" : "ok\n", fails);
    return fails ? 1 : 0;
}
