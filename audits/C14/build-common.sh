#!/bin/sh
# usage: build-common.sh <dir-of-demo>   (compiles the worktree sources + demo.cpp with ASan and runs it)
set -e
D=$(cd "$1" && pwd)
W=$(cd "$D/../.." && pwd)
O=$(mktemp -d)
trap 'rm -rf "$O"' EXIT
SAN="-g -O1 -fsanitize=address -fno-omit-frame-pointer"
for f in "$W"/src/*.c "$W"/src/cpp/*.c; do
    gcc $SAN -I "$W/include" -c "$f" -o "$O/$(basename "$f").o"
done
for f in ports.cpp ports-runtime.cpp; do
    g++ -std=c++17 $SAN -w -I "$W/include" -c "$W/src/cpp/$f" -o "$O/$f.o"
done
g++ -std=c++17 $SAN -w -I "$W/include" -I "$D/.." "$D/demo.cpp" "$O"/*.o -o "$O/demo"
"$O/demo"
