#!/bin/sh
exec "$(dirname "$0")/../build-common.sh" "$(dirname "$0")"
