// Reproductions for audit/maybe.md (prints behaviour, always exits 0)
#include "cap.h"
#include <cmath>
using namespace rtosc;
#define MAXV (64)
enum { MAXE = 64 };
struct Obj {
    int o1, o2; float f; int a, b, c; int vol, volume, v, pan; int many[8];
    static const Ports ports, scalar_ports, alias_ports;
};
#define rObject Obj
const Ports Obj::ports = {
    rOption(o1, rOptionsBound(x, y, z), "M1: bound is the option COUNT"),
    rOption(o2, rOptions(x, y, z), rLinear(0, 1), "M2: symbol above max"),
    rParamF(f,  rLinear(0, 1), "M3: NaN / -0.0"),
    rParamI(a,  rLinear(0, MAXV), "M4: bound is a parenthesised macro"),
    rParamI(b,  rLinear(0, MAXE), "M4: bound is an enum constant"),
    rParamI(c,  rLinear(0, 0x40), "M4: bound is a hex literal"),
};
const Ports Obj::scalar_ports = {   // no '#' port -> perfect-hash dispatch
    rParamI(vol, "d"), rParamI(volume, "d"), rParamI(v, "d"), rParamI(pan, "d"),
};
const Ports Obj::alias_ports = {
    rParams(many, 8, "M7: int array + alias"),
};
int main()
{
    Obj o; memset(&o, 0, sizeof o); Cap c(&o);
    printf("M1 rOptionsBound(x,y,z): 9 ->\n");   snd(Obj::ports, c, "/o1", "i", 9);
    printf("M2 symbol 'z' (index 2) on a port with max 1 (NDEBUG build would store 2; this build asserts) - skipped unless -DNDEBUG\n");
#ifdef NDEBUG
    snd(Obj::ports, c, "/o2", "S", "z");
#endif
    printf("M3 NaN twice, then -0.0 over 0.0\n");
    snd(Obj::ports, c, "/f", "f", (float)NAN); snd(Obj::ports, c, "/f", "f", (float)NAN);
    snd(Obj::ports, c, "/f", "f", 0.0f);       snd(Obj::ports, c, "/f", "f", -0.0f);
    printf("M4 non-literal bounds: 50 ->\n");
    snd(Obj::ports, c, "/a", "i", 50); snd(Obj::ports, c, "/b", "i", 50); snd(Obj::ports, c, "/c", "i", 50);
    printf("M5 lower-case 's' symbol is not routed at all\n");
    snd(Obj::ports, c, "/o1", "s", "y");
    printf("M6 '/vol0' is not a declared address\n");
    snd(Obj::scalar_ports, c, "/vol0", "i", 7);
    printf("   vol=%d\n", o.vol);
    printf("M7 rParams alias of an int[8]: blob size\n");
    for(int i = 0; i < 8; ++i) o.many[i] = i + 1;
    { static char buf[256]; rtosc_message(buf, sizeof buf, "/many", "");
      c.ev.clear(); Obj::alias_ports.dispatch(buf, c, true);
      for(auto &e : c.ev) printf("    '%s' ,%s blob len %d (array is %zu bytes)\n",
            e.path.c_str(), e.types.c_str(), e.a[0].b.len, sizeof o.many); }
    return 0;
}
