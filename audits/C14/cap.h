// Minimal capture of everything a port callback sends (shared by the demos).
// Only the two non-variadic sinks are overridden, so the library's own
// RtData::reply(path,args,...) / broadcast(path,args,...) do the formatting.
#include <rtosc/ports.h>
#include <rtosc/port-sugar.h>
#include <rtosc/rtosc.h>
#include <cstdio>
#include <cctype>
#include <cstdlib>
#include <cstring>
#include <string>
#include <vector>
struct Ev {
    bool bc; std::string path, types;
    std::vector<rtosc_arg_t> a; std::vector<std::string> s;
};
struct Cap : rtosc::RtData {
    std::vector<char> locbuf;
    std::vector<Ev> ev;
    Cap(void *o, size_t n = 512) : locbuf(n, 0)
    { loc = locbuf.data(); loc_size = n; obj = o; }
    void push(const char *m, bool bc) {
        Ev e; e.bc = bc; e.path = m;
        if(*m) {
            e.types = rtosc_argument_string(m);
            for(unsigned i = 0; i < e.types.size(); ++i) {
                e.a.push_back(rtosc_argument(m, i));
                char t = e.types[i];
                e.s.push_back((t=='s'||t=='S') ? rtosc_argument(m,i).s : "");
            }
        }
        ev.push_back(e);
    }
    void reply(const char *m) override     { push(m, false); }
    void broadcast(const char *m) override { push(m, true); }
    void dump() const {
        for(auto &e : ev) {
            printf("    %s '%s' ,%s", e.bc ? "broadcast" : "reply    ",
                   e.path.c_str(), e.types.c_str());
            for(unsigned i = 0; i < e.types.size(); ++i) {
                char t = e.types[i];
                if(t=='i'||t=='c') printf(" %d", e.a[i].i);
                else if(t=='f')    printf(" %g", e.a[i].f);
                else if(t=='s'||t=='S') printf(" '%.40s'", e.s[i].c_str());
            }
            printf("\n");
        }
    }
};
template<class... A>
static void snd(const rtosc::Ports &p, Cap &c, const char *path,
                const char *types, A... a)
{
    static char buf[65536];
    rtosc_message(buf, sizeof buf, path, types, a...);
    c.ev.clear();
    printf("  send %.60s ,%s\n", path, types);
    p.dispatch(buf, c, true);
    c.dump();
}
static int fails = 0;
#define CHECK(cond, what) do { if(!(cond)) { ++fails; \
    printf("  VIOLATION: %s   [%s]\n", what, #cond); } } while(0)
