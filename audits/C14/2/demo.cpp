// C14 / defect 2: rLIMIT narrows the declared bound to the storage type
// before comparing, so a bound outside that type wraps and an in-range
// value is "clamped" to garbage.
#include "cap.h"
using namespace rtosc;

struct Obj {
    short    detune;   // declared -40000..40000 (wider than short: i.e. "no effective limit")
    short    cents;    // declared 0..65535
    unsigned steps;    // declared -1..10  (-1 below the unsigned range)
    short    arr[3];   // rArrayI, declared 0..40000
    static const Ports ports;
};
#define rObject Obj
const Ports Obj::ports = {
    rParamI(detune, rLinear(-40000, 40000), "detune"),
    rParamI(cents,  rLinear(0, 65535),      "cents"),
    rParamI(steps,  rLinear(-1, 10),        "steps"),
    rArrayI(arr, 3, rLinear(0, 40000),      "array"),
};

int main()
{
    Obj o; memset(&o, 0, sizeof o);
    Cap c(&o);

    printf("short storage, declared -40000..40000, incoming 100 (in range)\n");
    snd(Obj::ports, c, "/detune", "i", 100);
    CHECK(o.detune == 100, "stored value must be 100");
    CHECK(!c.ev.empty() && c.ev.back().a[0].i == 100, "broadcast must carry 100");

    printf("short storage, declared 0..65535, incoming 1200 (in range)\n");
    snd(Obj::ports, c, "/cents", "i", 1200);
    CHECK(o.cents == 1200, "stored value must be 1200");

    printf("unsigned storage, declared -1..10, incoming 5 (in range)\n");
    snd(Obj::ports, c, "/steps", "i", 5);
    CHECK(o.steps == 5, "stored value must be 5");

    printf("short[3] array, declared 0..40000, incoming 7 to element 1\n");
    snd(Obj::ports, c, "/arr1", "i", 7);
    CHECK(o.arr[1] == 7, "stored value must be 7");

    printf(fails ? "FAILED (%d violations)\n" : "ok\n", fails);
    return fails ? 1 : 0;
}
