// C14 / defect 4: the textual index of an array address is copied into
// RtData::loc without looking at loc_size. A (legal) zero padded index
// overruns the caller's buffer -> memory other than the named element is
// written, even by a plain query.
#include "cap.h"
using namespace rtosc;

struct Obj {
    int gain[4];
    static const Ports ports;
};
#define rObject Obj
const Ports Obj::ports = {
    rArrayI(gain, 4, rLinear(-3, 3), "gain"),
};

int main()
{
    Obj o; memset(&o, 0, sizeof o);
    o.gain[1] = 2;

    // the application hands dispatch a 64 byte location buffer and says so
    Cap c(&o, 64);

    // short form works
    snd(Obj::ports, c, "/gain1", "");
    CHECK(c.ev.size() == 1 && c.ev[0].a[0].i == 2, "query of gain1 replies 2");

    // same element, index written with leading zeros (matches: atoi("00..01") == 1 < 4)
    std::string addr = "/gain" + std::string(100, '0') + "1";
    printf("query with a 101 digit index, loc_size = 64 (ASan aborts here on the unmodified library)\n");
    snd(Obj::ports, c, addr.c_str(), "");

    // if we get here the library either refused the address or truncated safely
    CHECK(o.gain[1] == 2, "query changes nothing");
    printf(fails ? "FAILED (%d violations)\n" : "ok\n", fails);
    return fails ? 1 : 0;
}
