// C14 / defect 5: a string port whose declared length exceeds the 8 KiB
// scratch buffer of RtData::reply/broadcast stores the value but reports an
// EMPTY message (no address, no value) for both the change broadcast and the
// query reply.
#include "cap.h"
using namespace rtosc;

struct Obj {
    char notes[10000];
    static const Ports ports;
};
#define rObject Obj
const Ports Obj::ports = {
    rString(notes, 10000, "free text"),
};

int main()
{
    static Obj o; memset(&o, 0, sizeof o);
    Cap c(&o);

    printf("8170 characters: fits the scratch buffer\n");
    std::string ok(8170, 'a');
    snd(Obj::ports, c, "/notes", "s", ok.c_str());
    CHECK(ok == o.notes, "stored");
    CHECK(c.ev.size() == 1 && c.ev[0].bc && c.ev[0].path == "/notes" &&
          c.ev[0].s.size() == 1 && c.ev[0].s[0] == ok, "broadcast carries the new value");

    printf("9000 characters: within the declared length 10000\n");
    std::string big(9000, 'x');
    snd(Obj::ports, c, "/notes", "s", big.c_str());
    CHECK(big == o.notes, "stored value is the incoming string (shorter than the declared length)");
    CHECK(c.ev.size() == 1 && c.ev[0].bc && c.ev[0].path == "/notes",
          "the change must be broadcast at the port's address");
    CHECK(c.ev.size() == 1 && c.ev[0].s.size() == 1 && c.ev[0].s[0] == big,
          "the broadcast must carry the new value");

    printf("query\n");
    snd(Obj::ports, c, "/notes", "");
    CHECK(c.ev.size() == 1 && !c.ev[0].bc && c.ev[0].path == "/notes",
          "the query must be answered at the port's full address");
    CHECK(c.ev.size() == 1 && c.ev[0].s.size() == 1 && c.ev[0].s[0] == big,
          "the reply must carry the stored value");

    printf(fails ? "FAILED (%d violations)\n" : "ok\n", fails);
    return fails ? 1 : 0;
}
