#!/bin/sh
# builds demo.cpp against the worktree sources (ASan) and runs it; exit status is the demo's
exec "$(dirname "$0")/../build-common.sh" "$(dirname "$0")"
