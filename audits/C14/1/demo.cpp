// C14 / defect 1: rParam ignores the range the application declares
#include "cap.h"
using namespace rtosc;

struct Obj {
    char          depth;   // declared 0..64
    unsigned char vel;     // declared 1..100
    int           ref;     // same declaration through rParamI, for comparison
    static const Ports ports;
};
#define rObject Obj
const Ports Obj::ports = {
    rParam (depth, rLinear(0, 64),  "modulation depth"),
    rParam (vel,   rLinear(1, 100), "velocity"),
    rParamI(ref,   rLinear(0, 64),  "reference: same range on an int port"),
};

int main()
{
    Obj o; memset(&o, 0, sizeof o);
    Cap c(&o);

    printf("metadata of 'depth':\n");
    for(auto m : Obj::ports["depth"]->meta())
        printf("    %s = %s\n", m.title, m.value ? m.value : "");

    printf("rParamI reference, declared 0..64\n");
    snd(Obj::ports, c, "/ref", "i", 100);
    CHECK(o.ref == 64, "reference int port must clamp to 64");

    printf("rParam depth, declared rLinear(0,64)\n");
    snd(Obj::ports, c, "/depth", "c", 100);
    CHECK(o.depth == 64, "stored value must be 100 clamped to the declared max 64");
    CHECK(c.ev.size() == 2 && c.ev[0].path == "/undo_change" &&
          c.ev[0].a[2].i == 64, "undo event must carry new value 64");
    CHECK(!c.ev.empty() && c.ev.back().bc && c.ev.back().a[0].i == 64,
          "broadcast must carry new value 64");

    printf("rParam vel, declared rLinear(1,100)\n");
    o.vel = 50;
    snd(Obj::ports, c, "/vel", "c", 0);
    CHECK(o.vel == 1, "stored value must be 0 clamped to the declared min 1");
    snd(Obj::ports, c, "/vel", "c", 120);
    CHECK(o.vel == 100, "stored value must be 120 clamped to the declared max 100");

    printf(fails ? "FAILED (%d violations)\n" : "ok\n", fails);
    return fails ? 1 : 0;
}
