// C13 audit, candidate 4 (same root cause as candidate 3): rDepends(...) always ends its list with ',' ("a,b,").
// scan_deps turns the empty entry after the last ',' into the *directory* of the
// port and recurses into it; when that directory port carries an rDepends of
// its own, the empty entry of *its* list resolves to the same directory again
// -> unbounded recursion, load_from_file never returns (stack overflow).
#include <cstdio>
#include <cstring>
#include <string>
#include <vector>
#include <set>
#include <algorithm>
#include <rtosc/ports.h>
#include <rtosc/port-sugar.h>
#include <rtosc/savefile.h>
#include <rtosc/rtosc-version.h>
using namespace rtosc;

static std::vector<std::string> applied;

struct Voice
{
    static const Ports& ports;
    int detune = 0;
    int detune_type = 0;
};
struct Root
{
    Voice voice;
    int mode = 0;
};

#define rObject Voice
#undef  rChangeCb
#define rChangeCb applied.push_back(data.loc)
static const Ports voice_ports = {
    // "apply detune_type before detune"
    rParamI(detune, rDepends(detune_type), rDefault(0), "detune"),
    rParamI(detune_type, rDefault(0), "detune type"),
};
#undef rObject
const Ports& Voice::ports = voice_ports;

#define rObject Root
static const Ports root_ports = {
    // "apply mode before anything inside voice/"
    rRecur(voice, rDepends(mode), "the voice"),
    rParamI(mode, rDefault(0), "global mode"),
};
#undef rChangeCb
#define rChangeCb
#undef rObject

int main()
{
    rtosc_version ver{0,0,1};
    std::set<std::string> written;
    Root src; src.mode = 2; src.voice.detune_type = 1; src.voice.detune = 5;
    std::string file = save_to_file(root_ports, &src, "demo", ver, written, {});
    printf("savefile:\n%s\n", file.c_str());
    fflush(stdout);

    Root dst;
    int n = load_from_file(file.c_str(), root_ports, &dst, "demo", ver);
    printf("n=%d mode=%d detune_type=%d detune=%d, applied:", n, dst.mode,
           dst.voice.detune_type, dst.voice.detune);
    for(auto& a : applied) printf(" %s", a.c_str());
    puts("");
    auto pos = [](const char* s) {
        return std::find(applied.begin(), applied.end(), s) - applied.begin(); };
    bool ok = n == 3 && dst.mode == 2 && dst.voice.detune_type == 1 && dst.voice.detune == 5
           && pos("/mode") < pos("/voice/detune") && pos("/mode") < pos("/voice/detune_type")
           && pos("/voice/detune_type") < pos("/voice/detune");
    puts(ok ? "ok" : "VIOLATION");
    return ok ? 0 : 1;
}
