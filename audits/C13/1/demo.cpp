// C13 audit, candidate 1: a dependent leaf port whose name is a prefix of an
// earlier-declared sibling ("sustain" vs "sustain_level") loses its
// rDefaultDepends edge, so load order == file order.
#include <cstdio>
#include <cstring>
#include <string>
#include <vector>
#include <set>
#include <algorithm>
#include <rtosc/ports.h>
#include <rtosc/port-sugar.h>
#include <rtosc/savefile.h>
#include <rtosc/rtosc-version.h>
using namespace rtosc;

static std::vector<std::string> applied; // order in which setters ran

struct Env
{
    int sustain_level = 5;
    int sustain = 30;
    int env_type = 0;
    void preset_changed() // choosing a preset re-initialises what depends on it
    {
        sustain = env_type == 1 ? 127 : 30;
    }
    bool operator==(const Env& o) const {
        return sustain_level == o.sustain_level && sustain == o.sustain
            && env_type == o.env_type; }
};

#define rObject Env
#undef  rChangeCb
#define rChangeCb applied.push_back(data.loc)
static const Ports env_ports = {
#ifndef CONTROL
    // an unrelated parameter; its name merely starts with "sustain"
    rParamI(sustain_level, rDefault(5), "sustain level"),
#endif
    // the dependent parameter (same shape as test/default-value.cpp)
    rParamI(sustain, rDefaultDepends(env_type), rPreset(0, 30), rPreset(1, 127),
            "sustain"),
#ifdef CONTROL // control experiment: same ports, unrelated one declared later
    rParamI(sustain_level, rDefault(5), "sustain level"),
#endif
#undef  rChangeCb
#define rChangeCb applied.push_back(data.loc); obj->preset_changed()
    rParamI(env_type, rDefault(0), "envelope type (preset)"),
#undef  rChangeCb
#define rChangeCb
};
#undef rObject

static std::vector<std::string> split_lines(const std::string& s)
{
    std::vector<std::string> v; size_t p = 0;
    while(p < s.size()) {
        size_t e = s.find('\n', p); if(e == std::string::npos) e = s.size();
        if(e > p) v.push_back(s.substr(p, e-p));
        p = e+1; }
    return v;
}

int main()
{
    rtosc_version ver{0,0,1};
    Env src; src.env_type = 1; src.preset_changed(); src.sustain = 60;

    std::set<std::string> written;
    std::string file = save_to_file(env_ports, &src, "demo", ver, written, {});
    std::vector<std::string> lines = split_lines(file);
    std::string header = lines[0] + "\n" + lines[1] + "\n";
    lines.erase(lines.begin(), lines.begin()+2);
    printf("savefile body (%zu lines):\n", lines.size());
    for(auto& l : lines) printf("  %s\n", l.c_str());

    std::sort(lines.begin(), lines.end());
    int bad = 0, nperm = 0;
    do {
        std::string f = header;
        for(auto& l : lines) f += l + "\n";
        Env dst; applied.clear();
        int n = load_from_file(f.c_str(), env_ports, &dst, "demo", ver);
        size_t pe = std::find(applied.begin(), applied.end(), "/env_type") - applied.begin();
        size_t ps = std::find(applied.begin(), applied.end(), "/sustain")  - applied.begin();
        bool ok = (n == (int)lines.size()) && dst == src && pe < ps;
        printf("perm %d: [", nperm);
        for(auto& l : lines) printf(" '%s'", l.c_str());
        printf(" ] -> n=%d sustain=%d env_type=%d, applied:", n, dst.sustain, dst.env_type);
        for(auto& a : applied) printf(" %s", a.c_str());
        printf("  %s\n", ok ? "ok" : "VIOLATION");
        bad += !ok; ++nperm;
    } while(std::next_permutation(lines.begin(), lines.end()));

    printf("%d of %d permutations violate C13\n", bad, nperm);
    return bad ? 1 : 0;
}
