// C13 audit, candidate 2: enablement declared with rSelf(..., rEnabledBy(toggle))
// (doc/Guide.adoc, "enable self by port") is honoured when saving but produces
// no ordering edge when loading.
#include <cstdio>
#include <cstring>
#include <string>
#include <vector>
#include <set>
#include <algorithm>
#include <rtosc/ports.h>
#include <rtosc/port-sugar.h>
#include <rtosc/savefile.h>
#include <rtosc/rtosc-version.h>
using namespace rtosc;

static std::vector<std::string> applied; // order in which setters ran

struct Component
{
    static const Ports& ports;
    int  x = 0;
    bool enabled = false;
    // switching a component on gives a freshly initialised component
    void enabled_changed() { if(enabled) x = 0; }
};

struct Root
{
    Component sub;
    int y = 0;
};

#define rObject Component
#undef  rChangeCb
#define rChangeCb applied.push_back(data.loc)
static const Ports component_ports = {
    rSelf(Component, rEnabledBy(enabled)),
    rParamI(x, rDefault(0), "some parameter of the component"),
#undef  rChangeCb
#define rChangeCb applied.push_back(data.loc); obj->enabled_changed()
    rToggle(enabled, rDefault(false), "whether this component is in use"),
#undef  rChangeCb
#define rChangeCb
};
#undef rObject
const Ports& Component::ports = component_ports;

#define rObject Root
static const Ports root_ports = {
    rRecur(sub, "a component"),
    rParamI(y, rDefault(0), "unrelated"),
};
#undef rObject

static std::vector<std::string> split_lines(const std::string& s)
{
    std::vector<std::string> v; size_t p = 0;
    while(p < s.size()) {
        size_t e = s.find('\n', p); if(e == std::string::npos) e = s.size();
        if(e > p) v.push_back(s.substr(p, e-p));
        p = e+1; }
    return v;
}

int main()
{
    rtosc_version ver{0,0,1};
    std::set<std::string> written;

    // the enablement is really in force when saving: a disabled component
    // with x != default contributes no line for x
    {
        Root off; off.sub.x = 7;
        std::string f = get_changed_values(root_ports, &off, written, {});
        written.clear();
        printf("disabled component saves as: \"%s\"\n", f.c_str());
        if(f.find("/sub/x") != std::string::npos) { puts("unexpected"); return 2; }
    }

    Root src; src.sub.enabled = true; src.sub.x = 7; src.y = 3;
    std::string file = save_to_file(root_ports, &src, "demo", ver, written, {});
    std::vector<std::string> lines = split_lines(file);
    std::string header = lines[0] + "\n" + lines[1] + "\n";
    lines.erase(lines.begin(), lines.begin()+2);
    printf("savefile body (%zu lines):\n", lines.size());
    for(auto& l : lines) printf("  %s\n", l.c_str());

    std::sort(lines.begin(), lines.end());
    int bad = 0, nperm = 0;
    do {
        std::string f = header;
        for(auto& l : lines) f += l + "\n";
        Root dst; applied.clear();
        int n = load_from_file(f.c_str(), root_ports, &dst, "demo", ver);
        size_t pe = std::find(applied.begin(), applied.end(), "/sub/enabled") - applied.begin();
        size_t px = std::find(applied.begin(), applied.end(), "/sub/x") - applied.begin();
        bool same = dst.sub.x == src.sub.x && dst.sub.enabled == src.sub.enabled && dst.y == src.y;
        bool ok = (n == (int)lines.size()) && same && pe < px;
        printf("perm %d: [", nperm);
        for(auto& l : lines) printf(" '%s'", l.c_str());
        printf(" ] -> n=%d sub.enabled=%d sub.x=%d y=%d, applied:", n, dst.sub.enabled, dst.sub.x, dst.y);
        for(auto& a : applied) printf(" %s", a.c_str());
        printf("  %s\n", ok ? "ok" : "VIOLATION");
        bad += !ok; ++nperm;
    } while(std::next_permutation(lines.begin(), lines.end()));

    printf("%d of %d permutations violate C13\n", bad, nperm);
    return bad ? 1 : 0;
}
