#!/bin/sh
# usage: ./build.sh   (run from anywhere; compiles against the worktree sources)
set -e
# the library's own build types (Release, RelWithDebInfo) define NDEBUG; run with
#   EXTRA_CFLAGS= ./build.sh
# to see the assertion in dispatch_printed_messages fire instead
: "${EXTRA_CFLAGS=-DNDEBUG}"
HERE=$(cd "$(dirname "$0")" && pwd)
WT=$(cd "$HERE/../.." && pwd)
OUT=$(mktemp -d)
trap 'rm -rf "$OUT"' EXIT
sed -e 's/${VERSION_MAJOR}/0/' -e 's/${VERSION_MINOR}/3/' -e 's/${VERSION_PATCH}/1/' \
    "$WT/src/cpp/version.c.in" > "$OUT/version.c"
for f in "$WT"/src/*.c "$WT"/src/cpp/*.c "$OUT/version.c"; do
    gcc -std=gnu99 -g -O1 -fsanitize=address,undefined -I "$WT/include" -I "$WT/src/cpp" ${EXTRA_CFLAGS} \
        -c "$f" -o "$OUT/$(basename "$f").o"
done
g++ -std=c++17 -g -O1 -fsanitize=address,undefined -I "$WT/include" -I "$WT/src/cpp" ${EXTRA_CFLAGS} \
    "$HERE/demo.cpp" \
    "$WT/src/cpp/ports.cpp" "$WT/src/cpp/ports-runtime.cpp" \
    "$WT/src/cpp/default-value.cpp" "$WT/src/cpp/savefile.cpp" \
    "$OUT"/*.o -o "$OUT/demo"
"$OUT/demo"
