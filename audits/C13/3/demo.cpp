// C13 audit, candidate 3: rDepends(...) always ends its list with ',' ("mode,").
// scan_deps turns the empty entry after the last ',' into the *directory* of
// the port ("/a/"), looks that directory port up and resolves the directory's
// own "enabled by" relative to "/a/" instead of "/".  Two nested enable toggles
// with the same name ("en" enables a/, "a/en" enables a/b/) then make
// "/a/en" depend on itself: Kahn's sort never releases it.  In the library's
// default build (NDEBUG) "/a/en" and everything below a/b/ are silently never
// applied although all messages are reported as read; with assertions the
// process aborts in dispatch_printed_messages.
#include <cstdio>
#include <cstring>
#include <string>
#include <vector>
#include <set>
#include <algorithm>
#include <rtosc/ports.h>
#include <rtosc/port-sugar.h>
#include <rtosc/savefile.h>
#include <rtosc/rtosc-version.h>
using namespace rtosc;

static std::vector<std::string> applied;
#undef  rChangeCb
#define rChangeCb applied.push_back(data.loc)

struct B { static const Ports& ports; int z = 0; };
struct A { static const Ports& ports; bool en = false; int mode = 0; B b; };
struct Root { bool en = false; A a; };

#define rObject B
static const Ports b_ports = { rParamI(z, rDefault(0), "z") };
#undef rObject
const Ports& B::ports = b_ports;

#define rObject A
static const Ports a_ports = {
    // toggle for the subtree b/; the app wants "mode" applied first
    rToggle(en, rDepends(mode), rDefault(false), "enables b/"),
    rParamI(mode, rDefault(0), "mode"),
    rRecur(b, rEnabledBy(en), "b"),
};
#undef rObject
const Ports& A::ports = a_ports;

#define rObject Root
static const Ports root_ports = {
    rToggle(en, rDefault(false), "enables a/"),
    rRecur(a, rEnabledBy(en), "a"),
};
#undef rObject
#undef  rChangeCb
#define rChangeCb

static std::vector<std::string> split_lines(const std::string& s)
{
    std::vector<std::string> v; size_t p = 0;
    while(p < s.size()) {
        size_t e = s.find('\n', p); if(e == std::string::npos) e = s.size();
        if(e > p) v.push_back(s.substr(p, e-p));
        p = e+1; }
    return v;
}

int main()
{
    rtosc_version ver{0,0,1};
    std::set<std::string> written;
    Root src; src.en = true; src.a.en = true; src.a.mode = 1; src.a.b.z = 4;
    std::string file = save_to_file(root_ports, &src, "demo", ver, written, {});
    std::vector<std::string> lines = split_lines(file);
    std::string header = lines[0] + "\n" + lines[1] + "\n";
    lines.erase(lines.begin(), lines.begin()+2);
    printf("savefile body (%zu lines):\n", lines.size());
    for(auto& l : lines) printf("  %s\n", l.c_str());
    fflush(stdout);

    auto pos = [](const char* s) {
        return std::find(applied.begin(), applied.end(), s) - applied.begin(); };

    std::sort(lines.begin(), lines.end());
    int bad = 0, nperm = 0;
    do {
        std::string f = header;
        for(auto& l : lines) f += l + "\n";
        Root dst; applied.clear();
        int n = load_from_file(f.c_str(), root_ports, &dst, "demo", ver);
        bool same = dst.en == src.en && dst.a.en == src.a.en
                 && dst.a.mode == src.a.mode && dst.a.b.z == src.a.b.z;
        bool ordered = applied.size() == 4
                    && pos("/en") < pos("/a/en") && pos("/a/mode") < pos("/a/en")
                    && pos("/a/en") < pos("/a/b/z");
        bool ok = n == 4 && same && ordered;
        printf("perm %2d: n=%d en=%d a.en=%d a.mode=%d a.b.z=%d applied(%zu):",
               nperm, n, dst.en, dst.a.en, dst.a.mode, dst.a.b.z, applied.size());
        for(auto& a : applied) printf(" %s", a.c_str());
        printf("  %s\n", ok ? "ok" : "VIOLATION");
        bad += !ok; ++nperm;
    } while(std::next_permutation(lines.begin(), lines.end()));
    printf("%d of %d permutations violate C13\n", bad, nperm);
    return bad ? 1 : 0;
}
