#!/bin/sh
set -e
cd "$(dirname "$0")"
W=../..
gcc -c -g -O1 -fsanitize=address -I $W/include $W/src/rtosc.c -o rtosc.o
g++ -std=c++17 -g -O1 -fsanitize=address -I $W/include demo.cpp rtosc.o -o demo
./demo
