// C07 candidate 1: rtosc_valid_message_p accepts buffers whose type-tag string
// contains tags no OSC decoder can decode (unknown letters, control bytes, 0xff).
// The accessors then report them as zero-size "arguments".
#include <rtosc/rtosc.h>
#include <cstdio>
#include <cstring>
#include <cstdint>
#include <cstdlib>

// Independent decoder, written from the OSC 1.0 spec (+ the usual extension tags
// h t d S c r m T F N I [ ]).  Returns the number of arguments, or -1 when the
// bytes are not a decodable OSC message.  OSC 1.0: "an OSC application should
// discard any message whose OSC Type Tag String contains any unrecognized OSC
// Type Tags" - the payload size of an unknown tag is unknowable.
static int ref_decode(const uint8_t *b, size_t n, char *types_out)
{
    if(n == 0 || n % 4 || b[0] != '/') return -1;
    size_t p = 0; while(p < n && b[p]) p++;
    if(p == n) return -1;
    size_t q = (p/4+1)*4;
    if(q >= n || b[q] != ',') return -1;
    size_t z = q; while(z < n && b[z]) z++;
    if(z == n) return -1;
    size_t pos = (z/4+1)*4;
    int nargs = 0;
    for(size_t k = q+1; k < z; ++k) {
        switch(b[k]) {
            case 'i': case 'f': case 'c': case 'r': case 'm': pos += 4; break;
            case 'h': case 't': case 'd': pos += 8; break;
            case 's': case 'S': {
                size_t e = pos; while(e < n && b[e]) e++;
                if(e >= n) return -1;
                pos = (e/4+1)*4; break; }
            case 'b': {
                if(pos+4 > n) return -1;
                uint32_t L = (uint32_t)b[pos]<<24 | b[pos+1]<<16 | b[pos+2]<<8 | b[pos+3];
                pos += 4;
                if(L > n-pos) return -1;
                pos += (L+3)&~3u; break; }
            case 'T': case 'F': case 'N': case 'I': break;
            case '[': case ']': continue;
            default: return -1;              // unrecognised type tag
        }
        if(pos > n) return -1;
        types_out[nargs++] = b[k];
    }
    types_out[nargs] = 0;
    return pos == n ? nargs : -1;
}

static int one(const char *name, const char *bytes, size_t n)
{
    char *buf = (char*)malloc(n);            // exact-size heap copy
    memcpy(buf, bytes, n);
    char rtypes[64];
    int  rn = ref_decode((const uint8_t*)buf, n, rtypes);
    bool v  = rtosc_valid_message_p(buf, n);
    int bad = 0;
    printf("%-28s valid_p=%d  reference=%s", name, v, rn < 0 ? "REJECT" : "ok");
    if(v) {
        unsigned na = rtosc_narguments(buf);
        printf("  rtosc_narguments=%u types:", na);
        for(unsigned i = 0; i < na; ++i)
            printf(" 0x%02x", (unsigned char)rtosc_type(buf, i));
        if(rn < 0 || (unsigned)rn != na) bad = 1;
    }
    printf("%s\n", bad ? "   <-- accessor result has no counterpart in the reference decoder" : "");
    free(buf);
    return bad;
}

int main()
{
    int bad = 0;
    // control: an ordinary message, both agree
    bad += one("/a ,i 7 (control)",   "/a\0\0,i\0\0\0\0\0\7", 12);
    // unknown letter
    bad += one("/a ,x",               "/a\0\0,x\0\0", 8);
    // control byte and 0xff as type tags
    bad += one("/a ,\\x01\\xff",      "/a\0\0,\x01\xff\0", 8);
    // unknown tag in front of a sized one: rtosc decodes the int at the first
    // argument slot, i.e. it has silently decided that 'x' carries no payload
    bad += one("/a ,xi 7",            "/a\0\0,xi\0\0\0\0\7", 12);
    return bad ? 1 : 0;
}
