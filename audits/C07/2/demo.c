/* C07 candidate 2: bytes >= 0x80 in the most significant position of a 32 bit
 * field are shifted as (int)byte << 24 - signed overflow, undefined behaviour in
 * ISO C (C11 6.5.7p4).  Reached (a) by rtosc_message_length on untrusted bytes
 * (blob length 0x80000000..0xffffffff) and (b) by the accessors on a message the
 * validator accepted (any int/float/char/rgb argument with the top bit set).
 * Build with -fsanitize=undefined -fno-sanitize-recover=undefined: aborts.
 * Usage: demo a | demo b | demo c */
#include <rtosc/rtosc.h>
#include <stdio.h>
#include <stdlib.h>
#include <string.h>

int main(int argc, char **argv)
{
    char which = argc > 1 ? argv[1][0] : 'a';
    if(which == 'a') {
        /* "/a" ",b" blob length 0xffffffff, 12 bytes */
        const char in[12] = "/a\0\0,b\0\0\xff\xff\xff\xff";
        char *buf = malloc(12); memcpy(buf, in, 12);
        size_t L = rtosc_message_length(buf, 12);   /* rtosc.c:650 */
        printf("a: length=%zu\n", L);
        free(buf);
        return L == 0 ? 0 : 1;
    } else if(which == 'b') {
        /* "/a" ",i" -1 : a perfectly valid message */
        const char in[12] = "/a\0\0,i\0\0\xff\xff\xff\xff";
        char *buf = malloc(12); memcpy(buf, in, 12);
        if(!rtosc_valid_message_p(buf, 12)) { puts("b: not valid?"); return 2; }
        int v = rtosc_argument(buf, 0).i;           /* rtosc.c:480 */
        printf("b: arg=%d\n", v);
        free(buf);
        return v == -1 ? 0 : 1;
    } else {
        /* "#bundle" timetag, element length 0x80000000 */
        char in[20] = "#bundle";
        in[16] = (char)0x80;
        char *buf = malloc(20); memcpy(buf, in, 20);
        size_t L = rtosc_message_length(buf, 20);   /* rtosc.c:565 */
        printf("c: length=%zu\n", L);
        free(buf);
        return L == 0 ? 0 : 1;
    }
}
