#!/bin/sh
# exits non-zero if any of the three cases trips the sanitizer
cd "$(dirname "$0")"
W=../..
gcc -std=gnu11 -g -O1 -fsanitize=address,undefined -fno-sanitize-recover=undefined \
    -I $W/include demo.c $W/src/rtosc.c -o demo || exit 99
rc=0
for c in a b c; do
    ./demo $c || { echo "case $c: FAILED (status $?)"; rc=1; }
done
exit $rc
