// reproductions for audit/maybe.md - prints what the library does, always exits 0
#include <rtosc/rtosc.h>
#include <cstdio>
#include <cstring>
#include <cstdlib>
static void one(const char*name,const char*b,size_t n){
    char*buf=(char*)malloc(n);memcpy(buf,b,n);
    bool v=rtosc_valid_message_p(buf,n);
    printf("%-44s len=%zu valid_p=%d",name,rtosc_message_length(buf,n),v);
    if(v){printf(" nargs=%u argstr=\"%s\"",rtosc_narguments(buf),rtosc_argument_string(buf));
        if(rtosc_narguments(buf)&&rtosc_type(buf,0)=='s')printf(" arg0=\"%s\"",rtosc_argument(buf,0).s);
        if(rtosc_narguments(buf)&&rtosc_type(buf,0)=='b')printf(" blob.len=%d",rtosc_argument(buf,0).b.len);}
    printf("\n");free(buf);}
int main(){
    one("M1 string padding non-zero  ,s \"ab\\0X\"",   "/a\0\0,s\0\0ab\0X",12);
    one("M1 type-tag padding non-zero ,i\\0X",         "/a\0\0,i\0X\0\0\0\7",12);
    one("M1 blob padding non-zero len=1 'A' 'XYZ'",    "/a\0\0,b\0\0\0\0\0\1AXYZ",16);
    one("M2 unbalanced brackets ,]][",                 "/a\0\0,]][\0\0\0\0",12);
    one("M3 path with space and '#'  \"/a #\"",        "/a #\0\0\0\0,\0\0\0",12);
    one("M5 bundle, trailing garbage after 0 length",  "#bundle\0\0\0\0\0\0\0\0\1\0\0\0\0XXXX",24);
    return 0;}
