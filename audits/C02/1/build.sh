#!/bin/sh
# builds and runs the demo against the worktree sources; exit status is the demo's
set -e
HERE=$(cd "$(dirname "$0")" && pwd)
ROOT=$(cd "$HERE/../.." && pwd)
OUT=$(mktemp -d)
trap 'rm -rf "$OUT"' EXIT
gcc -std=gnu11 -g -O1 -fsanitize=address,undefined -fno-sanitize-recover=undefined \
    -I "$ROOT/include" "$HERE/demo.c" "$ROOT/src/rtosc.c" -o "$OUT/demo"
set +e
ASAN_OPTIONS=detect_leaks=0 "$OUT/demo"
rc=$?
echo "exit status: $rc"
exit $rc
