/* C02 audit 1: 32-bit position counter wraps in vsosc_null()/rtosc_amessage().
 *
 * Two blob arguments with data==NULL ("reserve space" blobs, the form used by
 * example/simple/synth.cc) need no source memory, so a message whose encoded
 * size is 2^32+8 bytes can be requested on any machine.
 * The size pre-computation wraps to 8, the capacity check `total_len>len`
 * passes for an 8-byte destination and the writer then stores outside
 * [buffer, buffer+8).
 *
 * exit 0: property held; non-zero: violated. */
#define _GNU_SOURCE
#include <rtosc/rtosc.h>
#include <stdio.h>
#include <stdlib.h>
#include <string.h>
#include <stdint.h>
#include <sys/mman.h>

int main(void)
{
    rtosc_arg_t a[2];
    memset(a, 0, sizeof a);
    a[0].b.len = 0x7ffffffc; a[0].b.data = NULL;
    a[1].b.len = 0x7ffffffc; a[1].b.data = NULL;

    /* "/a\0\0" ",bb\0" + 2*(4+0x7ffffffc) */
    const uint64_t true_size = 4 + 4 + 2*(4ull + 0x7ffffffcull);
    int bad = 0;

    size_t need = rtosc_amessage(NULL, 0, "/a", "bb", a);
    printf("true encoded size   : %llu\n", (unsigned long long)true_size);
    printf("NULL-buffer call    : %zu\n", need);
    if(need != true_size) {
        printf("VIOLATION: NULL-buffer call does not return the size the message needs\n");
        bad = 1;
    }

    /* A big lazily-backed mapping so that the stray stores land in memory we
     * own and can inspect, instead of crashing. The *declared* capacity is
     * only `cap` bytes. */
    const size_t map_len = (size_t)5 << 30;
    unsigned char *buf = mmap(NULL, map_len, PROT_READ|PROT_WRITE,
                              MAP_PRIVATE|MAP_ANONYMOUS|MAP_NORESERVE, -1, 0);
    if(buf == MAP_FAILED) {
        /* fall back: exact-size heap block, ASan/segfault will report */
        printf("mmap failed, falling back to exact-size heap buffer\n");
        char *h = malloc(need ? need : 1);
        size_t r = rtosc_amessage(h, need, "/a", "bb", a);
        printf("returned %zu\n", r);
        free(h);
        return 1;
    }

    const size_t cap = 8; /* far too small for a 4 GiB message */
    size_t r = rtosc_amessage((char*)buf, cap, "/a", "bb", a);
    printf("capacity %zu -> returned %zu (property demands 0: does not fit)\n", cap, r);
    if(r != 0) {
        printf("VIOLATION: message that cannot fit was not refused\n");
        bad = 1;
    }
    /* look for stores outside [buf, buf+cap) at the two places the writer
     * puts the blob length words */
    const size_t probe[2] = {8, 8 + 4 + 0x7ffffffcull};
    for(int k = 0; k < 2; ++k) {
        size_t off = probe[k];
        if(buf[off] | buf[off+1] | buf[off+2] | buf[off+3]) {
            printf("VIOLATION: wrote %02x %02x %02x %02x at buffer+%zu, capacity was %zu\n",
                   buf[off], buf[off+1], buf[off+2], buf[off+3], off, cap);
            bad = 1;
        }
    }
    munmap(buf, map_len);
    printf(bad ? "FAIL\n" : "OK\n");
    return bad;
}
