/* C02 audit 3: rtosc_bundle() measures its elements with
 * rtosc_message_length(elm, -1), i.e. with no upper bound.
 *
 * A plain message is self-delimiting, a bundle is not: bundle_ring_length()
 * only stops at a zero length word, which is not part of the bundle. A bundle
 * produced by rtosc_bundle() itself, stored in exactly the number of bytes
 * rtosc_bundle() returned, is therefore mis-measured when it is used as an
 * element of another bundle:
 *   (a) the 4 bytes behind the element are read (ASan: heap-buffer-overflow READ)
 *   (b) when those bytes are not zero, the size check and the copy use a wrong
 *       element size: a destination of exactly the needed capacity is refused
 *       and a larger one receives a bundle of the wrong size containing bytes
 *       that are not part of any element.
 *
 * Part (b) runs first and needs no sanitizer. exit 0: property held. */
#include <rtosc/rtosc.h>
#include <stdio.h>
#include <stdlib.h>
#include <string.h>

int main(void)
{
    int bad = 0;
    char m[64];
    size_t mlen = rtosc_message(m, sizeof m, "/a", "i", 7);           /* 12 */

    /* inner bundle, built in a generous scratch buffer */
    char scratch[128];
    size_t ilen = rtosc_bundle(scratch, sizeof scratch, 1, 1, m);     /* 16+4+12 = 32 */
    printf("inner bundle: %zu bytes, rtosc_message_length(inner, %zu) = %zu\n",
           ilen, ilen, rtosc_message_length(scratch, ilen));

    /* (b) a packed store: the inner bundle immediately followed by another
     * message-queue entry (here: a length-prefixed record, 00 00 00 08 ...) */
    unsigned char store[64];
    memset(store, 0, sizeof store);
    memcpy(store, scratch, ilen);
    const unsigned char next_record[12] = {0,0,0,8, '/','z',0,0, ',',0,0,0};
    memcpy(store + ilen, next_record, sizeof next_record);

    const size_t need = 16 + 4 + ilen;                                 /* 52 */
    for(size_t cap = need; cap <= need + 16; cap += 4) {
        char *dst = malloc(cap);
        memset(dst, 0xAA, cap);
        size_t r = rtosc_bundle(dst, cap, 2, 1, (const char*)store);
        printf("outer bundle, capacity %zu (needed %zu): returned %zu\n", cap, need, r);
        if(r != need) {
            printf("VIOLATION: encoding fits (needs %zu) but rtosc_bundle returned %zu\n", need, r);
            bad = 1;
        }
        free(dst);
    }

    /* (a) the inner bundle in an exact-size heap block */
    char *exact = malloc(ilen);
    memcpy(exact, scratch, ilen);
    char *dst = malloc(need);
    fflush(stdout);
    size_t r = rtosc_bundle(dst, need, 2, 1, exact);  /* ASan: READ past `exact` */
    printf("exact-size element: returned %zu (needed %zu)\n", r, need);
    if(r != need)
        bad = 1;
    free(dst);
    free(exact);

    printf(bad ? "FAIL\n" : "OK\n");
    return bad;
}
