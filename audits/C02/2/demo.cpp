/* C02 audit 2: ThreadLink::buffer()/buffer_size() hand out a (pointer, capacity)
 * pair that does not belong together.
 *
 * buffer()      -> write_buffer, allocated as new char[MaxMsg]
 * buffer_size() -> BufferSize == MaxMsg*max_messages  (the RING's size)
 *
 * thread-link.h documents buffer_size() as "Access to write buffer length" and
 * the library's own example (example/complex/synth.cpp:177, example/simple/
 * synth.cc:52) builds messages with
 *     rtosc_vmessage(link.buffer(), link.buffer_size(), ...); link.raw_write(link.buffer());
 * Any message with MaxMsg < size <= MaxMsg*max_messages is then written past
 * the end of write_buffer.
 *
 * exit 0: property held; non-zero / ASan abort: violated. */
#include <rtosc/rtosc.h>
#include <rtosc/thread-link.h>
#include <cstdio>
#include <cstring>
#include <string>

int main()
{
    const size_t MaxMsg = 32, MaxMessages = 8;
    rtosc::ThreadLink link(MaxMsg, MaxMessages);

    std::string payload(60, 'x');                       // message is 4+4+64 = 72 bytes
    size_t need = rtosc_message(NULL, 0, "/x", "s", payload.c_str());

    printf("write buffer really holds : %zu bytes (max_message_length)\n", MaxMsg);
    printf("buffer_size() claims      : %zu bytes\n", link.buffer_size());
    printf("message needs             : %zu bytes\n", need);
    fflush(stdout);

    int bad = 0;
    if(link.buffer_size() > MaxMsg) {
        printf("VIOLATION: advertised capacity exceeds the allocation behind buffer()\n");
        bad = 1;
    }
    fflush(stdout);

    // the usage pattern from example/complex/synth.cpp
    size_t n = rtosc_message(link.buffer(), link.buffer_size(),
                             "/x", "s", payload.c_str());   // ASan: heap-buffer-overflow WRITE
    printf("rtosc_message returned %zu for a destination that is %zu bytes long\n", n, MaxMsg);
    if(n > MaxMsg) {
        printf("VIOLATION: %zu bytes stored into a %zu byte buffer\n", n, MaxMsg);
        bad = 1;
    }
    link.raw_write(link.buffer());
    printf(bad ? "FAIL\n" : "OK\n");
    return bad;
}
