# Builds each world from /repo's *current working tree* into build/<world>/.
# Usage: make WORLD=w_link [REPO=/repo] [BUILD=build]
REPO  ?= /repo
BUILD ?= build
WORLD ?= w_link
B     := $(BUILD)/$(WORLD)
CXX   := g++
CC    := gcc

ASAN  := -fsanitize=address -fno-omit-frame-pointer
OPT   := -O1 -g -DNDEBUG
INC   := -I$(REPO)/include -I.

# ---- per-world configuration -------------------------------------------------
# SAN: sanitizer flags; REPO_C / REPO_CXX: sources taken from /repo; SEAM_CXX: /repo sources compiled through a seam header
LIB_C   := src/rtosc.c src/dispatch.c src/rtosc-time.c src/cpp/pretty-format.c src/cpp/arg-ext.c src/cpp/arg-val.c \
           src/cpp/arg-val-math.c src/cpp/arg-val-cmp.c src/cpp/arg-val-itr.c src/cpp/util.c
LIB_CXX := src/cpp/ports.cpp src/cpp/ports-runtime.cpp src/cpp/default-value.cpp src/cpp/savefile.cpp src/cpp/miditable.cpp \
           src/cpp/automations.cpp src/cpp/midimapper.cpp src/cpp/undo-history.cpp src/cpp/subtree-serialize.cpp

SAN := $(ASAN)
SIMKIT := simkit/sim.cpp
EXTRA :=
NEED_VERSION :=
LDLIBS := -lm

ifeq ($(WORLD),w_link)
  REPO_C := src/rtosc.c
  REPO_CXX :=
  SEAM_CXX := src/cpp/thread-link.cpp
  SEAM_HDR := seams/tl_seam.h
  SIMKIT += simkit/fiber.cpp
endif
ifeq ($(WORLD),w_undo)
  REPO_C := $(LIB_C)
  REPO_CXX := $(LIB_CXX) src/cpp/thread-link.cpp
  EXTRA := seams/time_seam.cpp
  NEED_VERSION := 1
endif
ifeq ($(WORLD),w_auto)
  REPO_C := $(LIB_C)
  REPO_CXX := $(LIB_CXX) src/cpp/thread-link.cpp
  NEED_VERSION := 1
endif
ifeq ($(WORLD),w_midi)
  REPO_C := $(LIB_C)
  REPO_CXX := $(LIB_CXX) src/cpp/thread-link.cpp
  NEED_VERSION := 1
endif
ifeq ($(WORLD),w_node)
  REPO_C := $(LIB_C)
  REPO_CXX := $(LIB_CXX) src/cpp/thread-link.cpp
  EXTRA := seams/time_seam.cpp
  NEED_VERSION := 1
endif
ifeq ($(WORLD),w_save)
  REPO_C := $(LIB_C)
  REPO_CXX := $(LIB_CXX) src/cpp/thread-link.cpp
  NEED_VERSION := 1
endif
ifeq ($(WORLD),w_rt)
  REPO_C := $(LIB_C)
  REPO_CXX := $(LIB_CXX) src/cpp/thread-link.cpp
  SAN :=
  EXTRA := seams/alloc_seam.cpp
  NEED_VERSION := 1
  LDLIBS += -ldl -rdynamic
endif
ifeq ($(WORLD),w_cap)
  REPO_C := $(LIB_C)
  REPO_CXX := $(LIB_CXX) src/cpp/thread-link.cpp
  NEED_VERSION := 1
endif
ifeq ($(WORLD),w_wire)
  REPO_C := src/rtosc.c
  REPO_CXX :=
endif

STDC99 := src/rtosc.c src/dispatch.c src/rtosc-time.c

OBJ_C    := $(patsubst %,$(B)/repo/%.o,$(REPO_C))
OBJ_CXX  := $(patsubst %,$(B)/repo/%.o,$(REPO_CXX))
OBJ_SEAM := $(patsubst %,$(B)/seam/%.o,$(SEAM_CXX))
OBJ_H    := $(patsubst %,$(B)/h/%.o,worlds/$(WORLD).cpp $(SIMKIT) $(EXTRA))
OBJ_V    := $(if $(NEED_VERSION),$(B)/gen/version.o,)

all: $(B)/$(WORLD)

$(B)/$(WORLD): $(OBJ_C) $(OBJ_CXX) $(OBJ_SEAM) $(OBJ_H) $(OBJ_V)
	$(CXX) $(SAN) -o $@ $^ $(LDLIBS)

$(B)/repo/%.c.o: $(REPO)/%.c
	@mkdir -p $(dir $@)
	$(CC) $(if $(filter $*.c,$(STDC99)),-std=c99,) $(OPT) $(SAN) $(INC) -w -MMD -c $< -o $@

$(B)/repo/%.cpp.o: $(REPO)/%.cpp
	@mkdir -p $(dir $@)
	$(CXX) -std=c++17 $(OPT) $(SAN) $(INC) -w -MMD -c $< -o $@

$(B)/seam/%.cpp.o: $(REPO)/%.cpp $(SEAM_HDR)
	@mkdir -p $(dir $@)
	$(CXX) -std=c++17 $(OPT) $(SAN) $(INC) -w -include $(SEAM_HDR) -MMD -c $< -o $@

$(B)/h/%.cpp.o: %.cpp
	@mkdir -p $(dir $@)
	$(CXX) -std=c++17 $(OPT) $(SAN) $(INC) -Wall -Wno-unused-function -Wno-misleading-indentation -MMD -c $< -o $@

$(B)/gen/version.c: $(REPO)/src/cpp/version.c.in $(REPO)/CMakeLists.txt
	@mkdir -p $(dir $@)
	maj=$$(sed -n 's/^set(VERSION_MAJOR \([0-9]*\)).*/\1/p' $(REPO)/CMakeLists.txt); \
	min=$$(sed -n 's/^set(VERSION_MINOR \([0-9]*\)).*/\1/p' $(REPO)/CMakeLists.txt); \
	pat=$$(sed -n 's/^set(VERSION_PATCH \([0-9]*\)).*/\1/p' $(REPO)/CMakeLists.txt); \
	sed -e "s/\$${VERSION_MAJOR}/$$maj/" -e "s/\$${VERSION_MINOR}/$$min/" -e "s/\$${VERSION_PATCH}/$$pat/" $< > $@

$(B)/gen/version.o: $(B)/gen/version.c
	$(CC) $(OPT) $(SAN) $(INC) -w -c $< -o $@

setup:
	@echo "simkit has no repo-independent binaries; every check builds its world from /repo's working tree."
	@g++ --version | head -1

clean:
	rm -rf $(BUILD)

-include $(shell find $(B) -name '*.d' 2>/dev/null)
.PHONY: all setup clean
